#!/usr/bin/env python3
"""C15 - comparisons form a consistent order; every Sort returns an ordered permutation.

(P)  spec/QOrderDefs.tla + QOrder.tla: lexicographic order, axioms checked by TLC over all triples of strings
(I)  spec/QSortImpl.tla: transcription of Memory::Sort; ordered permutation for every array (TLC, exhaustive)
(B)  code -> spec (E5): all pairs of strings (<= MaxLen over 3 symbols; char/char16_t/char32_t; String, String-vs-literal,
     StringView), all pairs of a value universe of every kind (+ transitivity of the recorded tables), every array <= 5
     over {"", a, ab, b} and random longer arrays through Array::Sort / Value::Sort (arrays, numbers, object keys with a
     removed member) are recorded from the real code and each event is evaluated by TLC against OracleOrder.
"""
import os, sys
sys.path.insert(0, os.path.join(os.path.dirname(os.path.abspath(__file__)), "..", "lib"))
import vf

# value universe: kind, magnitude-rank (numbers) / size (containers) / target index (ptr), literal
UNIVERSE = [
    ("undef", 0, ""), ("obj", 0, ""), ("obj", 1, ""), ("obj", 2, ""), ("arr", 0, ""), ("arr", 1, ""), ("arr", 3, ""),
    ("str", 0, ""), ("str", 0, "61"), ("str", 0, "6162"), ("str", 0, "62"), ("str", 0, "610062"), ("str", 0, "7f"),
    # numbers: the rank is the position of the VALUE among all numbers of the universe, whatever their kind (numbers compare by value)
    ("u64", 5, "0"), ("u64", 6, "1"), ("u64", 10, "9223372036854775808"), ("u64", 11, "18446744073709551615"),
    ("i64", 1, "-9223372036854775807"), ("i64", 4, "-1"), ("i64", 5, "0"), ("i64", 8, "5"), ("i64", 9, "9223372036854775807"),
    ("real", 0, "-1e300"), ("real", 3, "-1.5"), ("real", 5, "0.0"), ("real", 7, "2.5"), ("real", 13, "1e300"),
    ("true", 0, ""), ("false", 0, ""), ("null", 0, ""),
    ("ptr", 8, ""), ("ptr", 14, ""), ("ptr", 2, ""), ("ptr", 27, ""), ("ptr", 31, ""),   # pointers to "a", 1, {..}, true, and to a pointer
    # (appended so that the pointer targets above keep their positions) equal and neighbouring values of different number kinds
    ("u64", 8, "5"), ("real", 8, "5.0"), ("real", 10, "9223372036854775808.0"), ("real", 12, "18446744073709551616.0"), ("i64", 2, "-2"),
]


def main():
    c = vf.Check("C15")
    (asan,) = c.build("h_order.asan")

    # ---- specification level
    r = c.tlc("QOrder", "QOrder" if c.thorough else "QOrder_small", timeout=1800)
    c.expect_holds(r, "order axioms of the specification")
    r = c.tlc("QSortImpl", timeout=900)
    c.expect_holds(r, "Memory::Sort transcription returns an ordered permutation")

    traces = []
    # ---- strings: all pairs
    ml = 4 if c.thorough else 3
    p = os.path.join(c.out, "pairs.ndjson")
    rc, out, err = c.run([asan, "pairs", str(ml), p], timeout=1200)
    ok = out.strip().endswith("DONE")
    for ln in out.splitlines():
        if ln.startswith("MISMATCH"):
            c.violation("order " + ln, {"kind": "harness", "line": ln})
    if not ok:
        c.violation("order pairs crash " + out[-100:], {"kind": "crash", "rc": rc, "stderr": err[-3000:]})
    traces.append(("pairs", p))

    # ---- values: all pairs of the universe
    up = os.path.join(c.out, "universe.txt")
    with open(up, "w") as f:
        for k, m, t in UNIVERSE:
            f.write("%s %d %s\n" % (k, m, t))
    p = os.path.join(c.out, "values.ndjson")
    rc, out, err = c.run([asan, "values", up, p], timeout=600)
    if not out.strip().endswith("DONE"):
        c.violation("order values crash " + out[-100:], {"kind": "crash", "rc": rc, "stderr": err[-3000:]})
    traces.append(("values", p))

    # ---- sorts
    p = os.path.join(c.out, "sorts.ndjson")
    rc, out, err = c.run([asan, "sorts", str(c.seed), "40000" if c.thorough else "300", p], timeout=1200)
    for ln in out.splitlines():
        if ln.startswith("MISMATCH"):
            c.violation("order " + ln, {"kind": "harness", "line": ln})
    if not out.strip().endswith("DONE"):
        c.violation("order sorts crash " + out[-100:], {"kind": "crash", "rc": rc, "stderr": err[-3000:]})
    traces.append(("sorts", p))

    for name, p in traces:
        evs = vf.read_ndjson(p)
        r = c.tlc("OracleOrder", env={"TRACE": p}, name="OracleOrder_" + name, timeout=1800, xmx="16g")
        bad = sorted(set(t[1] for t in r.tuples("MISMATCH")))
        for l in bad[:200]:
            e = evs[l - 1]
            if e["k"] == "str":
                sig = "order str %s a=%s b=%s r=%s" % (e["t"], e["a"], e["b"], e["r"])
            elif e["k"] == "val":
                sig = "order val %s%s vs %s%s rab=%s rba=%s" % (e["ka"], "(ptr)" if e["pa"] else "", e["kb"], "(ptr)" if e["pb"] else "", e["rab"], e["rba"])
            elif e["k"] == "sort":
                sig = "order sort via=%s asc=%d in=%s out=%s" % (e["via"], e["asc"], e["in"], e["out"])
            else:
                sig = "order table not transitive"
            c.violation(sig, {"kind": "oracle", "event": e, "trace": name})
        c.count(n_eval=len(evs), validated=len(evs) - len(bad),
                distinct_keys=[(e["k"], e.get("t", e.get("via", "")), str(e.get("a", e.get("i", e.get("in")))), str(e.get("b", e.get("j", e.get("asc"))))) for e in evs])
        c.stage(name, events=len(evs), mismatches=len(bad))
        for e in evs[5:60:25]:
            c.sample(e if e["k"] != "table" else "table")
    c.finish(rule="code->spec batch oracle: every ordered pair of the %d strings of length <= %d over 3 symbols x 3 character widths x "
                  "{String, String-vs-literal, StringView}; every ordered pair of a %d-value universe (all kinds incl. pointers) + "
                  "transitivity of the recorded tables; every array of length <= 5 over {'',a,ab,b} ascending and descending + random "
                  "arrays <= 23 over 6 strings through Array::Sort and Value::Sort (strings, u64/i64/real, object keys with a removed "
                  "member, lookups afterwards); distinct = distinct (kind, type, operands) events" % ((3 ** (ml + 1) - 1) // 2, ml, len(UNIVERSE)),
             assumptions=["plain char is exercised with units 0x01..0x7F only (signedness of char makes 'by code unit' ambiguous above)",
                          "for values of different kinds and containers only the order axioms are demanded"],
             exhaustive=False)


vf.main_wrap(main)
