#!/usr/bin/env python3
"""C02 - rendering a well-formed template yields exactly the documented expansion.

(P) spec/QTemplate.tla: Render(ast, doc) written from Documentation/Template.md (uses QExpr for math / conditions, QEscape for
    {var:}, GroupBy / Sort for loops).
(B) code -> spec (E5): random ASTs over the documented grammar (variables with key / index paths and loop variables at every
    nesting level, raw, math, super variables with sub-tags, inline if in both attribute orders and quote kinds, if / else-if /
    else in all documented spellings, loops with set / value / group / sort, nested <= 3) are unparsed to text, rendered by the
    real engine (3 character widths, exact-size unterminated buffers, non-empty output stream, rendered twice, ASan/UBSan) and
    every event is judged by TLC: output = Render(ast, doc); value untouched; stream only appended to; widths agree.
"""
import os, sys, json
sys.path.insert(0, os.path.join(os.path.dirname(os.path.abspath(__file__)), "..", "lib"))
import vf, walk, tmplgen


def write_cases(path, cases):
    with open(path, "w") as f:
        for case in cases:
            doc, nodes, text = case[:3]
            vj = tmplgen.to_json(doc)
            f.write(",".join(str(ord(ch)) for ch in text) + "\t" + ",".join(str(ord(ch)) for ch in vj) + "\t" +
                    json.dumps({"ast": nodes, "doc": doc, "fam": case[3] if len(case) > 3 else "random"}, separators=(",", ":")) + "\n")


def sig(e):
    fam = {"sortkind": "SORTKIND ", "caselast": "CASELAST "}.get(e["meta"].get("fam"), "")     # (SORTKIND: fix fea5965; CASELAST: recorded finding)
    return "template %s%r -> out=%r" % (fam, "".join(chr(u) for u in e["t"])[:300], "".join(chr(u) for u in e["out"])[:200])


def sortkind_cases():
    """a loop sorted over numbers of different kinds (natural, negative integer, real): the documented order is the numeric one"""
    U = tmplgen.U
    out = []
    for nums in ([48, -32, 8], [16, 40], [-16, 80], [8, 16], [160, -8, 48, 4], [-32, -8]):
        for srt, word in ((1, "ascend"), (2, "descend")):
            doc = {"t": "O", "m": [{"k": U("mix"), "v": {"t": "A", "e": [tmplgen.numdoc(x) for x in nums]}}]}
            src = "{var:v}"
            body = [{"t": "var", "p": {"loop": U("v"), "base": [], "steps": []}, "src": U(src)}, {"t": "text", "s": U(",")}]
            text = '<loop set="mix" value="v" sort="%s">%s,</loop>' % (word, src)
            nodes = [{"t": "loop", "hasset": 1, "set": {"loop": [], "base": U("mix"), "steps": []}, "value": U("v"), "group": [], "sort": srt, "body": body}]
            out.append((doc, nodes, text, "sortkind"))
    return out


def caselast_cases():
    """the documentation lists `{if true="one" case="1"}` as accepted ("OK"): an inline if whose case= is not the first attribute"""
    U = tmplgen.U
    out = []
    doc = {"t": "O", "m": [{"k": U("a"), "v": tmplgen.numdoc(16)}]}
    one = {"t": "lit", "n": 16}
    for text, T, F in (('{if true="one" case="1"}', "one", ""), ('{if false="n" true="y" case="1"}', "y", "n"), ("{if true='one' false='two' case='1'}", "one", "two")):
        nodes = [{"t": "iif", "c": [one], "T": [{"t": "text", "s": U(T)}] if T else [], "F": [{"t": "text", "s": U(F)}] if F else []}]
        out.append((doc, nodes, text, "caselast"))
    return out


def loopvar_stage(c, asan):
    """QLoopVar: the binding of a reference to an enclosing loop - model (and the two rejected scanner variants) and the real engine on
    every stack of up to 3 loops (names up to 2 units over a, b, or no value=) x every reference `id` / `id[k]` of the model's domain"""
    import itertools
    r = c.tlc("QLoopVar", "QLoopVar_current", timeout=900, workers=8)
    c.expect_holds(r, "QLoopVar: Agree (outward walk = innermost loop of that name, on delimited references)")
    for cfg in ("QLoopVar_empty-name-captures", "QLoopVar_stops-at-longer-name"):
        r = c.tlc("QLoopVar", cfg, timeout=900, workers=4)
        if not r.violated:
            raise vf.MachineryError("%s: the earlier / seeded scanner behaviour is not rejected" % cfg)
    unit = {1: "a", 2: "b"}
    names = [()] + [(x,) for x in (1, 2)] + [(x, y) for x in (1, 2) for y in (1, 2)]
    ids = [n for n in names if n]
    refs = [i for i in ids] + [i + (3, k) for i in ids for k in (1, 2)]
    vj = '{"s1":["L1"],"s2":["L2"],"s3":["L3"]}'
    p_in = os.path.join(c.out, "loopvar.txt")
    n = 0
    with open(p_in, "w") as f:
        for depth in range(0, 4):
            for stack in itertools.product(names, repeat=depth):
                for ref in refs:
                    reftext = "".join(unit.get(u, "[") for u in ref) + ("]" if 3 in ref else "")
                    text = ""
                    for i, nm in enumerate(stack):
                        text += '<loop set="s%d"%s>' % (i + 1, (' value="%s"' % "".join(unit[u] for u in nm)) if nm else "")
                    text += "{var:%s}" % reftext + "</loop>" * depth
                    meta = {"fam": "loopvar", "loops": [list(nm) for nm in stack], "ref": list(ref)}
                    f.write(",".join(str(ord(ch)) for ch in text) + "\t" + ",".join(str(ord(ch)) for ch in vj) + "\t" + json.dumps(meta, separators=(",", ":")) + "\n")
                    n += 1
    p_out = os.path.join(c.out, "loopvar.ndjson")
    crashes = walk.run_cases(c, asan, "render", p_in, p_out, "template-loopvar")
    c.stage("loopvar", cases=n, crashes=crashes)
    if os.path.exists(p_out) and os.path.getsize(p_out):
        c.oracle("OracleLoopVar", p_out, "OracleLoopVar", lambda e: "template loop-variable binding: loops=%s ref=%s template=%r -> out=%r" % (
            e["meta"]["loops"], e["meta"]["ref"], "".join(chr(u) for u in e["t"]), "".join(chr(u) for u in e["out"])), timeout=1500)
        os.remove(p_out)
    os.remove(p_in)


def main():
    c = vf.Check("C02")
    (asan,) = c.build("h_template.asan")
    loopvar_stage(c, asan)
    n = 24000 if c.thorough else 6000
    cases = []
    for i in range(n):
        g = tmplgen.Gen(c.seed * 1000003 + i)
        cases.append(g.template(depth=3 if i % 3 else 2))
    cases += sortkind_cases()
    cases += caselast_cases()
    inp = os.path.join(c.out, "templates.txt")
    write_cases(inp, cases)
    p = os.path.join(c.out, "render.ndjson")
    crashes = walk.run_cases(c, asan, "render", inp, p, "template-render")
    c.stage("harness", cases=len(cases), crashes=crashes)
    if os.path.exists(p) and os.path.getsize(p):
        # canary: one event that must be reported - the oracle has to
        # report it (long payloads are printed over many lines; a collector that loses them once hid real mismatches, DESIGN 0.6)
        evs = vf.read_ndjson(p)
        # outputs of more than 6,000 units (nested loops over the longer sets) are not judged: the reference interpreter builds the expected text
        # several times per event, and a handful of such events exhausted 21 GB of heap in the thorough tier
        big = [e for e in evs if len(e["out"]) > 6000]
        if big:
            evs = [e for e in evs if len(e["out"]) <= 6000]
            with open(p, "w") as f:
                for e in evs:
                    f.write(json.dumps(e, separators=(",", ":")) + "\n")
        c.stage("not-judged-large-output", events=len(big))
        for e in big:       # (what does not need the reference text is still demanded: append-only, same in every width, value untouched)
            if not (e["prefix"] == 1 and e["wsame"] == 1 and e["vsame"] == 1):
                c.violation(sig(e) + " flags prefix=%d wsame=%d vsame=%d" % (e["prefix"], e["wsame"], e["vsame"]), {"kind": "flags", "template": "".join(chr(u) for u in e["t"])})
        # (a synthetic, fully literal event: 900 units of tag-free text whose recorded output differs in one unit)
        canary_line = 0
        if evs:
            lit = [97 + (i * 7) % 26 for i in range(900)]
            o = list(lit)
            o[450] = 65
            e = {"t": lit, "out": o, "prefix": 1, "wsame": 1, "vsame": 1, "meta": {"ast": [{"t": "text", "s": lit}], "doc": {"t": "Z"}, "fam": "canary"}}
            with open(p, "a") as f:
                f.write(json.dumps(e, separators=(",", ":")) + "\n")
            canary_line = len(evs) + 1
        r = c.tlc("OracleTemplate", env={"TRACE": p}, name="OracleTemplate", timeout=6600, xmx="24g", xss="512m")
        bad = {t[1]: t[2] for t in r.tuples("MISMATCH")}
        if canary_line:
            skipped_c = canary_line in set(t[1] for t in r.tuples("SKIPPED"))
            if canary_line not in bad and not skipped_c:
                raise vf.MachineryError("the canary event (one unit changed in a 900-unit literal output) was not reported by the oracle")
            bad.pop(canary_line, None)
        for l in sorted(bad)[:300]:
            e = evs[l - 1]
            exp = bad[l]
            c.violation(sig(e) + " expected=%r" % ("".join(chr(u) if u >= 0 else "?" for u in exp)[:200]), {"kind": "oracle", "template": "".join(chr(u) for u in e["t"]),
                        "value": e["meta"]["doc"], "out": "".join(chr(u) for u in e["out"]), "expected": "".join(chr(u) if u >= 0 else "?" for u in exp),
                        "flags": {k: e[k] for k in ("prefix", "wsame", "vsame")}})
        partial = len(set(t[1] for t in r.tuples("PARTIAL")))
        skipped = len(set(t[1] for t in r.tuples("SKIPPED")))
        c.stage("oracle", events=len(evs), mismatches=len(bad), partially_judged=partial, not_judged_too_many_unjudged_nodes=skipped, fully_judged=len(evs) - partial - skipped)
        nn = max(0, r.distinct - 65 - (1 if canary_line else 0))
        c.count(n_eval=nn, validated=nn - len(bad), distinct_keys=[tuple(e["t"]) for e in evs])
        kinds = {}
        def walk_nodes(ns):
            for x in ns:
                kinds[x["t"]] = kinds.get(x["t"], 0) + 1
                for k in ("body", "T", "F", "subs"):
                    if k in x:
                        walk_nodes(x[k])
                for cs in x.get("cases", []):
                    walk_nodes(cs["body"])
        for e in evs:
            walk_nodes(e["meta"]["ast"])
        c.stage("node_kinds", **kinds)
        for e in evs[2:len(evs):max(1, len(evs) // 4)]:
            c.sample({"template": "".join(chr(u) for u in e["t"]), "out": "".join(chr(u) for u in e["out"])})
    c.finish(rule="random ASTs (<= 4 nodes per sequence, nesting <= 3) over a random root document with arrays, objects, records for grouping, "
                  "phrases, numeric strings and HTML-special strings/keys; distinct = distinct template texts",
             assumptions=["documentation-silent situations are not generated: scalar loop sets, {var:} of a container other than the bare loop variable, names "
                          "> 255 units, spaces inside {var: x }",
                          "a node the specification does not judge (an expression outside the exact domain of QExpr, an inline-if whose case has no value) stands for any text "
                          "at its place; everything before, between and after such nodes is demanded (the evidence stage 'oracle' counts the partially judged events)",
                          "reals are multiples of 1/4 so that the two-digit semi-fixed text is exact"],
             exhaustive=False)


vf.main_wrap(main)
