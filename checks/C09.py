#!/usr/bin/env python3
"""C09 - text to number: integers exact, reals within one ulp, out-of-range rejected.

(P) spec/QDigitParse.tla: the numeral grammar as a scanner (consumed length, malformed shapes), the exact value D*10^k on
    byte-level naturals (QBigNat) and the judgement: exact Natural / Integer when the integer fits; otherwise the sign and
    |D*10^k - m*2^e| <= 1.5 ulp verified relationally with big naturals; infinity / not-a-number only beyond the largest finite double.
(B) code -> spec (E5): every string <= 5/6 over {+ - 0 1 9 . e} (all paths of the numeral automaton), the 2^63 / 2^64 boundaries,
    exact halfway points between adjacent doubles in many binades (up to 770 digits), the neighbourhood of DBL_MAX and of the
    subnormals, 19..800-digit mantissas, random numerals, numerals followed by a terminator - through Digit::StringToNumber
    from exact-size buffers under ASan (3 character widths), each event judged by TLC.
"""
import os, sys, random, itertools
sys.path.insert(0, os.path.join(os.path.dirname(os.path.abspath(__file__)), "..", "lib"))
import vf


def exact_decimal(m, e):
    """exact decimal text of m * 2^e"""
    if e >= 0:
        return str(m << e)
    n = -e
    digits = str(m * 5 ** n)
    if len(digits) <= n:
        digits = "0" * (n - len(digits) + 1) + digits
    return (digits[:-n] + "." + digits[-n:]).rstrip("0").rstrip(".") if True else digits


def sci(text, rnd):
    """rewrite a plain decimal text in a random exponent spelling denoting the same value"""
    if "." in text:
        ip, fp = text.split(".")
    else:
        ip, fp = text, ""
    digits = (ip + fp).lstrip("0") or "0"
    k = -len(fp)
    digits2 = digits.rstrip("0") or "0"
    k += len(digits) - len(digits2)
    pos = rnd.randint(1, max(1, min(len(digits2), 3)))
    mant = digits2[:pos] + ("." + digits2[pos:] if pos < len(digits2) else "")
    ex = k + (len(digits2) - pos)
    return "%s%s%s%d" % (mant, rnd.choice("eE"), rnd.choice(["", "+"]) if ex >= 0 else "", ex)


def gen(c):
    rnd = random.Random(c.seed)
    out = []
    fam = {}

    def add(s, f):
        out.append(s)
        fam[f] = fam.get(f, 0) + 1
    # (a) every string over the automaton alphabet
    n = 6 if c.thorough else 5
    for L in range(1, n + 1):
        for t in itertools.product("+-019.e", repeat=L):
            add("".join(t), "automaton")
    # (b) integer boundaries
    for base in (2 ** 63, 2 ** 64, 2 ** 53, 10 ** 19, 0x1999999999999999 * 10):
        for d in range(-3, 4):
            for sign in ("", "-", "+"):
                for tail in ("", ".0", "e0", ".5", "0", "e1"):
                    add("%s%d%s" % (sign, base + d, tail), "int-boundary")
    # (c) halfway points between adjacent doubles, and their neighbours
    exps = list(range(-1074, -1060)) + list(range(-1030, -1015)) + list(range(-60, 70)) + list(range(960, 972)) + [rnd.randint(-1074, 971) for _ in range(60 if c.thorough else 15)]
    for e in exps:
        for _ in range(3 if c.thorough else 1):
            m = rnd.getrandbits(52) | (1 << 52) if e > -1074 else rnd.getrandbits(52)
            if e == -1074 and rnd.random() < 0.3:
                m = rnd.randint(0, 4)
            tie = exact_decimal(2 * m + 1, e - 1)
            for t in (tie, tie + "1", tie[:-1] + str(max(0, int(tie[-1]) - 1)) + "9", exact_decimal(m, e), exact_decimal(m + 1, e)):
                add(t, "halfway")
                if rnd.random() < 0.5:
                    add(("-" if rnd.random() < 0.5 else "") + sci(t, rnd), "halfway-sci")
    # (d) the upper end of the range
    dmax = (2 ** 53 - 1) << 971
    for t in ["1.7976931348623157e308", "1.7976931348623158e308", "1.7976931348623159e308", "1.79769313486231580793e308", "1.8e308", "1e309", "44e307",
              "810e306", "9e308", "0.1e310", "17976931348623157e292", str(dmax), str(dmax + (1 << 970)), str(dmax + (1 << 970) - 1), str(dmax + (1 << 971)),
              "1" + "0" * 308, "1" + "0" * 309, "1" + "0" * 400, "2e308", "1e400", "1e99999", "123e400",
              "1e4294967297", "1e4294967396", "7e42949672960", "1e1000000", "25e4294967295", "1e-4294967297", "0e4294967297"]:     # (exponents that wrap a 32-bit counter)
        add(t, "range-top")
        add("-" + t, "range-top")
    # (e) the lower end
    for t in ["4.9e-324", "5e-324", "2.4703282292062327e-324", "2.4703282292062328e-324", "2.47032822920623272e-324", "1e-324", "1e-400", "3e-324", "7.4e-324",
              "2.2250738585072014e-308", "2.2250738585072011e-308", "2.225073858507201e-308", "2.2250738585072009e-308", "1e-323", "0.0000001e-317", "4.9406564584124654e-324",
              exact_decimal(1, -1075), exact_decimal(3, -1075), exact_decimal(1, -1074), "0.0", "-0.0", "0e-5", "-0", "0", "0.000", "-0e5"]:
        add(t, "range-bottom")
    # (f) long mantissas
    for nd in [17, 18, 19, 20, 21, 22, 25, 40, 80, 300, 800]:
        for _ in range(6 if c.thorough else 2):
            ds = str(rnd.randint(1, 9)) + "".join(rnd.choice("0123456789") for _ in range(nd - 1))
            add(ds, "long")
            p = rnd.randint(0, nd)
            ex = rnd.randint(-330 - 0, 300 - nd if nd < 300 else 0)
            add(ds[:p] + "." + ds[p:] + "e%d" % ex if 0 < p < nd else ds + "e%d" % ex, "long")
    # (g) random numerals
    for _ in range(6000 if c.thorough else 1200):
        nd = rnd.randint(1, 30)
        ds = "".join(rnd.choice("0123456789") for _ in range(nd)).lstrip("0") or "0"
        s = rnd.choice(["", "", "-", "+"]) + ds
        r = rnd.random()
        if r < 0.5:
            s += "." + "".join(rnd.choice("0123456789") for _ in range(rnd.randint(1, 25)))
        if rnd.random() < 0.6:
            s += rnd.choice("eE") + rnd.choice(["", "+", "-"]) + str(rnd.randint(0, 340))
        add(s, "random")
        if rnd.random() < 0.2:
            add(s + rnd.choice([",", "]", " ", "x", "}", "\n"]), "terminated")   # must consume exactly the numeral
    # (i) the written exponent is far outside the range of a double but leading fraction zeros / trailing integer zeros bring the value back
    #     into it (the exponent and the digit positions are combined only after both are read)
    for S in (25, 60, 120, 330, 360, 420, 700, 1100):
        for _ in range(6 if c.thorough else 2):
            d = str(rnd.randint(1, 9)) + "".join(rnd.choice("0123456789") for _ in range(rnd.choice([0, 2, 16, 19, 28])))
            T = rnd.choice([rnd.randint(-322, -300), rnd.randint(-30, 30), rnd.randint(280, 308), rnd.randint(-300, 300)])     # decimal exponent of the value
            add("%s0.%s%se%s%d" % (rnd.choice(["", "-"]), "0" * S, d, rnd.choice(["", "+"]), T + S + 1), "shifted")                # 0.000..0d e+(big)
            add("%s%s%se%d" % (rnd.choice(["", "-"]), d, "0" * S, T - S - (len(d) - 1)), "shifted")                                 # d000..0 e-(big)
    # (h) malformed shapes
    for t in ["", "-", "+", ".", "-.", "00", "01", "-01", "1..", "1.2.3", "1e", "1e+", "1e-", "1.e", "e5", ".e5", "1e5.5", "--1", "+-1", "1ee5", "1e5e5", "abc", "1.2e", "1.2e+"]:
        add(t, "malformed")
    return out, fam


def main():
    c = vf.Check("C09")
    (asan,) = c.build("h_digit.asan")
    numerals, fam = gen(c)
    inp = os.path.join(c.out, "numerals.txt")
    with open(inp, "w") as f:
        for s in numerals:
            f.write(",".join(str(ord(ch)) for ch in s) + "\n")
    p = os.path.join(c.out, "parse.ndjson")
    rc, out, err = c.run([asan, "parse", inp, p], timeout=1800)
    if c.harness_ok("digit-parse", rc, out, err):
        def sig(e):
            t = "".join(chr(u) for u in e["s"])
            bits = sum(b << (8 * i) for i, b in enumerate(e["bits"]))
            return "digit-parse w=%d text=%s cls=%d consumed=%d/%d bits=%016x" % (e["w"], t[:120] + ("..." if len(t) > 120 else ""), e["cls"], e["consumed"], len(t), bits)
        c.oracle("OracleDigitParse", p, "OracleDigitParse", sig, timeout=3400, xmx="24g", xss="512m",
                 tags={"UNDERFLOW": lambda e: "digit-parse underflow-rejected " + sig(e)})
        evs = vf.read_ndjson(p)
        c.count(distinct_keys=[(e["w"], tuple(e["s"])) for e in evs if e["cls"] != 0])
        for e in evs[20000:30000:2500] + evs[-2000:-1:500]:
            c.sample({"text": "".join(chr(u) for u in e["s"])[:80], "cls": e["cls"], "consumed": e["consumed"], "bits": e["bits"]})
    c.stage("families", **fam)
    c.finish(rule="numerals by family (all strings <= %d over {+ - 0 1 9 . e}; 2^53/2^63/2^64/10^19 boundaries x sign x tail; exact halfway points and "
                  "neighbours in ~200 binades incl. subnormal and top binades, also in exponent spelling; DBL_MAX / subnormal neighbourhoods; 17..800 digit "
                  "mantissas; random numerals; terminated numerals; malformed shapes); non-trivial = numerals the converter accepted" % (6 if c.thorough else 5),
             assumptions=["'1.' and '.5' (a dot without digits on one side) are under-specified and accepted either way",
                          "the candidate numerals are produced with Python integers; every judgement (exact value, class, ulp distance) is made by TLC on byte-level naturals"],
             exhaustive=False)


vf.main_wrap(main)
