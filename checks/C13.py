#!/usr/bin/env python3
"""C13 - the hash array is an insertion-ordered map under every history.

(P)  spec/QHash.tla        property specification, invariants + action properties (TLC, exhaustive)
(I)  spec/QHashImpl.tla    transcription of HashTable.hpp (buckets, chains, tombstones) refining QHash
(B)  spec -> code: the complete labelled state graph of QHash is replayed edge by edge into the real
                   HArray<String,SizeT>, HArray<String,String>, HList<String> with colliding / empty /
                   prefix key universes; after every edge every key is probed through the lookup API
     code -> spec: random histories recorded from the real tables are validated by TraceQHash (TLC)
"""
import os, sys
sys.path.insert(0, os.path.join(os.path.dirname(os.path.abspath(__file__)), "..", "lib"))
import vf


def proj_table(t):
    return ",".join("%d:%d:%d" % (s["k"], s["v"], 1 if s["live"] else 0) for s in t)


def write_graph(dot, path):
    nodes, edges, inits = vf.parse_dot(dot)
    with open(path, "w") as f:
        for i in inits:
            f.write("I %s\n" % i)
        for n, st in nodes.items():
            tb = st["tb"]
            p = [proj_table(t) for t in tb] + [""] * (2 - len(tb))
            f.write("N %s %s\n" % (n, "|".join(p)))
        for s, lab, d in edges:
            f.write("E %s %s %s\n" % (s, lab.replace(" ", ""), d))
    return len(nodes), len(edges)


def run_walk(c, binary, graph, variant, nkeys, sanit, maxslots):
    rc, out, err = c.run([binary, "walk", graph, str(variant), str(nkeys), str(maxslots)], timeout=1500)
    lines = out.splitlines()
    for ln in lines:
        if ln.startswith("MISMATCH"):
            c.violation("hash-walk " + ln[:300], {"kind": "graph-edge", "binary": binary, "graph": graph, "variant": variant, "line": ln})
        if ln.startswith("WALK"):
            kv = dict(x.split("=") for x in ln.split()[2:])
            c.count(n_eval=int(kv["labels"]), validated=int(kv["edges"]))
            c.stage("walk:%s:%s" % (os.path.basename(binary), ln.split()[1]), **{k: int(v) for k, v in kv.items()})
        if ln.startswith("LEDGER"):
            kv = dict(x.split("=") for x in ln.split()[1:])
            if int(kv["live"]) != 0 or int(kv["badfree"]) != 0:
                c.violation("hash-walk ledger " + ln, {"kind": "ledger", "line": ln})
    if not lines or lines[-1] != "DONE":
        c.violation("hash-walk crash variant=%d %s %s" % (variant, sanit, (lines[-1] if lines else "")[:80]),
                    {"kind": "crash", "binary": binary, "graph": graph, "variant": variant, "rc": rc, "stderr": err[-3000:], "tail": lines[-5:]})


def main():
    c = vf.Check("C13")
    plain, asan = c.build("h_hash.plain", "h_hash.asan")

    # ---- (P) exhaustive: invariants and action properties of the property specification
    r = c.tlc("QHash", "QHash_one", dump=os.path.join(c.out, "one.dot"))
    c.expect_holds(r, "QHash_one")
    n1, e1 = write_graph(os.path.join(c.out, "one.dot"), os.path.join(c.out, "one.graph"))
    two_cfg = "QHash_two" if c.thorough else "QHash_two_small"
    r = c.tlc("QHash", two_cfg, dump=os.path.join(c.out, "two.dot"), timeout=1800)
    c.expect_holds(r, two_cfg)
    n2, e2 = write_graph(os.path.join(c.out, "two.dot"), os.path.join(c.out, "two.graph"))
    c.log("graphs: one-table %d nodes %d edges; two-table %d nodes %d edges" % (n1, e1, n2, e2))
    os.remove(os.path.join(c.out, "one.dot"))
    os.remove(os.path.join(c.out, "two.dot"))

    # ---- (I) => (P)
    for cfg in (["QHashImpl_A", "QHashImpl_B", "QHashImpl_two"] if c.thorough else ["QHashImpl_small"]):
        r = c.tlc("QHashImpl", cfg, timeout=3000)
        c.expect_holds(r, cfg + ": HashTable transcription refines QHash")

    # ---- spec -> code
    variants = [0, 1, 2, 3]
    for v in variants:
        run_walk(c, asan, os.path.join(c.out, "one.graph"), v, 3, "asan", 4)
    for v in (variants if c.thorough else [0, 1]):
        run_walk(c, plain if not c.thorough else asan, os.path.join(c.out, "two.graph"), v, 3, "plain", 3 if c.thorough else 2)
    c.count(distinct_keys=[("edge", i) for i in range(e1 + e2)])

    # ---- code -> spec
    nh, ns = (400, 250) if c.thorough else (60, 150)
    trace = os.path.join(c.out, "hash.ndjson")
    rc, out, err = c.run([asan, "record", str(c.seed), str(nh), str(ns), trace], timeout=1500)
    lines = out.splitlines()
    if not lines or lines[-1] != "DONE":
        c.violation("hash-record crash " + (lines[-1] if lines else ""), {"kind": "crash", "rc": rc, "stderr": err[-3000:],
                                                                           "cmd": [asan, "record", c.seed, nh, ns]})
    for ln in lines:
        if ln.startswith("LEDGER"):
            kv = dict(x.split("=") for x in ln.split()[1:])
            if int(kv["live"]) != 0 or int(kv["badfree"]) != 0:
                c.violation("hash-record ledger " + ln, {"kind": "ledger", "line": ln})
    evs = vf.read_ndjson(trace)
    r = c.tlc("TraceQHash", env={"TRACE": trace}, workers=1, timeout=1500, xss="512m")
    if not r.ok():
        l = (r.last_state or {}).get("l", 0)
        ctx = evs[max(0, l - 6):l]
        c.violation("hash-trace rejected op=%s" % (evs[l - 1]["op"] if 0 < l <= len(evs) else "?"),
                    {"kind": "trace", "line": l, "events_up_to_rejection": ctx, "violated": r.violated,
                     "spec_state_before": (r.last_state or {}).get("tb")})
    else:
        c.count(n_eval=len(evs), validated=sum(1 for e in evs if e["op"] == "Reset"),
                distinct_keys=[(e["op"], tuple(e.get("a", [])), str(e["p"])) for e in evs])
    for e in evs[3:40:9]:
        c.sample(e)
    c.finish(rule="spec->code: every (state, action-label) pair of the QHash state graphs (keys {1,2,3}, one table <=4 slots; "
                  "two tables <=%d slots) executed on three real table types with 4 key universes (colliding mod 16, empty+NUL key, "
                  "prefix chain, spread), all keys probed after each edge; code->spec: random histories (12 keys, 2 tables, 16 "
                  "operations) validated line by line by TraceQHash; distinct = distinct graph edges + distinct (op,args,state) events" % (3 if c.thorough else 2),
             assumptions=["abstract keys are mapped to real strings so that id order = unsigned lexicographic order",
                          "memory errors are sensed by ASan/UBSan, not decided by TLC"],
             exhaustive=False)


vf.main_wrap(main)
