#!/usr/bin/env python3
"""C08 - stringify o parse is the identity on trees; the text is valid JSON.

(P) QJsonGrammar (the independent reading of the text) + Norm (Undefined members / elements are omitted).
(B) code -> spec: random trees built through the public Value API (removed members, Undefined slots, members with Undefined
    value, empty containers, keys and strings with NUL, controls, quote, backslash, slash, DEL, non-ASCII, 64-bit extremes,
    reals k/2) are stringified (precision 17, into a non-empty stream), parsed back and stringified again; TLC judges every
    event: the text is a document of the grammar, denotes Norm(tree), the library reads it back to the same tree, and
    stringify(parse(text)) = text.
"""
import os, sys
sys.path.insert(0, os.path.join(os.path.dirname(os.path.abspath(__file__)), "..", "lib"))
import vf, jsoncommon as J


def main():
    c = vf.Check("C08")
    (asan,) = c.build("h_json.asan")
    p, ok = J.run_family(c, asan, "stringify", ["stringify", str(c.seed), "400000" if c.thorough else "15000"])
    if ok:
        evs = vf.read_ndjson(p)
        import json
        c.count(distinct_keys=[(e["w"], json.dumps(e["tree"])) for e in evs])
        for e in evs[5:2000:450]:
            c.sample({"w": e["w"], "tree": e["tree"], "text": J.text(e)})
    c.finish(rule="random trees (depth <= 3) built through the Value API in 3 character widths; distinct = distinct (width, tree)",
             assumptions=["number formatting itself is the subject of C10/C11: reals are k/2, integers incl. the 64-bit extremes",
                          "pointer-to-value entries point to every kind incl. Undefined and to a pointer to Undefined; a pointer to a pointer to a "
                          "defined value is not generated (the public accessors forward one level only, so the tree is not observable)"],
             exhaustive=False)


vf.main_wrap(main)
