#!/usr/bin/env python3
"""C08 - stringify o parse is the identity on trees; the text is valid JSON.

(P) QJsonGrammar (the independent reading of the text) + Norm (Undefined members / elements are omitted).
(I) spec/QStringifyImpl.tla: the writers (stringifyObject / Array / Value) on the representation - dead slots, Undefined elements,
    pointers (also to Undefined), the last-comma patch after both kinds of previous stream content; TLC: the tokens are the canonical
    text of the abstract tree for every container of <= 3 (thorough 4) entries; 3 variants rejected (own-type = before 6202e25).
(B) spec -> code (E2): every state of the model (<= 2, thorough <= 3 entries) is rebuilt through the public API and stringified; the
    text must be the model's tokens.
(B) code -> spec: random trees built through the public Value API (removed members, Undefined slots, members with Undefined
    value, empty containers, keys and strings with NUL, controls, quote, backslash, slash, DEL, non-ASCII, 64-bit extremes,
    reals k/2) are stringified (precision 17, into a non-empty stream), parsed back and stringified again; TLC judges every
    event: the text is a document of the grammar, denotes Norm(tree), the library reads it back to the same tree, and
    stringify(parse(text)) = text.
"""
import os, sys
sys.path.insert(0, os.path.join(os.path.dirname(os.path.abspath(__file__)), "..", "lib"))
import vf, jsoncommon as J


def model_stage(c, asan):
    """(I) QStringifyImpl: the writers on the representation (dead slots, Undefined elements, pointers, the last-comma patch after both kinds
    of previous stream content) = the canonical text of the abstract tree, for every container of the model; three variants rejected;
    (E2) every state of the model is rebuilt through the public API and the engine's text must be the model's tokens"""
    import json
    r = c.tlc("QStringifyImpl", "QStringifyImpl_current4" if c.thorough else "QStringifyImpl_current", timeout=3000, xmx="16g")
    c.expect_holds(r, "QStringifyImpl: the writers produce the canonical text of the abstract tree")
    c.stage("model", distinct_states=r.distinct)
    for cfg in ("QStringifyImpl_own-type", "QStringifyImpl_comma-first", "QStringifyImpl_always-patch"):
        r = c.tlc("QStringifyImpl", cfg, timeout=900, workers=4)
        if not r.violated:
            raise vf.MachineryError("%s: the earlier / mutated writer is not rejected" % cfg)
    r = c.tlc("QStringifyImpl", "QStringifyImpl_export3" if c.thorough else "QStringifyImpl_export2", timeout=3000, xmx="16g", workers=4)
    vecs = r.vecs("SV")
    if len(vecs) < 100:
        raise vf.MachineryError("QStringifyImpl export: only %d states exported" % len(vecs))
    tok = lambda t: '"%s"' % t if t.startswith("k") else ("1" if t == "s" else t)
    inp = os.path.join(c.out, "sreplay.txt")
    with open(inp, "w") as f:
        for v in vecs:
            f.write("%s\t%s\t%s\n" % (json.dumps(v["tree"], separators=(",", ":")), "".join(v["before"]), "".join(tok(t) for t in v["tokens"])))
    outp = os.path.join(c.out, "sreplay.ndjson")
    rc, out, err = c.run([asan, "sreplay", inp, outp], timeout=1200)
    if c.harness_ok("stringify-replay", rc, out, err):
        n = 0
        for ln in out.splitlines():
            if ln.startswith("MISMATCH"):
                c.violation("stringify replay " + ln[:300], {"kind": "replay", "line": ln, "input": inp})
            if ln.startswith("STATES"):
                n = int(ln.split()[1])
                bad = int(ln.split()[3])
                c.count(n_eval=n, validated=n - bad)
        if n != len(vecs):
            raise vf.MachineryError("stringify replay: %d of %d states replayed" % (n, len(vecs)))
        c.stage("replay", states=len(vecs))


def main():
    c = vf.Check("C08")
    (asan,) = c.build("h_json.asan")
    model_stage(c, asan)
    p, ok = J.run_family(c, asan, "stringify", ["stringify", str(c.seed), "400000" if c.thorough else "15000"])
    if ok:
        evs = vf.read_ndjson(p)
        import json
        c.count(distinct_keys=[(e["w"], json.dumps(e["tree"])) for e in evs])
        for e in evs[5:2000:450]:
            c.sample({"w": e["w"], "tree": e["tree"], "text": J.text(e)})
    c.finish(rule="random trees (depth <= 3) built through the Value API in 3 character widths; distinct = distinct (width, tree)",
             assumptions=["number formatting itself is the subject of C10/C11: reals are k/2, integers incl. the 64-bit extremes",
                          "pointer-to-value entries point to every kind incl. Undefined, and to pointers to Undefined / a string / an array"],
             exhaustive=False)


vf.main_wrap(main)
