#!/usr/bin/env python3
"""C07 - JSON parsing is all-or-nothing: truncated or trailing input is rejected.

(P) spec/QJsonGrammar.tla: recognizer of RFC 8259; the quantifier of the property is a fact TLC checks on the grammar: no
    proper prefix of a container document, no document + non-whitespace unit, and no document with a structural closing
    bracket swapped / removed is a document (QJsonImpl configs, NoProperPrefix / NoTrailing / BracketMutation).
(I) QJsonImpl AllOrNothing for every text <= 6/7 over 10 symbols.
(B) code -> spec: every text <= 5/6 over the alphabet and, for random documents, all |D| proper prefixes, 11 suffixes and
    every structural bracket swapped / dropped, parsed by the real code; TLC judges: anything accepted is a document of the
    grammar and carries no Undefined inside (strict mode).
"""
import os, sys
sys.path.insert(0, os.path.join(os.path.dirname(os.path.abspath(__file__)), "..", "lib"))
import vf, jsoncommon as J


def main():
    c = vf.Check("C07")
    (asan,) = c.build("h_json.asan")
    r = c.tlc("QJsonImpl", "QJsonImpl_7" if c.thorough else "QJsonImpl_6", timeout=3400, xmx="24g")
    c.expect_holds(r, "QJsonImpl: AllOrNothing + NoProperPrefix / NoTrailing / BracketMutation of the grammar")
    p, ok = J.run_family(c, asan, "enum", ["enum", "6" if c.thorough else "5", J.ALPHA10], mode="strict")
    if ok:
        evs = vf.read_ndjson(p)
        c.count(distinct_keys=[tuple(e["s"]) for e in evs if e["undef"] == 0 or len(e["s"]) > 2])
        os.remove(p)
    p, ok = J.run_family(c, asan, "docs", ["docs", str(c.seed + 7), "6000" if c.thorough else "600"], mode="strict")
    if ok:
        evs = vf.read_ndjson(p)
        fams = {}
        for e in evs:
            fams[e["fam"]] = fams.get(e["fam"], 0) + 1
        c.stage("families", **fams)
        c.count(distinct_keys=[(e["w"], e["fam"], tuple(e["s"])) for e in evs if e["fam"] != "doc"])
        for fam in ("cut", "suffix", "swap", "drop"):
            for e in [x for x in evs if x["fam"] == fam][:2]:
                c.sample({"fam": fam, "w": e["w"], "text": J.text(e), "undef": e["undef"]})
    c.finish(rule="every text <= %d over 10 symbols; for every 4th random document all proper prefixes, 11 one-unit suffixes, every structural "
                  "closing bracket replaced by the other kind and removed (3 widths); non-trivial = cut/suffix/swap/drop texts and accepted or "
                  "longer enumerated texts" % (6 if c.thorough else 5),
             assumptions=["leniencies outside the listed families (raw control characters inside strings, \\U, 1. / .5 / hex numerals) are not generated"],
             exhaustive=False)


vf.main_wrap(main)
