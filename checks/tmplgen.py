"""Generator of documents, template ASTs and their text (unparser) for the template checks (C01, C02, C03, C17).

The AST / document encodings are those of spec/QTemplate.tla:
  doc   {"t":"O","m":[{"k":[units],"v":doc}]} | {"t":"A","e":[doc]} | {"t":"S","s":[units],"isnum":0|1,"num":n16}
        | {"t":"N","k":"u64|i64|real","n":n16} | {"t":"T"} | {"t":"F"} | {"t":"Z"}
  path  {"loop":[units] or [], "base":[units], "steps":[[units]...]}
  node  text / var / raw / math / svar / iif / if / loop   (see QTemplate.RenderNode)
Only situations the documentation specifies are generated (DESIGN.md section 6, C02: Unspecified list).
"""
import json, random


def U(s):
    return [ord(c) for c in s]


def numdoc(n16):
    if n16 % 16 == 0 and n16 >= 0:
        return {"t": "N", "k": "u64", "n": n16}
    if n16 % 16 == 0:
        return {"t": "N", "k": "i64", "n": n16}
    return {"t": "N", "k": "real", "n": n16}


def strdoc(s):
    isnum, num = 0, 0
    try:
        f = float(s)
        if s.strip() == s and s and s[0] not in "+." and (f * 16) == int(f * 16) and not s.lower().startswith(("0x", "inf", "nan")) and abs(f) < 1e6 and "_" not in s:
            isnum, num = 1, int(f * 16)
    except ValueError:
        pass
    return {"t": "S", "s": U(s), "isnum": isnum, "num": num}


def to_json(d):
    """JSON text of a document (what the harness parses)"""
    t = d["t"]
    if t == "O":
        return "{" + ",".join(json.dumps("".join(chr(u) for u in m["k"])) + ":" + to_json(m["v"]) for m in d["m"]) + "}"
    if t == "A":
        return "[" + ",".join(to_json(x) for x in d["e"]) + "]"
    if t == "S":
        return json.dumps("".join(chr(u) for u in d["s"]))
    if t == "N":
        v = d["n"] / 16.0
        return str(int(v)) if d["k"] != "real" else repr(v)
    return {"T": "true", "F": "false", "Z": "null"}[t]


STRINGS = ["Qentem", "a<b", "x & y", "\"q\"", "it's", "&amp;", "&lt", "1 < 2 > 0", "", "plain text", "<script>alert('x')</script>", "&am", "tail&"]
KEYS = ["a", "b", "name", "k1", "list", "obj", "n", "x-y", "key with space", "<k>", "q&a"]
QUARTERS = [0, 16, 32, 48, 112, 160, 1600, -32, -16, 8, 40, 4, 12, 36, -8, 24]


class Gen:
    def __init__(self, seed, html=False, sort_loop_sets=False):
        self.r = random.Random(seed)
        self.html = html
        self.sort_loop_sets = sort_loop_sets   # C17 (purity only, no expected text): also sort sets that depend on a loop variable

    # ---------------- documents
    def scalar(self):
        r = self.r.random()
        if r < 0.35:
            return numdoc(self.r.choice(QUARTERS))
        if r < 0.75:
            return strdoc(self.r.choice(STRINGS + ["12", "2.5", "-3", "true", "12abc", "3XL", "2024-01-05", "2.5.1"]))
        return {"t": self.r.choice("TFZ")}

    def doc(self, depth):
        r = self.r.random()
        if depth <= 0 or r < 0.3:
            return self.scalar()
        if r < 0.65:
            return {"t": "A", "e": [self.doc(depth - 1) for _ in range(self.r.randint(0, 3))]}
        keys = self.r.sample(KEYS, self.r.randint(0, 4))
        return {"t": "O", "m": [{"k": U(k), "v": self.doc(depth - 1)} for k in keys]}

    def root(self):
        """root object with a few fixed members the templates can rely on"""
        m = []
        m.append({"k": U("list"), "v": {"t": "A", "e": [self.scalar() for _ in range(self.r.randint(0, 4))]}})
        m.append({"k": U("nums"), "v": {"t": "A", "e": [numdoc(self.r.choice(QUARTERS[:8])) for _ in range(self.r.randint(0, 5))]}})
        m.append({"k": U("strs"), "v": {"t": "A", "e": [strdoc(self.r.choice(["b", "a", "ab", "", "c", "a<b"])) for _ in range(self.r.randint(0, 4))]}})
        m.append({"k": U("obj"), "v": {"t": "O", "m": [{"k": U(k), "v": self.doc(1)} for k in self.r.sample(KEYS, self.r.randint(0, 4))]}})
        recs = []
        for _ in range(self.r.randint(0, 4)):      # group names include prefixes of one another and the empty name
            mem = [{"k": U("year"), "v": self.r.choice([numdoc(16 * 2019), numdoc(16 * 2020), strdoc("20<21"), {"t": "T"}, numdoc(16 * 202), strdoc("20"), strdoc("")])}, {"k": U("m"), "v": self.scalar()}]
            if self.r.random() < 0.5:
                mem.reverse()
            if self.r.random() < 0.4:
                mem.insert(self.r.randint(0, 2), {"k": U("z"), "v": self.doc(1)})
            recs.append({"t": "O", "m": mem})
        m.append({"k": U("recs"), "v": {"t": "A", "e": recs}})
        m.append({"k": U("phrase"), "v": strdoc(self.r.choice(["Hi {0}, you have {1} <b>points</b> & {0}{2}", "{1}{1}{0}", "no slots", "{9} {x} {0", "a{0}b", "&amp; {0}"]))})
        m.append({"k": U("groups"), "v": {"t": "O", "m": [{"k": U(k), "v": self.doc(1) if self.r.random() < 0.3 else {"t": "A", "e": [self.scalar() for _ in range(self.r.randint(0, 2))]}}
                                                          for k in self.r.sample(["<b>", "q&a", "a>b", "plain", "&amp;", "x&lt;"], self.r.randint(1, 4))]}})
        m.append({"k": U("deep"), "v": {"t": "A", "e": [{"t": "A", "e": [self.scalar() for _ in range(self.r.randint(0, 3))]} for _ in range(self.r.randint(0, 3))]}})
        if self.r.random() < 0.5:      # an array long enough for "index" 10 / 11 (what ':' and ';' would be as digits)
            m.append({"k": U("long"), "v": {"t": "A", "e": [numdoc(16 * (100 + i)) for i in range(12)]}})
        for k in self.r.sample(KEYS[:8], self.r.randint(1, 4)):
            if all(mm["k"] != U(k) for mm in m):
                m.append({"k": U(k), "v": self.doc(2)})
        self.r.shuffle(m)
        return {"t": "O", "m": m}

    # ---------------- paths
    def lookup(self, d, key):
        if d is None:
            return None
        if d["t"] == "O":
            for m in d["m"]:
                if m["k"] == key:
                    return m["v"]
            return None
        if d["t"] == "A":
            s = "".join(chr(u) for u in key)
            if s.isdigit() and int(s) < len(d["e"]):
                return d["e"][int(s)]
        return None

    def path(self, doc, env, want=None, plain=False):
        """random path; mostly resolvable.  env: list of (name, item doc)"""
        steps, base, loop = [], [], []
        if env and self.r.random() < 0.6:
            name, cur = self.r.choice(env)
            loop = U(name)
            text = name
        else:
            cand = [m["k"] for m in doc["m"]] if doc["t"] == "O" else [U(str(i)) for i in range(len(doc["e"]))]
            if plain:
                cand = [k for k in cand if 60 not in k and 62 not in k]
            if not cand or self.r.random() < 0.1:
                base = U(self.r.choice(["missing", "nope"]))
                cur = None
            else:
                base = self.r.choice(cand)
                cur = self.lookup(doc, base)
            text = "".join(chr(u) for u in base)
        for _ in range(self.r.choice([0, 0, 1, 1, 2])):
            if cur is not None and cur["t"] == "O" and cur["m"] and self.r.random() < 0.85:
                k = self.r.choice(cur["m"])["k"]
                if plain and (60 in k or 62 in k):
                    k = U("zz")
            elif cur is not None and cur["t"] == "A" and cur["e"] and self.r.random() < 0.85:
                k = U(str(self.r.randrange(len(cur["e"]))))
            else:
                k = U(self.r.choice(["zz", "7", "a", ":", "1/", ";"]))      # (":" is '0' + 10: only decimal digits name an element)
            steps.append(k)
            cur = self.lookup(cur, k)
            text += "[" + "".join(chr(u) for u in k) + "]"
        return {"loop": loop, "base": base, "steps": steps}, text, cur

    # ---------------- expressions (tokens as in QExpr, variables as paths)
    def expr(self, doc, env, depth=1):
        n_ops = self.r.choice([0, 1, 1, 2, 2, 3])
        toks, text = [], ""
        for i in range(n_ops + 1):
            r = self.r.random()
            if depth > 0 and r < 0.15:
                k, t = self.expr(doc, env, depth - 1)
                toks.append({"t": "sub", "e": k})
                text += "(" + t + ")"
            elif r < 0.55:
                p, t, cur = self.path(doc, env)
                toks.append({"t": "var", "p": p})
                text += "{var:" + t + "}"
            else:
                lit = self.r.choice([("0", 0), ("1", 16), ("2", 32), ("3", 48), ("0.5", 8), ("2.5", 40), ("10", 160), ("2019", 16 * 2019)])
                toks.append({"t": "lit", "n": lit[1]})
                text += lit[0]
            if i < n_ops:
                op = self.r.choice(["+", "-", "*", "/", "%", "==", "!=", "<", ">", "<=", ">=", "&&", "||", "^", "&", "|"])
                toks.append(op)
                text += self.r.choice(["", " "]) + op + self.r.choice(["", " "])
        return toks, text

    # ---------------- nodes
    def text_node(self, attr=False, other_quote=""):
        if not attr and self.r.random() < 0.06:     # literal HTML whose element name starts like a tag of the engine
            s = self.r.choice(['<iframe src="x">', "</iframe>", "<ifoo>", "<i>", "<input>", "<img>"])
            return {"t": "text", "s": U(s)}, s
        pool = "abc xyz 0123 .,;:!?-_=+*/\n\t" if not attr else "abc xyz 012 .,;:!-_"
        if not attr:
            pool += "&>'\")]"
        elif other_quote:
            pool += other_quote * 3        # inside an attribute value the OTHER quote character is ordinary text (true="it's")
        s = "".join(self.r.choice(pool) for _ in range(self.r.randint(1, 8)))
        return {"t": "text", "s": U(s)}, s

    def var_node(self, doc, env, kinds=("var", "raw")):
        kind = self.r.choice(kinds)
        p, t, cur = self.path(doc, env)
        src = "{%s:%s}" % (kind, t)
        return {"t": kind, "p": p, "src": U(src)}, src

    def math_node(self, doc, env):
        k, t = self.expr(doc, env)
        src = "{math:" + t + "}"
        return {"t": "math", "e": k, "src": U(src)}, src

    def inline(self, doc, env, attr=False, other_quote=""):
        r = self.r.random()
        if r < 0.4:
            return self.text_node(attr, other_quote)
        if r < 0.8:
            return self.var_node(doc, env)
        return self.math_node(doc, env)

    def node(self, doc, env, depth):
        r = self.r.random()
        if r < 0.22:
            return self.text_node()
        if r < 0.45:
            return self.var_node(doc, env)
        if r < 0.53:
            return self.math_node(doc, env)
        if r < 0.60:    # super variable
            # the phrase is addressed from the root: whether it may be a loop variable is not documented (the engine does not resolve one there)
            p, t, cur = self.path(doc, [], plain=False) if self.r.random() < 0.3 else ({"loop": [], "base": U("phrase"), "steps": []}, "phrase", None)
            if cur is not None and cur["t"] != "S":      # a phrase that is not a string (true / number / container): not documented either
                p, t, cur = {"loop": [], "base": U("phrase"), "steps": []}, "phrase", None
            subs, parts = [], []
            for _ in range(self.r.randint(1, 3)):          # the documented form has at least one sub-variable
                n, s = self.var_node(doc, env) if self.r.random() < 0.7 else self.math_node(doc, env)
                subs.append(n)
                parts.append(s)
            src = "{svar:" + t + "".join(", " + s for s in parts) + "}"
            return {"t": "svar", "p": p, "subs": subs, "src": U(src)}, src
        if r < 0.70:    # inline if
            k, t = self.expr(doc, env)
            q = self.r.choice("\"'")
            oq = "'" if q == '"' else '"'
            T, F, ts, fs = [], [], "", ""
            for _ in range(self.r.randint(0, 2)):
                n, s = self.inline(doc, env, attr=True, other_quote=oq)
                T.append(n)
                ts += s
            for _ in range(self.r.randint(0, 2)):
                n, s = self.inline(doc, env, attr=True, other_quote=oq)
                F.append(n)
                fs += s
            # an attribute that is present must not be empty and both orders are documented
            parts = []
            if T:
                parts.append("true=%s%s%s" % (q, ts, q))
            if F:
                parts.append("false=%s%s%s" % (q, fs, q))
            if not parts:
                T, ts = [{"t": "text", "s": U("y")}], "y"
                parts.append("true=%s%s%s" % (q, ts, q))
            if self.r.random() < 0.3:
                parts.reverse()
            src = "{if case=%s%s%s %s}" % (q, t, q, " ".join(parts))
            return {"t": "iif", "c": k, "T": T, "F": F}, src
        if depth <= 0:
            return self.text_node()
        if r < 0.85:    # if / else if / else
            cases, src = [], ""
            ncase = self.r.randint(1, 3)
            for i in range(ncase):
                k, t = self.expr(doc, env)
                body, bs = self.seq(doc, env, depth - 1)
                q = self.r.choice("\"'")
                if i == 0:
                    src += "<if case=%s%s%s>" % (q, t, q)
                else:
                    src += self.r.choice(["<else if case=%s%s%s>", "<elseif case=%s%s%s />", "<else if case=%s%s%s />"]) % (q, t, q)
                src += bs
                cases.append({"else": 0, "c": k, "body": body})
            if self.r.random() < 0.5:
                body, bs = self.seq(doc, env, depth - 1)
                src += self.r.choice(["<else>", "<else />"]) + bs
                cases.append({"else": 1, "c": [], "body": body})
            src += "</if>"
            return {"t": "if", "cases": cases}, src
        # loop
        # loop variable names of different lengths (the engine matches them by length-limited comparison while walking outwards);
        # no name is a prefix of another one or of a document key
        lvl = len(env) + 1
        name = self.r.choice([["lv1", "row1", "i1"], ["lv2", "item2", "cell_value2"], ["lv3", "x3", "element3"]][lvl - 1]) if lvl <= 3 else "w%d" % lvl
        hasset, setp, settext, cur = 0, {"loop": [], "base": [], "steps": []}, "", doc
        if self.r.random() < 0.12:
            hasset, setp, settext, cur = 1, {"loop": [], "base": U("groups"), "steps": []}, "groups", self.lookup(doc, U("groups"))
        elif self.r.random() < 0.9:
            for _ in range(6):
                setp, settext, cur = self.path(doc, env, plain=True)
                if cur is not None and cur["t"] in ("A", "O"):
                    break
            hasset = 1
            if cur is None or cur["t"] not in ("A", "O"):
                if self.r.random() < 0.7:      # fall back to a set that certainly exists
                    setp, settext, cur = {"loop": [], "base": U("recs"), "steps": []}, "recs", self.lookup(doc, U("recs"))
                else:
                    cur = None                  # unresolved set: renders nothing (a scalar set is not generated)
                    setp, settext = {"loop": [], "base": U("missing"), "steps": []}, "missing"
        if not hasset and getattr(self, "_loop_depth", 0) > 0:      # a loop over the root only at the outermost level (members^depth renders otherwise)
            hasset, setp, settext, cur = 1, {"loop": [], "base": U("recs"), "steps": []}, "recs", self.lookup(doc, U("recs"))
        group, sort = [], 0
        if cur is not None and cur["t"] == "A" and cur["e"] and all(x["t"] == "O" and any(m["k"] == U("year") for m in x["m"]) for x in cur["e"]) and self.r.random() < 0.7:
            group = U("year")
        elif cur is not None and self.r.random() < 0.35 and (self.sort_loop_sets or not setp["loop"]):      # (a set below a loop variable differs per iteration: its kinds are not known here)
            # numbers (of any mix of kinds: they compare by value) or strings; a set of mixed non-number kinds is ordered by kind first,
            # which the documentation does not describe
            homog = cur["t"] == "O" or (cur["e"] and (all(x["t"] == "N" for x in cur["e"]) or all(x["t"] == "S" for x in cur["e"])))
            if homog or self.sort_loop_sets:
                sort = self.r.choice([1, 2])
        if group and self.r.random() < 0.5:
            sort = self.r.choice([1, 2])
        use_value = self.r.random() < 0.9
        q = self.r.choice("\"'")
        attrs = []
        if hasset:
            attrs.append("set=%s%s%s" % (q, settext, q))
        if use_value:
            attrs.append("value=%s%s%s" % (q, name, q))
        if group:
            attrs.append("group=%syear%s" % (q, q))
        if sort:
            attrs.append("sort=%s%s%s" % (q, "ascend" if sort == 1 else "descend", q))
        if self.r.random() < 0.3:
            self.r.shuffle(attrs)
        # item documents for the body generator (approximation; the oracle recomputes everything)
        item = None
        if cur is not None:
            if group:
                item = {"t": "A", "e": [x for x in cur["e"]]}
            elif cur["t"] == "A" and cur["e"]:
                item = cur["e"][0]
            elif cur["t"] == "O" and cur["m"]:
                item = cur["m"][0]["v"]
        env2 = env + ([(name, item)] if (use_value and item is not None) else [])
        self._loop_depth = getattr(self, "_loop_depth", 0) + 1
        body, bs = self.seq(doc, env2, depth - 1)
        self._loop_depth -= 1
        src = "<loop " + " ".join(attrs) + ">" + bs + "</loop>"
        return {"t": "loop", "hasset": hasset, "set": setp, "value": U(name) if use_value else U("\x01none"), "group": group, "sort": sort, "body": body}, src

    def seq(self, doc, env, depth):
        nodes, text = [], ""
        for _ in range(self.r.randint(1, 4)):
            n, s = self.node(doc, env, depth)
            if nodes and nodes[-1]["t"] == "text" and n["t"] == "text":
                nodes[-1]["s"] += n["s"]
            else:
                nodes.append(n)
            text += s
        return nodes, text

    def template(self, depth=3):
        doc = self.root()
        nodes, text = self.seq(doc, [], depth)
        return doc, nodes, text
