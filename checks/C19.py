#!/usr/bin/env python3
"""C19 - BigInt holds the exact mathematical integer after every operation that fits.

(P) spec/QBigInt.tla: the value as a mathematical integer, every operation, results that do not fit are disabled.
(I) spec/QBigIntImpl.tla: transcription of BigInt.hpp with the word width as a constant (limbs, index, carry/borrow loops,
    multi-word shifts, bit scans, wide-operand overloads, every limb access recorded) run in lock step with the mathematical
    value: Exact, IndexNormalised, ReturnsExact, LimbAccessInBounds for every reachable state / operand at 3-bit x 3 and
    4-bit x 2 words.  spec/QDivImpl.tla: the half-word double-word divide / multiply helper for every operand triple at 4-
    and 6-bit words (8-bit in the thorough tier).
(B) spec -> code: every edge of the QBigInt graph (24 bits, 8-bit words, boundary operands, depth 4/5) replayed into the real
    BigInt<SizeT8,24> under ASan/UBSan; code -> spec: random histories for 8/16/32/64-bit words and widths 24..2048 with
    boundary-biased operands, values logged as bytes, each step verified relationally by TLC (q*d+r=v, r<d, shifts, bit scans,
    Index(), IsZero()); the multiply/divide helpers (8-bit boundary grid; 16/32/64-bit and the half-word algorithm at 32 bit).
"""
import os, sys
sys.path.insert(0, os.path.join(os.path.dirname(os.path.abspath(__file__)), "..", "lib"))
import vf, walk


def write_graph(dot, path):
    nodes, edges, inits = vf.parse_dot(dot)
    with open(path, "w") as f:
        for i in inits:
            f.write("I %s\n" % i)
        for n, st in nodes.items():
            f.write("N %s %d;%d\n" % (n, st["v"], st["ret"]))
        for s, lab, d in edges:
            f.write("E %s %s %s\n" % (s, lab.replace(" ", ""), d))
    return len(nodes), len(edges)


def sig(e):
    def n(bs):
        v = 0
        for i, b in enumerate(bs):
            v |= b << (8 * i)
        return hex(v)
    return "bigint op=%s word=%d bits=%d before=%s arg=%s k=%s after=%s ret=%s idx=%s" % (e["op"], e["wb"], e["bits"], n(e["b"]), n(e["a"]), e["k"], n(e["r"]), n(e["ret"]), e["idx"])


def main():
    c = vf.Check("C19")
    (asan,) = c.build("h_bigint.asan")
    for cfg in ["QBigIntImpl_w3", "QBigIntImpl_w4"]:
        r = c.tlc("QBigIntImpl", cfg, timeout=1800)
        c.expect_holds(r, cfg + ": limb machine exact, index normalised, returns exact, limb accesses in bounds")
    for w in ([4, 6, 8] if c.thorough else [4, 6]):
        r = c.tlc("QDivImpl", "QDivImpl_%d" % w, timeout=3000, xmx="16g")
        c.expect_holds(r, "QDivImpl word=%d: half-word divide/multiply exact" % w)

    cfg = "QBigInt_d5" if c.thorough else "QBigInt_d4"
    dot = os.path.join(c.out, "bigint.dot")
    r = c.tlc("QBigInt", cfg, dump=dot, timeout=1800)
    c.expect_holds(r, cfg)
    g = os.path.join(c.out, "bigint.graph")
    n, e = write_graph(dot, g)
    os.remove(dot)
    c.log("graph: %d nodes %d edges" % (n, e))
    walk.run_walker(c, lambda skip: [asan, "walk", g, skip], "bigint-walk", timeout=3000)
    c.count(distinct_keys=[("edge", i) for i in range(e)])

    nh, ns = (120, 60) if c.thorough else (25, 40)
    p = os.path.join(c.out, "bigint.ndjson")
    rc, out, err = c.run([asan, "record", str(c.seed), str(nh), str(ns), p], timeout=1500)
    if c.harness_ok("bigint-record", rc, out, err):
        c.oracle("OracleBigInt", p, "OracleBigInt_histories", sig, timeout=3400, xmx="24g", xss="256m")
        evs = vf.read_ndjson(p)
        c.count(distinct_keys=[(e["op"], e["wb"], e["bits"], tuple(e["b"]), tuple(e["a"]), e["k"]) for e in evs])
        for e in evs[11:9000:1900]:
            c.sample(e)
    p = os.path.join(c.out, "helper.ndjson")
    rc, out, err = c.run([asan, "helper", str(c.seed), "40000" if c.thorough else "4000", p], timeout=1500)
    if c.harness_ok("bigint-helper", rc, out, err):
        c.oracle("OracleBigInt", p, "OracleBigInt_helpers", sig, timeout=3400, xmx="24g", xss="256m")
    c.finish(rule="spec->code: every (state, action) edge of the QBigInt graph (24-bit value, operands {0,1,2,127,128,255} + wide "
                  "{256,384,65535}, shifts {0,1,7,8,9,16,17,24}, depth %d) on BigInt<SizeT8,24>; code->spec: random histories on 9 "
                  "instantiations (8/16/32/64-bit words, 24..2048 bits) with boundary operands, each event verified relationally by TLC "
                  "on byte-level naturals; helper grids; distinct = graph edges + distinct (op, type, before, arg) events" % (5 if c.thorough else 4),
             assumptions=["operations whose exact result does not fit the width are outside the property: the recorder avoids most, the oracle re-checks the premise",
                          "storage bounds in the real code are sensed by ASan/UBSan; in the transcription they are decided by TLC (LimbAccessInBounds)"],
             exhaustive=False)


vf.main_wrap(main)
