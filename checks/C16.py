#!/usr/bin/env python3
"""C16 - every allocation is released exactly once; nothing is used after release.

(P) spec/QMem.tla: the allocation ledger (set of live block instances; +b / -b / 0 events; Apply is the transition function).
    ExactlyOnce (a block is released only while live) and NetZero (when the owners are gone nothing allocated in the scope is
    live).  TLC checks the disciplined client and rejects the double-release and the leaking client (variants of the spec).
(B) code -> spec (E5): the harnesses of C01 / C05 / C12 / C13 / C14 record, through the library's own accounting seam
    (Memory::Allocate / Deallocate -> MemoryRecord), the exact order of allocations and releases per scope:
      - every malformed / truncated / mutated / deep template of C01 rendered in 4 widths (one scope per case)
      - tag-cache lifetimes: parse, copy, move, copy- / move- / self-assignment over an older cache, clear and reuse with another
        template, append, drop, reset (one scope per case)
      - every JSON text up to length 5 (6) over the C05 alphabet and the C05 random documents / rejected mutations, 3 widths
      - random operation histories of Value (C12), HArray / HList (C13), Array / String / StringStream (C14) (one scope per run,
        cut into segments)
    and TLC (OracleMem) folds QMem.Apply over every recorded scope: no release of a non-live block, and exactly the blocks
    that were live before the scope are live after it.  The same runs are ASan runs: a use after release, a double free or a
    release of foreign memory aborts the case and is reported.
"""
import os, sys, json
sys.path.insert(0, os.path.join(os.path.dirname(os.path.abspath(__file__)), "..", "lib"))
sys.path.insert(0, os.path.dirname(os.path.abspath(__file__)))
import vf, walk
import jsoncommon as J
import C01


def why(e):
    live = set(e["base"])
    for x in e["ev"]:
        if x > 0:
            if x in live:
                return "instance id reused"
            live.add(x)
        elif x < 0:
            if -x not in live:
                return "release of a block that is not live (double release)"
            live.discard(-x)
        else:
            return "release of an address that is not live"
    if e["z"] and live != set(e["base0"]):
        return "%d block(s) still live when their owners are gone, %d released that were live before the scope" % (len(live - set(e["base0"])), len(set(e["base0"]) - live))
    return "?"


def main():
    c = vf.Check("C16")
    tmpl, tplain, js, val, seq, hsh = c.build("h_template.asan", "h_template.plain", "h_json.asan", "h_value.asan", "h_seq.xasan", "h_hash.asan")
    r = c.tlc("QMem", "QMem_disciplined", timeout=300, workers=4)
    c.expect_holds(r, "QMem: ExactlyOnce NetZero")
    for cfg, inv in (("QMem_double-release", "ExactlyOnce"), ("QMem_leak", "NetZero")):
        r = c.tlc("QMem", cfg, timeout=300, workers=4)
        if not r.violated:
            raise vf.MachineryError("%s: the undisciplined client is not rejected (expected %s)" % (cfg, inv))
    ledgers = []   # (label, path, describe(case id) -> text)

    def led(label):
        p = os.path.join(c.out, "ledger_%s.ndjson" % label)
        if os.path.exists(p):
            os.remove(p)
        return p
    # (a) templates of C01: render + cache lifetimes
    cases = C01.gen_cases(c)
    cases = cases[::6] if c.thorough else cases[::4]     # (thorough generates ~170k texts; the ledger of every sixth is ~200 MB per run)
    inp = os.path.join(c.out, "templates.txt")
    C01.write_cases(inp, cases)
    # (the optimised build without ASan lets a double release reach the ledger instead of aborting at the first stale read)
    for mode, binary, tag in (("render", tmpl, "render"), ("cache", tmpl, "cache"), ("render", tplain, "render-plain"), ("cache", tplain, "cache-plain")):
        os.environ["VERIF_LEDGER"] = led("template_" + tag)
        out = os.path.join(c.out, tag + ".ndjson")
        crashes = walk.run_cases(c, binary, mode, inp, out, "template-%s-memory" % tag, max_restarts=40)
        if mode == "cache" and os.path.exists(out):
            for e in vf.read_ndjson(out):
                if e["same"] != 1:
                    c.violation("template-cache-memory a copied / moved / assigned / reused tag cache renders differently template=%r" % "".join(chr(u) for u in e["t"])[:200],
                                {"kind": "cache-differs", "event": e})
        c.stage("template-" + tag, cases=len(cases), crashes=crashes)
        ledgers.append(("template-" + tag, os.environ["VERIF_LEDGER"], lambda k, cases=cases: "template=%r" % cases[k][0][:160] if k < len(cases) else "?"))
        if os.path.exists(out):
            os.remove(out)
    os.remove(inp)
    # (b) JSON texts
    os.environ["VERIF_LEDGER"] = led("json_enum")
    p, ok = J.run_family(c, js, "mem_enum", ["enum", "6" if c.thorough else "5", J.ALPHA10], oracle=False)
    ledgers.append(("json-enum", os.environ["VERIF_LEDGER"], lambda k: "text #%d of the length-ordered enumeration over %s" % (k, J.ALPHA10)))
    if os.path.exists(p):
        os.remove(p)
    os.environ["VERIF_LEDGER"] = led("json_docs")
    p, ok = J.run_family(c, js, "mem_docs", ["docs", str(c.seed), "4000" if c.thorough else "600"], oracle=False)
    ledgers.append(("json-docs", os.environ["VERIF_LEDGER"], lambda k: "document family #%d (seed %d)" % (k, c.seed)))
    if os.path.exists(p):
        os.remove(p)
    os.environ["VERIF_LEDGER"] = led("json_stringify")
    p, ok = J.run_family(c, js, "mem_stringify", ["stringify", str(c.seed), "3000" if c.thorough else "500"], oracle=False)
    ledgers.append(("json-stringify", os.environ["VERIF_LEDGER"], lambda k: "stringify case #%d (seed %d)" % (k, c.seed)))
    if os.path.exists(p):
        os.remove(p)
    # (c) operation histories
    nh, ns = (400, 60) if c.thorough else (80, 40)
    for label, binary in (("value", val), ("seq", seq), ("hash", hsh)):
        os.environ["VERIF_LEDGER"] = led(label)
        tr = os.path.join(c.out, "hist_%s.ndjson" % label)
        rc, out, err = c.run([binary, "record", str(c.seed), str(nh), str(ns), tr], timeout=2400)
        c.harness_ok("%s-histories-memory" % label, rc, out, err, {"argv": [binary, "record", c.seed, nh, ns]})
        ledgers.append((label + "-histories", os.environ["VERIF_LEDGER"], lambda k, label=label: "%s histories, seed %d (%d x %d operations)" % (label, c.seed, nh, ns)))
        if os.path.exists(tr):
            os.remove(tr)
    os.environ.pop("VERIF_LEDGER", None)
    # the oracle
    total_ev = 0
    for label, path, describe in ledgers:
        if not os.path.exists(path) or os.path.getsize(path) == 0:
            raise vf.MachineryError("no ledger recorded for " + label)
        nscopes = nev = dropped = 0
        good = []
        with open(path) as f:
            for ln in f:
                try:                      # a case that crashed may leave an incomplete line
                    json.loads(ln)
                except ValueError:
                    dropped += 1
                    continue
                good.append(ln)
                nscopes += 1
                nev += ln.count(",")
        if dropped:
            c.log("ledger %s: %d incomplete line(s) dropped (crashed cases)" % (label, dropped))
            with open(path, "w") as f:
                f.writelines(good)
        total_ev += nev

        def sig(e, label=label, describe=describe):
            return "memory %s: %s | %s" % (label, why(e), describe(e["c"]))
        c.oracle("OracleMem", path, "OracleMem_" + label, sig, timeout=3400, xmx="24g", xss="512m")
        c.stage("ledger-" + label, scopes=nscopes, events=nev)
        c.count(distinct_keys=[(label, i) for i in range(nscopes)])
        os.remove(path)
    c.sample({"scope": "one malformed template rendered in 4 widths", "rule": "fold of QMem.Apply over +id/-id events ends with the live set it started with"})
    c.finish(rule="allocation / release order of every scope recorded through Memory::Allocate / Deallocate: C01's template texts (render in 4 widths; tag-cache "
                  "copy / move / assign / clear / reuse / append / drop), JSON texts up to length %s + random documents and their rejected mutations + stringify "
                  "cases, random histories of Value / HArray / HList / Array / String / StringStream; %d ledger events; distinct = scopes" % ("6" if c.thorough else "5", total_ev),
             assumptions=["use after release is not visible in the ledger: it is sensed by ASan in the same runs (and in every other check's ASan runs)",
                          "blocks obtained outside Memory::Allocate (none in the library) would not be seen",
                          "a case that ASan aborts loses its scope (the abort itself is reported)"],
             exhaustive=False)


if __name__ == "__main__":
    vf.main_wrap(main)
