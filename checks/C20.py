#!/usr/bin/env python3
"""C20 - code points encode to standard UTF-8/16/32 and \\u escapes decode to them.

(P) spec/QUnicode.tla: UTF8/UTF16/UTF32, escape forms, well-formedness + round trip of the specification itself
(I) spec/QUnicodeImpl.tla + QUnicodeImplDefs.tla: Unicode::ToUTF (8/16/32-bit units) and the surrogate-pair combination of
    JSONUtils::UnEscape with the code's bit operations; TLC: = (P) at every length boundary, in every plane and on a stride; five
    seeded / plausible variants rejected; the oracle reports drift of the transcription on every recorded code point.
(B) code -> spec (E5): Unicode::ToUTF<char|char16_t|char32_t> and JSON::Parse of ["\\uXXXX"] (upper hex, lower hex,
    inside a longer string; surrogate pairs above U+FFFF; exact-size buffers under ASan) are recorded for every scalar
    value (thorough) / a boundary-dense subset (quick) and each event is evaluated by TLC against QUnicode.
"""
import os, sys
sys.path.insert(0, os.path.join(os.path.dirname(os.path.abspath(__file__)), "..", "lib"))
import vf

EDGES = [0x7F, 0x80, 0x7FF, 0x800, 0xFFF, 0x1000, 0xD7FF, 0xE000, 0xFFFD, 0xFFFE, 0xFFFF, 0x10000, 0x10001, 0x103FF, 0x10400, 0x1FFFF,
         0x20000, 0x3FFFF, 0x40000, 0x4FBFF, 0x4FC00, 0x4FFFF, 0x50000, 0x50001, 0x8FFFF, 0x90000, 0xEFFFF, 0xF0000, 0xFFFFF,
         0x100000, 0x10FC00, 0x10FFFE, 0x10FFFF]


def main():
    c = vf.Check("C20")
    (asan,) = c.build("h_unicode.asan")
    # (I) the encoders and the surrogate combination transcribed with the code's bit operations, against (P); seeded / plausible variants rejected
    r = c.tlc("QUnicodeImpl", "QUnicodeImpl_current", timeout=600, workers=4)
    c.expect_holds(r, "QUnicodeImpl: ToUTF (8/16/32) and the surrogate combination agree with QUnicode at every boundary and plane")
    for v in ("plane16-guard", "surrogate-guard", "pair-or", "lead-mask", "bmp-inclusive"):
        r = c.tlc("QUnicodeImpl", "QUnicodeImpl_" + v, timeout=600, workers=2)
        if not r.violated:
            raise vf.MachineryError("QUnicodeImpl_%s: the seeded / mutated encoder is not rejected" % v)
    chunks = []
    drift_total = 0
    if c.thorough:
        step = 139008  # 1,114,112 / 8 rounded: eight contiguous chunks cover every scalar value
        lo = 0
        while lo <= 0x10FFFF:
            hi = min(lo + step - 1, 0x10FFFF)
            chunks.append((lo, hi, 1, None))
            lo = hi + 1
    else:
        extra = os.path.join(c.out, "extra.txt")
        pts = set()
        for e in EDGES:
            for d in range(-2, 3):
                if 0 <= e + d <= 0x10FFFF:
                    pts.add(e + d)
        pts |= set(range(0x1000, 0x110000, 257 + (c.seed % 7)))
        open(extra, "w").write("\n".join(str(p) for p in sorted(pts)) + "\n")
        chunks.append((0, 0xFFF, 1, extra))
    total = bad_total = 0
    for i, (lo, hi, st, extra) in enumerate(chunks):
        p = os.path.join(c.out, "uni_%d.ndjson" % i)
        argv = [asan, "run", str(lo), str(hi), str(st), p] + ([extra] if extra else [])
        rc, out, err = c.run(argv, timeout=3000)
        if not out.strip().endswith("DONE"):
            c.violation("unicode harness crash " + out[-80:].replace("\n", " "), {"kind": "crash", "argv": argv, "stderr": err[-3000:]})
            continue
        r = c.tlc("OracleUnicode", env={"TRACE": p}, name="OracleUnicode_%d" % i, timeout=3000, xmx="24g")
        bad = sorted(set(t[1] for t in r.tuples("MISMATCH")))
        drift = sorted(set(t[1] for t in r.tuples("DRIFT")))
        if drift and not bad:      # the engine is right by (P) but differs from the transcription: the transcription is out of date
            c.drift.append({"oracle": "OracleUnicode", "lines": drift[:5]})
        drift_total += len(drift)
        n = r.distinct
        total += n
        if bad:
            evs = vf.read_ndjson(p)
            for l in bad[:300]:
                e = evs[l - 1]
                what = []
                for k in ("d8", "d16", "d32"):
                    what.append(k)
                wrong = [i for i, x in enumerate(e["j"]) if x != []]
                c.violation("unicode U+%04X json-decodings-differ=%s" % (e["c"], wrong), {"kind": "oracle", "event": e})
            bad_total += len(bad)
        c.count(n_eval=n, validated=n - len(bad), distinct_keys=None)
        if i == 0:
            evs = vf.read_ndjson(p) if not bad else evs
            for e in evs[200:4000:900]:
                c.sample(e)
        os.remove(p)
    c._distinct = set(range(total))   # every event is a different code point
    c.stage("transcription", drift_lines=drift_total)
    r = c.tlc("QUnicodeSelf", "QUnicode_self", timeout=600)
    c.expect_holds(r, "QUnicode round trip / well-formedness")
    c.finish(rule="one event per Unicode scalar value (thorough: all 1,112,064; quick: all below U+1000, +-2 around %d plane/length edges, "
                  "every ~257th otherwise): 3 direct encodings + 9 JSON escape decodings (upper/lower hex, inside a longer string, 3 widths), "
                  "each evaluated by TLC against QUnicode; distinct = distinct code points" % len(EDGES),
             assumptions=["JSON decodings identical to the direct encoding are logged as 0 (harness-side compression); the direct encoding itself is always checked by TLC"],
             exhaustive=c.thorough)


vf.main_wrap(main)
