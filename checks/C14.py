#!/usr/bin/env python3
"""C14 - Array, String, StringStream and StringView behave as plain sequences.

(P) spec/QSeq.tla: two objects of one container kind as plain sequences, all operations; TLC exhaustive (items {1,2,3},
    length <= 3/4) incl. the action properties "appends keep the prefix" and "a step changes only its operands".
(I) spec/QCopyImpl.tla: block loop + scalar tail of Memory::Copy / SetToZero (block sizes 0, 4, 8 as stand-ins) - exact
    result, no stray write, reads in bounds, termination (liveness under weak fairness).
(B) spec -> code: every (state, action) edge of the four QSeq graphs replayed into Array<int>, Array<String>,
    String<char|char16_t|char32_t>, StringStream<char|char16_t|char32_t>, StringView<char|char32_t> under ASan/UBSan
    in the SSE2, scalar and AVX2 builds (NUL terminator, Length<=Capacity, First/Last/End, ==/!= checked after every edge);
    code -> spec: random histories validated line by line by TraceQSeq; Memory::Copy/SetToZero grid (all lengths x
    misalignments, exact-size heap blocks) judged by TLC (OracleCopy).
"""
import os, sys
sys.path.insert(0, os.path.join(os.path.dirname(os.path.abspath(__file__)), "..", "lib"))
import vf, walk


def proj(st):
    return "|".join(",".join(str(x) for x in o) for o in st["obj"])


def write_graph(dot, path):
    nodes, edges, inits = vf.parse_dot(dot)
    with open(path, "w") as f:
        for i in inits:
            f.write("I %s\n" % i)
        for n, st in nodes.items():
            f.write("N %s %s\n" % (n, proj(st)))
        for s, lab, d in edges:
            f.write("E %s %s %s\n" % (s, lab.replace(" ", ""), d))
    return len(nodes), len(edges)


TYPES = {"array": ["Array<int>", "Array<String>"],
         "string": ["String<char>", "String<char16_t>", "String<char32_t>"],
         "stream": ["StringStream<char>", "StringStream<char16_t>", "StringStream<char32_t>"],
         "view": ["StringView<char>", "StringView<char32_t>"]}


def main():
    c = vf.Check("C14")
    bins = c.build("h_seq.asan", "h_seq.asan_scalar", "h_seq.asan_avx2", "h_seq.xasan")
    asan, asan_scalar, asan_avx2, xasan = bins
    bins = bins[:3]

    for b in (0, 4, 8):
        r = c.tlc("QCopyImpl", "QCopyImpl_%d" % b, workers=4)
        c.expect_holds(r, "QCopyImpl block=%d: exact copy, no stray write, reads in bounds, terminates" % b)

    nedges = 0
    for kind in ("array", "string", "stream", "view"):
        cfg = "QSeq_" + kind
        dot = os.path.join(c.out, kind + ".dot")
        r = c.tlc("QSeq", cfg, dump=dot, timeout=1800)
        c.expect_holds(r, cfg)
        g = os.path.join(c.out, kind + ".graph")
        n, e = write_graph(dot, g)
        os.remove(dot)
        nedges += e
        c.log("graph %s: %d nodes %d edges" % (kind, n, e))
        for ti, t in enumerate(TYPES[kind]):
            builds = [xasan] if kind in ("array", "stream") else [asan]   # xasan: exact-fit growth hook H1
            if c.thorough:
                builds = [asan, asan_scalar, asan_avx2, xasan]
            elif ti == 0:
                builds = builds + [asan_scalar if kind != "stream" else asan_avx2]
            for b in builds:
                walk.run_walker(c, lambda skip, b=b, t=t: [b, "walk", g, kind, "3", t, skip],
                                "seq-walk %s %s" % (t, os.path.basename(b).split(".")[1]))
    if c.thorough:
        for kind in ("string4", "stream4"):
            dot = os.path.join(c.out, kind + ".dot")
            r = c.tlc("QSeq", "QSeq_" + kind, dump=dot, timeout=1800)
            c.expect_holds(r, "QSeq_" + kind)
            g = os.path.join(c.out, kind + ".graph")
            n, e = write_graph(dot, g)
            os.remove(dot)
            nedges += e
            t = TYPES[kind[:-1]][0]
            walk.run_walker(c, lambda skip: [asan, "walk", g, kind[:-1], "4", t, skip], "seq-walk4 %s" % t, timeout=3000)
        r = c.tlc("QSeq", "QSeq_array4", timeout=1800)
        c.expect_holds(r, "QSeq_array4")
    c.count(distinct_keys=[("edge", i) for i in range(nedges)])

    # ---- code -> spec: random histories
    nh, ns = (300, 200) if c.thorough else (40, 120)
    trace = os.path.join(c.out, "seq.ndjson")
    rc, out, err = c.run([xasan, "record", str(c.seed), str(nh), str(ns), trace], timeout=1500)
    if c.harness_ok("seq-record", rc, out, err, {"argv": [xasan, "record", c.seed, nh, ns]}):
        for ln in out.splitlines():
            if ln.startswith("LEDGER"):
                kv = dict(x.split("=") for x in ln.split()[1:])
                if int(kv["live"]) != 0 or int(kv["badfree"]) != 0:
                    c.violation("seq-record ledger " + ln, {"kind": "ledger", "line": ln})
    if os.path.exists(trace):
        evs = vf.read_ndjson(trace)
        r = c.tlc("TraceQSeq", env={"TRACE": trace}, workers=1, timeout=1500, xss="512m")
        if not r.ok():
            l = (r.last_state or {}).get("l", 0)
            kind = "?"
            for e in reversed(evs[:l]):
                if e["op"] == "Reset":
                    kind = e["kind"]
                    break
            c.violation("seq-trace rejected kind=%s op=%s" % (kind, evs[l - 1]["op"] if 0 < l <= len(evs) else "?"),
                        {"kind": "trace", "line": l, "events_up_to_rejection": evs[max(0, l - 6):l], "violated": r.violated,
                         "spec_state_before": (r.last_state or {}).get("obj")})
        else:
            c.count(n_eval=len(evs), validated=sum(1 for e in evs if e["op"] == "Reset"),
                    distinct_keys=[(e["op"], tuple(e.get("a", [])), str(e["p"])) for e in evs])
        for e in evs[5:4000:900]:
            c.sample(e)

    # ---- Memory::Copy / SetToZero grid through TLC
    maxn, al = (96, 32) if c.thorough else (70, 8)
    for b in (bins if c.thorough else [asan, asan_scalar, asan_avx2]):
        p = os.path.join(c.out, "copy.ndjson")
        rc, out, err = c.run([b, "copy", str(maxn), str(al), p], timeout=1500)
        if c.harness_ok("copy-grid " + os.path.basename(b), rc, out, err):
            c.oracle("OracleCopy", p, "OracleCopy_" + os.path.basename(b).split(".")[1],
                     lambda e: "Memory::Copy n=%d so=%d do=%d" % (e["n"], e["so"], e["do"]), timeout=3000, xmx="24g")
        if os.path.exists(p):
            os.remove(p)
    c.finish(rule="spec->code: every (state, action-label) pair of the QSeq graphs (items {1,2,3}, 2 objects, length <= 3; thorough also "
                  "<= 4) on 10 container instantiations x SIMD builds; code->spec: random histories of all kinds validated by TraceQSeq; "
                  "Memory::Copy/SetToZero for every length 0..%d x %dx%d misalignments in 3 SIMD builds judged by TLC; distinct = graph "
                  "edges + distinct (op,args,state) trace events" % (maxn, al, al),
             assumptions=["accesses beyond the logical size are sensed by ASan (exact-fit growth hook H1 where noted), not decided by TLC",
                          "SetLength is only generated with n <= Length (growing exposes unspecified content)"],
             exhaustive=False)


vf.main_wrap(main)
