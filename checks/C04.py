#!/usr/bin/env python3
"""C04 - expression evaluation equals exact arithmetic with the documented precedence.

(P) spec/QExpr.tla: operands (number literals, variables of every kind with the document value they resolve to, text next to
    == / !=, parenthesised sub-expressions), exact dyadic arithmetic (value = n/16), typed rules (real division, truncating
    remainder, integral powers, bitwise on integers, comparisons -> 1/0, truth = > 0, == / != numeric when either side is a
    number, textual otherwise), and Admissible(e) = the results of ALL parse trees consistent with the documented groups.
(I) spec/QExprImpl.tla + QExprImplDefs.tla: transcription of the operator-precedence walk of TemplateCore::evaluate; TLC checks for
    EVERY sequence of up to 4 (thorough: 5) of the 16 operators that its value is the value of an admissible parse tree, and rejects
    the earlier / seeded variants of the continuation test ("leq-after-nested", "always-continue").  The batch oracle binds the
    transcription to the engine: the observed value must be the transcribed walk's value on every recorded event (else model drift).
(I) spec/QExprParseImpl.tla: the expression PARSER (parseExpressions / getOperation / parseValue / isExpression) at the level of code
    units with every kind of unit behind the expression (the scanner takes whatever follows `case=` as the quote): TLC checks for every
    text <= 4 (thorough 5) units over 12 symbols x 7 closing units that an accepted list ends in an item without operator (what evaluate()
    trusts) and that nothing at or behind end_offset is read; the parser before 47b169e is rejected; every state is replayed through
    ParseExpressions from an exact-size buffer under ASan (verdict and operator list must be the model's; else drift).
(B) code -> spec (E5): every 1- and 2-operand expression and a large sample (thorough: all) of the 3-operand expressions over
    10 operands x 16 operators, plus random 4..6-operand expressions with parentheses, in random whitespace / literal spellings,
    through ParseExpressions + Evaluate and through {math:}, {if case=}, <if case=> from exact-size buffers under ASan/UBSan
    (a trap = crash = violation); TLC judges every event: the value is the value of an admissible parse tree, no-value
    expressions echo / are not satisfied.
"""
import os, sys, random, json
sys.path.insert(0, os.path.join(os.path.dirname(os.path.abspath(__file__)), "..", "lib"))
import vf, walk

OPS = ["^", "%", "*", "/", "+", "-", "&", "|", "==", "!=", "<", ">", "<=", ">=", "&&", "||"]
VARS = {  # name -> document description for the oracle (n = value * 16)
    "n0": {"kind": "u64", "n": 0}, "n1": {"kind": "u64", "n": 16}, "n2": {"kind": "u64", "n": 32}, "n3": {"kind": "u64", "n": 48}, "n7": {"kind": "u64", "n": 112},
    "m2": {"kind": "i64", "n": -32}, "h": {"kind": "real", "n": 8}, "r": {"kind": "real", "n": 40},
    "s2": {"kind": "str", "s": [50], "isnum": 1, "n": 32}, "s25": {"kind": "str", "s": [50, 46, 53], "isnum": 1, "n": 40},
    "t": {"kind": "true"}, "f": {"kind": "false"}, "nul": {"kind": "null"},
    "txt": {"kind": "str", "s": [97, 98, 99], "isnum": 0, "n": 0}, "txt2": {"kind": "str", "s": [97, 98, 100], "isnum": 0, "n": 0},
    "empty": {"kind": "str", "s": [], "isnum": 0, "n": 0},
    # "12abc", "2024-01-05": a numeric prefix is not a number
    "sp": {"kind": "str", "s": [49, 50, 97, 98, 99], "isnum": 0, "n": 0}, "sd": {"kind": "str", "s": [50, 48, 50, 52, 45, 48, 49, 45, 48, 53], "isnum": 0, "n": 0}, "arr": {"kind": "arr"}, "obj": {"kind": "obj"}, "missing": {"kind": "missing"},
}
LITS = [("0", 0), ("1", 16), ("2", 32), ("3", 48), ("7", 112), ("-2", -32), ("0.5", 8), ("2.5", 40), ("5e-1", 8), ("25e-1", 40), ("10", 160), ("1.0", 16)]


def operand(rnd, pool):
    kind, x = pool[rnd.randrange(len(pool))]
    if kind == "lit":
        return x[0], {"t": "lit", "n": x[1]}
    return "{var:%s}" % x, {"t": "var", "d": VARS[x]}


def render(items, rnd, depth=0):
    """items: list alternating (text, token) and op strings -> (text, tokens)"""
    txt, toks = "", []
    for it in items:
        sp = " " * rnd.choice([0, 0, 1, 1, 2])
        if isinstance(it, str):
            txt += sp + it + " " * rnd.choice([0, 1, 1])
            toks.append(it)
        else:
            txt += sp + it[0]
            toks.append(it[1])
    return txt, toks


def gen(c):
    rnd = random.Random(c.seed)
    base_pool = [("lit", l) for l in LITS[:8]] + [("var", v) for v in ("n2", "m2", "r", "s2", "t", "nul", "txt", "missing", "sp")]
    small_pool = [("lit", LITS[i]) for i in (0, 1, 2, 5, 6, 7)] + [("var", v) for v in ("n3", "h", "s25", "f")]
    all_pool = [("lit", l) for l in LITS] + [("var", v) for v in VARS]
    cases = []
    for p in all_pool:                          # single operands
        cases.append(render([operand(random.Random(hash(str(p)) & 0xffff), [p])], rnd))
    for a in all_pool:                          # two operands, every operator
        for op in OPS:
            for b in base_pool:
                cases.append(render([operand(rnd, [a]), op, operand(rnd, [b])], rnd))
    # text literals only next to == / !=
    for a in ("abc", "abd", "true", "x y"):
        for op in ("==", "!="):
            for b in all_pool[::3]:
                o = operand(rnd, [b])
                cases.append(render([(a, {"t": "text", "s": [ord(ch) for ch in a]}), op, o], rnd))
                cases.append(render([o, op, (a, {"t": "text", "s": [ord(ch) for ch in a]})], rnd))
    three = [(a, o1, b, o2, d) for a in small_pool for o1 in OPS for b in small_pool for o2 in OPS for d in small_pool]
    if not c.thorough:
        three = rnd.sample(three, 25000)
    for a, o1, b, o2, d in three:
        cases.append(render([operand(rnd, [a]), o1, operand(rnd, [b]), o2, operand(rnd, [d])], rnd))

    def rnd_expr(n_ops, depth):
        items = []
        for i in range(n_ops + 1):
            if depth > 0 and rnd.random() < 0.25:
                t, k = rnd_expr(rnd.randint(1, 2), depth - 1)
                items.append(("(" + t + ")", {"t": "sub", "e": k}))
            else:
                items.append(operand(rnd, all_pool if rnd.random() < 0.3 else small_pool))
            if i < n_ops:
                items.append(rnd.choice(OPS))
        return render(items, rnd)
    for _ in range(20000 if c.thorough else 3000):
        cases.append(rnd_expr(rnd.randint(3, 5), 2))
    # precedence shapes: EVERY sequence of documented precedence groups of 4 and 5 operators (6^4 + 6^5 shapes), each with several
    # (thorough, 4 operators: all) choices of the operators inside the groups, over small integers that keep the value exact
    groups = [["^", "%"], ["*", "/"], ["+", "-"], ["&", "|"], ["==", "!=", "<", ">", "<=", ">="], ["&&", "||"]]
    ints = [("lit", LITS[i]) for i in (1, 2, 3, 1, 2, 3, 4, 10)] + [("var", "n2"), ("var", "n3")]
    import itertools
    for n_ops, per in ((4, 0 if c.thorough else 8), (5, 6 if c.thorough else 1)):
        for shape in itertools.product(range(6), repeat=n_ops):
            if per == 0:
                insts = itertools.product(*[groups[g] for g in shape])
            else:
                insts = [[rnd.choice(groups[g]) for g in shape] for _ in range(per)]
            for ops in insts:
                items = []
                for i in range(n_ops + 1):
                    items.append(operand(rnd, ints))
                    if i < n_ops:
                        items.append(ops[i])
                cases.append(render(items, rnd))
    return cases


def parser_stage(c, asan):
    """(I) QExprParseImpl: the expression parser at the level of code units, with every kind of closing unit behind the expression;
    TLC: the last item of every accepted (sub-)list has no operator (what evaluate() trusts) and no unit at or behind end_offset is read;
    the parser before 47b169e is rejected; (E2) every (expression, closing unit) of the bare model is replayed through ParseExpressions
    from an exact-size buffer under ASan and the accepted operator list must be the model's"""
    r = c.tlc("QExprParseImpl", "QExprParseImpl_current5" if c.thorough else "QExprParseImpl_current", timeout=3000, xmx="16g")
    c.expect_holds(r, "QExprParseImpl: EvaluatorSafe, StaysInside (expression inside a template)")
    n_states = r.distinct
    r = c.tlc("QExprParseImpl", "QExprParseImpl_bare", timeout=3000, xmx="16g")
    c.expect_holds(r, "QExprParseImpl: EvaluatorSafe, StaysInside (expression at the start of the buffer)")
    c.stage("parser-model", distinct_states=n_states + r.distinct)
    r = c.tlc("QExprParseImpl", "QExprParseImpl_unbounded-lookahead", timeout=900, workers=4)
    if not r.violated:
        raise vf.MachineryError("QExprParseImpl_unbounded-lookahead: the parser before 47b169e is not rejected")
    r = c.tlc("QExprParseImpl", "QExprParseImpl_export4" if c.thorough else "QExprParseImpl_export", timeout=3000, xmx="16g", workers=4)
    vecs = r.vecs("XP")
    if len(vecs) < 1000:
        raise vf.MachineryError("QExprParseImpl export: only %d states" % len(vecs))
    inp = os.path.join(c.out, "exprparse.txt")
    with open(inp, "w") as f:
        for v in vecs:
            f.write(",".join(str(ord(ch)) for ch in v["e"]) + "\t" + str(ord(v["c"])) + "\n")
    p = os.path.join(c.out, "exprparse.ndjson")
    crashes = walk.run_cases(c, asan, "exprparse", inp, p, "exprparse")
    got = vf.read_ndjson(p)
    if len(got) + crashes < len(vecs):
        raise vf.MachineryError("exprparse replay: %d of %d states replayed" % (len(got), len(vecs)))
    want = {("".join(v["e"]), v["c"]): (v["n"], v["ops"]) for v in vecs}
    drift = 0
    for g in got:
        key = ("".join(chr(u) for u in g["e"]), chr(g["c"]))
        if key in want and (g["n"], g["ops"]) != want[key]:
            drift += 1
            if drift <= 5:      # the engine parses differently from the transcription: the transcription is out of date (not a violation by itself)
                c.drift.append({"spec": "QExprParseImpl", "expr": key[0], "closer": key[1], "engine": [g["n"], g["ops"]], "model": list(want[key])})
        if g["n"] > 0 and g["ops"][-1] != "NoOp":
            c.violation("exprparse accepted list ends in an operator: expr=%r closer=%r ops=%s" % (key[0], key[1], g["ops"]), {"kind": "replay", "event": g})
    c.count(n_eval=len(got), validated=len(got) - drift)
    c.stage("parser-replay", states=len(vecs), crashes=crashes, drift=drift)


def main():
    c = vf.Check("C04")
    (asan,) = c.build("h_template.asan")
    r = c.tlc("QExprImpl", "QExprImpl_current5" if c.thorough else "QExprImpl_current", timeout=3000)
    c.expect_holds(r, "QExprImpl: the precedence walk yields an admissible parse tree's value for every operator sequence")
    c.stage("model", distinct_states=r.distinct)
    for cfg in ("QExprImpl_leq-after-nested", "QExprImpl_always-continue"):
        r = c.tlc("QExprImpl", cfg, timeout=900, workers=4)
        if not r.violated:
            raise vf.MachineryError("%s: the earlier / seeded continuation test is not rejected" % cfg)
    parser_stage(c, asan)
    cases = gen(c)
    inp = os.path.join(c.out, "exprs.txt")
    with open(inp, "w") as f:
        for t, k in cases:
            f.write(",".join(str(ord(ch)) for ch in t) + "\t" + json.dumps(k, separators=(",", ":")) + "\n")
    p = os.path.join(c.out, "expr.ndjson")
    crashes = walk.run_cases(c, asan, "expr", inp, p, "expr")
    c.stage("harness", cases=len(cases), crashes=crashes)

    def sig(e):
        return "expr text=%r ok=%d n16=%s math=%r iif=%r blk=%r" % ("".join(chr(u) for u in e["text"]), e["ok"], e["n"] if e["exact"] else "inexact",
                                                                   "".join(chr(u) for u in e["math"]), "".join(chr(u) for u in e["iif"]), "".join(chr(u) for u in e["blk"]))
    c.oracle("OracleExpr", p, "OracleExpr", sig, timeout=3400, xmx="24g", xss="256m", tags={"NEGPOW": lambda e: "expr NEGPOW " + sig(e)})
    try:
        unj = sum(1 for ln in open(os.path.join(c.out, "tlc_OracleExpr.log")) if ln.startswith('<<"UNJ"'))
        c.stage("not-judged", events_with_a_result_outside_the_exact_domain=unj)
    except OSError:
        pass
    evs = vf.read_ndjson(p)
    c.count(distinct_keys=[tuple(e["text"]) for e in evs if len(e["tokens"]) > 1])
    for e in evs[100:len(evs):max(1, len(evs) // 5)]:
        c.sample({"text": "".join(chr(u) for u in e["text"]), "ok": e["ok"], "n16": e["n"], "math": "".join(chr(u) for u in e["math"])})
    c.finish(rule="all 1- and 2-operand expressions over 33 operands (12 literal spellings, 21 variables of every kind incl. missing) x 16 operators, "
                  "text literals next to ==/!=, %s 3-operand expressions over 10 operands, random 4..6-operand expressions with nested parentheses, every sequence of precedence groups of 4 and 5 operators (1,296 + 7,776 shapes, %s) over small integers; "
                  "random whitespace; distinct = distinct expression texts with at least one operator" % ("all 655,360" if c.thorough else "25,000 sampled", "all 65,536 4-operator sequences, 6 instances per 5-operator shape" if c.thorough else "8 resp. 1 operator choices per shape"),
             assumptions=["results outside the exact dyadic domain (inexact division, large values, 0^0, negative exponents, bitwise on non-integers) are unjudged",
                          "inside one documented precedence group other than * / and + - every association is admissible",
                          "an inline-if whose case has no value may print nothing or its false part (documentation is silent)"],
             exhaustive=False)


vf.main_wrap(main)
