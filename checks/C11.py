#!/usr/bin/env python3
"""C11 - every finite double survives format(17 digits) then parse bit-for-bit.

(P) QDigitFormat (the reference 17-digit text) + QDigitParse (admissible results for a text): the round trip is explained by
    the two specifications - when the text is the correctly rounded 17-digit expansion a parser that is admissible AND exact
    on it returns the value.
(B) code -> spec: doubles sampled uniformly over bit patterns, uniformly over exponents, subnormals, powers of two and ten
    +-2 ulp, the largest finite values, +-0 and the smallest subnormals: NumberToString(17) -> StringToNumber from exact-size
    buffers under ASan; every value is compared bit for bit in the harness, and every k-th event plus every failure is judged
    by TLC (round trip identical; text = reference; parse result admissible).  Floats: 9 digits, sweep of bit patterns.
"""
import os, sys
sys.path.insert(0, os.path.join(os.path.dirname(os.path.abspath(__file__)), "..", "lib"))
import vf


def main():
    c = vf.Check("C11")
    asan, plain = c.build("h_digit.asan", "h_digit.plain")
    n, every = (2000000, 400) if c.thorough else (200000, 250)
    p = os.path.join(c.out, "roundtrip.ndjson")
    rc, out, err = c.run([asan if not c.thorough else plain, "roundtrip", str(c.seed), str(n), p, str(every)], timeout=3000)
    if c.harness_ok("digit-roundtrip", rc, out, err):
        kv = dict(l.split() for l in out.splitlines() if l.split()[0] in ("VALUES", "BAD", "LOGGED"))
        c.stage("harness", values=int(kv["VALUES"]), bad=int(kv["BAD"]), logged=int(kv["LOGGED"]))
        c.count(n_eval=int(kv["VALUES"]) - int(kv["LOGGED"]))
        evs = vf.read_ndjson(p)
        r = c.tlc("OracleDigitFormat", env={"TRACE": p}, name="OracleRoundTrip", timeout=3400, xmx="24g", xss="512m")
        bad = sorted(set(t[1] for t in r.tuples("MISMATCH")))
        notref = {t[1]: t[2] for t in r.tuples("NOTREF")}
        notadm = set(t[1] for t in r.tuples("NOTADM"))
        for l in bad[:200]:
            e = evs[l - 1]
            bits = sum(b << (8 * i) for i, b in enumerate(e["bits"]))
            back = sum(b << (8 * i) for i, b in enumerate(e["back"]))
            why = "formatter(text is not the reference)" if l in notref else ("parser(result not admissible)" if l in notadm else "combination")
            c.violation("roundtrip bits=%016x text=%s back=%016x attributed-to=%s" % (bits, "".join(chr(u) for u in e["text"]), back, why),
                        {"kind": "oracle", "event": e, "reference_text": "".join(chr(u) for u in notref.get(l, []))})
        nn = max(0, r.distinct - 65)
        c.count(n_eval=nn, validated=nn - len(bad), distinct_keys=[tuple(e["bits"]) for e in evs])
        c.stage("oracle", events=nn, roundtrip_failures=len(bad), text_not_reference=len(notref), parse_not_admissible=len(notadm))
        for e in evs[3:len(evs):max(1, len(evs) // 4)]:
            c.sample({"bits": e["bits"], "text": "".join(chr(u) for u in e["text"]), "same": e["same"]})
    # floats: 9 digits; bit-pattern sweep, harness comparison only
    step = 1 if False else (257 if c.thorough else 4099)
    rc, out, err = c.run([plain, "floats32", str(c.seed % step), str((1 << 32) - 1), str(step)], timeout=3000)
    if c.harness_ok("float-roundtrip", rc, out, err):
        kv = dict(l.split()[:2] for l in out.splitlines() if l.split()[0] in ("FLOATS", "BAD"))
        c.stage("floats", values=int(kv["FLOATS"]), bad=int(kv["BAD"]))
        c.count(n_eval=int(kv["FLOATS"]), validated=0)
        for ln in out.splitlines():
            if ln.startswith("FLOATBAD"):
                c.violation("roundtrip float " + ln, {"kind": "harness", "line": ln})
    c.finish(rule="%d doubles over 8 generators (uniform bits, uniform exponent, subnormals, powers of two +-1 ulp, powers of ten +-2 ulp, top of "
                  "range, zeros, quotients) compared bit for bit in the harness; every %dth and every failing one judged by TLC; floats: every %dth "
                  "bit pattern at 9 digits (harness comparison only, not TLC-validated); distinct = distinct doubles seen by TLC" % (n, every, step),
             assumptions=["all 2^32 floats x TLC is out of reach; the float sweep is a harness-only bit comparison and is labelled as such",
                          "text_not_reference counts in the evidence show where the formatter deviates from the reference without breaking the round trip"],
             exhaustive=False)


vf.main_wrap(main)
