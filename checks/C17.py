#!/usr/bin/env python3
"""C17 - rendering is pure: cached, repeated and concurrent renders are identical.

(P) spec/QRender.tla: renders through one shared parsed tag array as interleaved steps (one step = one expanded tag) that read
    what is shared and append to their own stream.  TLC explores every interleaving of 2 renders x 4 steps and 3 renders x 3
    steps (thorough: 2x6, 3x4): PureShared, AppendOnly, OneWriter (action properties), SoloEqual, Sound (invariants).  The
    impure designs the property text names (static scratch buffer, tag record patched, loop context in a static) are variants of
    the same spec and must be rejected.
(B1) spec -> code (E2): every path of the TLC state graph is a schedule; each is forced on real threads (hook H3: a yield point
    before every tag; the cut points between a thread's steps are drawn per schedule) rendering generated templates (every tag
    kind, sort / group loops) through one shared tag array, threads 0 and 1 sharing one value object.  After EVERY step, with all
    threads parked, every field of every tag record, the Stringify of the values and the template bytes are compared with their
    initial snapshot, and the bytes the step appended are recorded.
(B2) code -> spec (E4): TLC (TraceQRender) replays the recorded steps: shared state unchanged, only the running render's stream
    grew and kept its content, every stream is a prefix of - and at the end equal to - the solo render.  The same trace
    specification validates cache-reuse histories (one cache parsed on first use, six renders with two values into fresh and
    into growing streams).
(B3) free-running threads (8) under ThreadSanitizer through one shared tag array and one shared value; outputs compared with the
    solo renders.
"""
import os, sys, json, random, re, collections, concurrent.futures
sys.path.insert(0, os.path.join(os.path.dirname(os.path.abspath(__file__)), "..", "lib"))
import vf, walk, tmplgen


def schedules_of(c, cfg):
    """all paths of the state graph of QRender (pure design) = all interleavings"""
    dot = os.path.join(c.out, cfg + ".dot")
    r = c.tlc("QRender", cfg, dump=dot, timeout=900, workers=4)
    c.expect_holds(r, "QRender %s: PureShared AppendOnly OneWriter SoloEqual Sound" % cfg)
    nodes, edges, inits = vf.parse_dot(dot)
    succ = collections.defaultdict(list)
    for s, _, d in edges:
        if s != d:
            a, b = nodes[s]["pc"], nodes[d]["pc"]
            t = [k for k in a if a[k] != b[k]]
            if len(t) == 1 and (t[0], d) not in succ[s]:
                succ[s].append((t[0], d))
    out = []

    def walk_paths(n, acc):
        if not succ[n]:
            out.append(list(acc))
            return
        for t, d in succ[n]:
            acc.append(t)
            walk_paths(d, acc)
            acc.pop()
    walk_paths(inits[0], [])
    os.remove(dot)
    return out


def gen_cases(c, n, seed0):
    cases = []
    for i in range(n):
        g = tmplgen.Gen(seed0 + i, sort_loop_sets=True)
        d, nodes, text = g.template(depth=3)
        g2 = tmplgen.Gen(seed0 + i + 100003)
        d2 = g2.root()
        cases.append((text, tmplgen.to_json(d), tmplgen.to_json(d2)))
    # hand-written: every tag kind, sort and group loops, nested loops over shared data
    doc = '{"list":[3,1,2],"recs":[{"y":"b","v":1},{"y":"a","v":2},{"y":"b","v":3}],"obj":{"k1":"x<y","k2":5},"a":2,"phrase":"{0}-{1}","rows":[{"a":[2,1],"b":[5,4,6]},{"a":[9,7,8],"b":[3,1]}]}'
    doc2 = '{"list":[9,8],"recs":[{"y":"z","v":7}],"obj":{"k1":"q"},"a":0,"phrase":"{1}+{0}","rows":[{"a":[1,3,2],"b":[2,1]}]}'
    for text in ['<loop set="list" value="x" sort="ascend">{var:x},</loop>|<loop set="list" value="x" sort="descend">{var:x};</loop>|<loop set="list" value="x">{var:x}.</loop>',
                 '<loop set="recs" value="g" group="y">[{var:g}:<loop set="g" value="r">{var:r[v]}</loop>]</loop>{svar:phrase, {var:a}, {math:{var:a}*3}}',
                 '<loop set="obj" value="m">{var:m}={raw:m};</loop><if case="{var:a} > 1">big<else if case="{var:a} == 0">zero<else>small</if>{if case="{var:a}" true="{var:obj[k1]}" false="F"}',
                 '<loop set="recs" value="r"><loop set="list" value="x">{var:r[y]}{var:x}<if case="{var:x} == {var:r[v]}">!</if></loop>/</loop>',
                 # sorted loops over sets that belong to an outer loop's item, inside sorted / grouped loops (three levels)
                 '<loop set="rows" value="r"><loop set="r[a]" value="x" sort="ascend">{var:x}<loop set="r[b]" value="y" sort="ascend">{var:y},</loop>;</loop>|</loop>',
                 '<loop set="rows" value="r"><loop set="r[b]" value="x" sort="descend"><loop set="r[a]" value="y" sort="descend">{var:y}{var:x} </loop></loop>/</loop>',
                 '<loop set="recs" value="g" group="y" sort="descend"><loop set="g" value="r"><loop set="list" value="x" sort="ascend">{var:x}{var:r[v]}</loop></loop></loop>']:
        cases.append((text, doc, doc2))
    return cases


def write_cases(path, cases):
    with open(path, "w") as f:
        for text, vj, vj2 in cases:
            f.write(",".join(str(ord(ch)) for ch in text) + "\t" + ",".join(str(ord(ch)) for ch in vj) + "\t{}\t" + ",".join(str(ord(ch)) for ch in vj2) + "\n")


def validate(c, trace, cases, label):
    """TraceQRender over the recorded events, split at case boundaries into parallel TLC runs"""
    blocks, cur = [], []
    with open(trace) as f:
        for ln in f:
            if ln.startswith('{"op":"case"') and cur:
                blocks.append(cur)
                cur = []
            cur.append(ln)
    if cur:
        blocks.append(cur)
    nchunks = min(16, max(1, len(blocks)))
    chunks = [[] for _ in range(nchunks)]
    for i, b in enumerate(blocks):
        chunks[i % nchunks].append(b)

    def job(i):
        tp = os.path.join(c.out, "%s_%d.ndjson" % (label, i))
        n = 0
        with open(tp, "w") as f:
            for b in chunks[i]:
                f.writelines(b)
                n += len(b)
        r = c.tlc("TraceQRender", env={"TRACE": tp}, workers=1, timeout=3000, xmx="3g", xss="256m", name="TraceQRender_%s_%d" % (label, i), quiet=True)
        os.remove(tp)
        return i, r, n
    total = steps = 0
    with concurrent.futures.ThreadPoolExecutor(max_workers=nchunks) as ex:
        for i, r, n in ex.map(job, range(nchunks)):
            total += n
            ended = False
            for ln in r.prints:
                v = vf.parse_tla_value(ln)
                if v[0] == "TRACE-END":
                    ended = v[1] == n
                elif v[0] == "IMPURE":
                    text = cases[v[1]][0] if v[1] < len(cases) else "?"
                    c.violation("render %s: %s | schedule=%s template=%r" % (label, v[4], "".join(str(x) for x in v[2]), text[:200]),
                                {"kind": "impure", "mode": label, "case": v[1], "schedule": v[2], "event": v[3], "why": v[4], "template": text, "values": cases[v[1]][1:] if v[1] < len(cases) else None})
            if not ended:
                raise vf.MachineryError("trace chunk %s/%d was not consumed to its end" % (label, i))
    with open(trace) as f:
        for ln in f:
            if ln.startswith('{"op":"step"'):
                steps += 1
    c.count(n_eval=steps, validated=steps)
    return total, steps


def inductive(c):
    """Apalache: IndInv of the pure design is inductive for every K in 1..12 (3 renders) and implies Sound and SoloEqual"""
    import shutil, time
    od = os.path.join(c.out, "apalache")
    steps = (("Init => IndInv", ["--init=Init", "--inv=IndInv", "--length=0"]),
             ("IndInv /\\ Next => IndInv'", ["--init=IndInit", "--inv=IndInv", "--length=1"]),
             ("IndInv => Sound /\\ SoloEqual", ["--init=IndInit", "--inv=Goal", "--length=0"]))
    for what, args in steps:
        t = time.time()
        rc, out, err = c.run(["apalache-mc", "check", "--cinit=ConstInit", "--out-dir=" + od] + args + [os.path.join(vf.SPEC, "QRenderInd.tla")], timeout=1800)
        if "EXITCODE: OK" not in out:
            raise vf.MachineryError("Apalache did not establish '%s' for QRenderInd: %s" % (what, (out + err)[-400:]))
        c.cov["tlc_runs"].append({"name": "apalache " + what, "module": "QRenderInd", "cfg": " ".join(args), "distinct": 0, "generated": 0, "wall_s": round(time.time() - t, 1),
                                  "mode": "apalache-inductive", "result": "ok"})
        c.log("Apalache %-34s ok  %.1fs" % (what, time.time() - t))
    shutil.rmtree(od, ignore_errors=True)


def main():
    c = vf.Check("C17")
    xasan, tsan = c.build("h_render.xasan", "h_render.tsan")
    # (P) the design and its impure variants
    for cfg, inv in (("QRender_bad_static-scratch", "Sound"), ("QRender_bad_tag-patched", "PureShared"), ("QRender_bad_shared-context", "Sound"), ("QRender_bad_lazy-parse", "PureShared")):
        r = c.tlc("QRender", cfg, timeout=600, workers=4)
        if not r.violated:       # (which property TLC reports first depends on the worker schedule; `inv` is the expected one)
            raise vf.MachineryError("%s: the impure design is not rejected (expected %s)" % (cfg, inv))
    if c.thorough:
        inductive(c)
    plans = [("QRender_2x4", 60, 0), ("QRender_3x3", 6, 0)]
    if c.thorough:
        plans = [("QRender_2x4", 400, 0), ("QRender_3x3", 40, 0), ("QRender_2x6", 40, 0), ("QRender_3x4", 12, 4000)]
    rnd = random.Random(c.seed)
    for cfg, ncases, sample in plans:
        sch = schedules_of(c, cfg)
        nall = len(sch)
        if sample and len(sch) > sample:
            sch = rnd.sample(sch, sample)
        sp = os.path.join(c.out, cfg + ".sched")
        with open(sp, "w") as f:
            for s in sch:
                f.write(",".join(str(t) for t in s) + "\n")
        cases = gen_cases(c, ncases, c.seed * 7919 + len(cfg))
        cp = os.path.join(c.out, cfg + ".cases")
        write_cases(cp, cases)
        tp = os.path.join(c.out, cfg + ".ndjson")
        # (run_cases passes <infile> <outfile> <from>; the schedule file goes in between)
        start, crashes = 0, 0
        if os.path.exists(tp):
            os.remove(tp)
        for attempt in range(10):
            rc, out, err = c.run([xasan, "sched", cp, sp, tp, str(start)], timeout=3000)
            lines = out.strip().splitlines()
            if lines and lines[-1] == "DONE":
                break
            m = None
            for ln in reversed(lines):
                m = re.match(r"(CRASH|HANG) (-?\d+) (-?\d+) ?(.*)", ln)
                if m:
                    break
            if not m:
                c.harness_ok("render-forced-schedules[%s]" % cfg, rc, out, err, {})
                break
            san = re.search(r"(AddressSanitizer|UndefinedBehaviorSanitizer|runtime error)[^\n]*", err or "")
            c.violation("render-forced-schedules[%s] %s: %s | %s" % (cfg, m.group(1), re.sub(r"0x[0-9a-f]+", "0x", san.group(0))[:110] if san else "signal " + m.group(3), m.group(4)[:300]),
                        {"kind": "crash", "case": int(m.group(2)), "stderr": (err or "")[-3000:]})
            crashes += 1
            start = int(m.group(2)) + 1
        events, steps = validate(c, tp, cases, cfg)
        c.stage("forced-" + cfg, schedules=len(sch), of=nall, cases=len(cases), events=events, steps=steps, crashes=crashes)
        c.count(distinct_keys=[(cfg, tuple(s)) for s in sch])
        for q in (sp, cp, tp):
            os.remove(q)
    # cache reuse histories
    cases = gen_cases(c, 1500 if c.thorough else 250, c.seed * 104729 + 5)
    cp, tp = os.path.join(c.out, "reuse.cases"), os.path.join(c.out, "reuse.ndjson")
    write_cases(cp, cases)
    rc, out, err = c.run([xasan, "reuse", cp, tp], timeout=3000)
    if c.harness_ok("render-cache-reuse", rc, out, err):
        events, steps = validate(c, tp, cases, "reuse")
        c.stage("cache-reuse", cases=len(cases), events=events, renders=steps)
        c.count(distinct_keys=[("reuse", t[0]) for t in cases])
    # free-running threads under ThreadSanitizer
    nfree = 600 if c.thorough else 120
    cases = gen_cases(c, nfree, c.seed * 15485863 + 11)
    write_cases(cp, cases)
    fo = os.path.join(c.out, "free.ndjson")
    env = dict(os.environ)
    env["TSAN_OPTIONS"] = "halt_on_error=0 exitcode=66 report_signal_unsafe=0"
    rc, out, err = c.run([tsan, "free", cp, fo, "8", "60" if c.thorough else "25"], timeout=3400, env=env)
    races = re.findall(r"WARNING: ThreadSanitizer: ([^\n(]+)", err or "")
    summaries = re.findall(r"SUMMARY: ThreadSanitizer: ([^\n]+)", err or "")
    if races:
        seen = set()
        for s in summaries or races:
            s = re.sub(r"0x[0-9a-f]+", "0x", s)
            if s not in seen:
                seen.add(s)
                c.violation("render-free-threads ThreadSanitizer: %s" % s[:200], {"kind": "tsan", "summary": s, "stderr": (err or "")[:6000]})
    elif rc != 0 or "DONE" not in out:
        c.harness_ok("render-free-threads", rc, out, err)
    nrend = 0
    if os.path.exists(fo):
        for e in vf.read_ndjson(fo):
            nrend += 1
            if e["diff"]:
                c.violation("render-free-threads: %d of the concurrent renders differ from the solo render template=%r" % (e["diff"], cases[e["c"]][0][:200]), {"kind": "free-diff", "event": e, "template": cases[e["c"]][0]})
    c.count(n_eval=nrend * 8 * (60 if c.thorough else 25), validated=nrend * 8 * (60 if c.thorough else 25))
    c.stage("free-threads-tsan", cases=nrend, threads=8, tsan_reports=len(races))
    for q in (cp, tp, fo):
        if os.path.exists(q):
            os.remove(q)
    c.sample({"schedule": "0,1,0,0,1,1,0,1", "note": "every step: tags / value / template snapshot equal, chunk appended to own stream only"})
    c.finish(rule="all interleavings of 2 renders x 4 steps (70) and 3 renders x 3 steps (1,680)%s from the TLC state graph, each forced on real threads for "
                  "generated templates of every tag kind (cut points between steps drawn per schedule); cache-reuse histories of 6 renders; 8 free threads "
                  "under TSan; distinct = distinct (configuration, schedule) and reuse templates" % (", 2x6 (924) and 4,000 sampled of 3x4 (34,650)" if c.thorough else ""),
             assumptions=["a step is the expansion of one or more whole tags: writes to shared state that are undone inside one step are only visible to TSan (free-running threads)",
                          "each render uses its own TemplateCore object and its own stream, as the documentation prescribes; the tag array is parsed before the threads start",
                          "schedules are exhaustive at the granularity of K steps per render; which yield points separate the steps is sampled"],
             exhaustive=False)


vf.main_wrap(main)
