#!/usr/bin/env python3
"""C05 - parsing any byte string as JSON is memory-safe and terminates.

(I) spec/QJsonImpl.tla: transcription of the cursor machine with every content[offset] read recorded; TLC decides
    ReadInBounds (plus AllOrNothing / Complete / SameValue) for every text <= 6 (quick) / 7 (thorough) over 10 symbol classes.
(B) the same texts (all, enumerated) and random documents with every cut / suffix / bracket mutation are parsed by the real
    JSON::Parse from exact-size, unterminated heap buffers in char / char16_t / char32_t under ASan+UBSan with a per-case
    alarm (termination); results are judged by TLC (OracleJson): the result is a complete value or Undefined.
    Nesting 512 / 513 / 2000 levels is parsed with the default 8 MiB stack.
"""
import os, sys
sys.path.insert(0, os.path.join(os.path.dirname(os.path.abspath(__file__)), "..", "lib"))
import vf, jsoncommon as J


def main():
    c = vf.Check("C05")
    (asan,) = c.build("h_json.asan")
    r = c.tlc("QJsonImpl", "QJsonImpl_7" if c.thorough else "QJsonImpl_6", timeout=3400, xmx="24g")
    c.expect_holds(r, "QJsonImpl: ReadInBounds, AllOrNothing, Complete, SameValue + grammar facts")
    p, ok = J.run_family(c, asan, "enum", ["enum", "6" if c.thorough else "5", J.ALPHA10], mode="safety")
    if ok:
        evs = vf.read_ndjson(p)
        c.count(distinct_keys=[tuple(e["s"]) for e in evs])
        for e in evs[1500:90000:22000]:
            c.sample({"text": J.text(e), "undef": e["undef"]})
        os.remove(p)
    p, ok = J.run_family(c, asan, "docs", ["docs", str(c.seed), "4000" if c.thorough else "400"], mode="safety")
    if ok:
        evs = vf.read_ndjson(p)
        c.count(distinct_keys=[(e["w"], tuple(e["s"])) for e in evs])
        for e in evs[10:4000:1300]:
            c.sample({"fam": e["fam"], "w": e["w"], "text": J.text(e), "undef": e["undef"]})
    # the other SIMD variants of the block copy underneath the string / stream writes (same inputs, same oracle)
    for variant in (("h_json.asan_scalar", "h_json.asan_avx2") if c.thorough else ("h_json.asan_avx2",)):
        (b,) = c.build(variant)
        p, ok = J.run_family(c, b, "docs_" + variant.split(".")[1], ["docs", str(c.seed + 1), "2000" if c.thorough else "200"], mode="safety")
        if ok:
            c.count(distinct_keys=[(variant, e["w"], tuple(e["s"])) for e in vf.read_ndjson(p)])
        if os.path.exists(p):
            os.remove(p)
    for levels in (512, 513, 2000):
        rc, out, err = c.run(["bash", "-c", "ulimit -s 8192; exec %s deep %d" % (asan, levels)], timeout=120)
        if c.harness_ok("json nesting %d levels" % levels, rc, out, err):
            c.count(n_eval=1, validated=1)
            if levels <= 512 and "ACCEPTED ACCEPTED" not in out:
                c.violation("json nesting %d levels rejected: %s" % (levels, out.strip()[:80]), {"kind": "deep", "levels": levels, "out": out})
    # nesting far beyond any realistic document: the parser recurses once per level (recorded finding json-deep-nesting-recursion)
    rc, out, err = c.run(["bash", "-c", "ulimit -s 8192; exec %s deep 60000" % asan], timeout=300)
    if "ACCEPTED" in out or "REJECTED" in out:
        c.count(n_eval=1, validated=1)
    else:
        import re
        san = re.search(r"AddressSanitizer: ([a-z-]+)", err or "")
        c.violation("json-deep-nesting-60000 CRASH: %s" % (san.group(1) if san else "signal / rc=%s" % rc), {"kind": "crash", "levels": 60000, "stderr": (err or "")[-1500:]})
    c.finish(rule="every text of length <= %d over {{ }} [ ] \" : , 1 a \\ (3 widths; identical results logged once), random documents "
                  "(all escape forms incl. surrogate pairs, whitespace, numerals, duplicate keys) with every proper prefix, 11 one-unit "
                  "suffixes and every structural bracket swapped/dropped; nesting 512/513/2000; distinct = distinct (width, text)" % (6 if c.thorough else 5),
             assumptions=["out-of-bounds accesses in the real code are sensed by ASan on exact-size buffers; in the transcription they are decided by TLC",
                          "the number scanner is abstracted in QJsonImpl (C09 covers it)"],
             exhaustive=False)


vf.main_wrap(main)
