#!/usr/bin/env python3
"""C06 - every RFC 8259 document parses to the value it denotes.

(P) spec/QJsonGrammar.tla Parse / Denotes (escapes decoded through QUnicode for the target width, duplicate keys: last value at
    the first position, exact numbers for small numerals); (I) QJsonImpl Complete / SameValue for every text <= 6/7.
(B) code -> spec: random documents (all escape forms in both hex cases, surrogate pairs over all planes, raw non-ASCII, the four
    whitespace units everywhere, integer / fraction / exponent numerals incl. 0e0, -0, 64-bit boundaries, duplicate keys, nesting)
    for UTF-8/16/32 targets, and every enumerated text; TLC judges: every document of the grammar is accepted and yields the
    denoted value (complete mode).
"""
import os, sys
sys.path.insert(0, os.path.join(os.path.dirname(os.path.abspath(__file__)), "..", "lib"))
import vf, jsoncommon as J


def main():
    c = vf.Check("C06")
    (asan,) = c.build("h_json.asan")
    r = c.tlc("QJsonImpl", "QJsonImpl_7" if c.thorough else "QJsonImpl_6", timeout=3400, xmx="24g")
    c.expect_holds(r, "QJsonImpl: Complete, SameValue")
    p, ok = J.run_family(c, asan, "enum", ["enum", "6" if c.thorough else "5", J.ALPHA10], mode="complete")
    if ok:
        evs = vf.read_ndjson(p)
        c.count(distinct_keys=[tuple(e["s"]) for e in evs if e["undef"] == 0])
        os.remove(p)
    p, ok = J.run_family(c, asan, "docs", ["docs", str(c.seed + 13), "20000" if c.thorough else "2500"], mode="complete")
    if ok:
        evs = vf.read_ndjson(p)
        c.count(distinct_keys=[(e["w"], tuple(e["s"])) for e in evs if e["fam"] == "doc"])
        for e in [x for x in evs if x["fam"] == "doc"][3:300:70]:
            c.sample({"w": e["w"], "text": J.text(e), "doc": e["doc"]})
    c.finish(rule="random container documents (depth <= 3, <= 3 members per level) x random spelling (escape form per character, whitespace, "
                  "numeral form) x UTF-8/16/32; every enumerated text <= %d that is a document; non-trivial = accepted documents" % (6 if c.thorough else 5),
             assumptions=["numbers that are not small exact values are compared by C09 (marked approx here)",
                          "lone surrogates are not generated"],
             exhaustive=False)


vf.main_wrap(main)
