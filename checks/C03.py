#!/usr/bin/env python3
"""C03 - {var:} output is HTML-safe for every string; {raw:} is verbatim.

(P) spec/QEscape.tla: Safe / Decode / Escape and the laws; (I) spec/QEscapeImpl.tla: transcription of
    EscapeHTMLSpecialChars with every read recorded.  TLC: laws of (P), (I) = (P), ReadInBounds for every string up to
    MaxLen over an alphabet containing every prefix/overlap of the five entities.
(B) code -> spec: the same strings (all, enumerated) + random long strings over all code units are pushed through the real
    escaper from exact-size buffers under ASan (4 widths, appending to a non-empty stream, auto-escape on and off) and every
    (input, output, output-of-output) event is judged by TLC against the laws; equality with Escape() is tracked as drift.
    The printing paths of the template engine ({var}, loop key, svar phrase, echo of unresolved tags, {raw}) are bound by
    the template checks (C02) whose oracle places Escape exactly on those paths.
"""
import os, sys
sys.path.insert(0, os.path.join(os.path.dirname(os.path.abspath(__file__)), "..", "lib"))
import vf

A9 = "38,60,34,97,109,112,108,116,59"
A17 = "38,60,62,34,39,59,97,109,112,108,116,103,113,117,111,115,120"


def sig(e):
    return "escape w=%s esc=%d s=%s o=%s" % (e["w"], e["esc"], vf.text(e["s"]), vf.text(e["o"]))


def main():
    c = vf.Check("C03")
    asan, noesc = c.build("h_escape.asan", "h_escape.noesc")
    r = c.tlc("QEscapeImpl", "QEscapeImpl_7" if c.thorough else "QEscapeImpl_5", timeout=3000, xmx="16g")
    c.expect_holds(r, "escaper transcription: laws, equality with Escape, ReadInBounds (9 symbols)")
    r = c.tlc("QEscapeImpl", "QEscapeImpl_wide", timeout=3000)
    c.expect_holds(r, "escaper transcription: laws, equality with Escape, ReadInBounds (17 symbols)")

    jobs = [("enum9", [asan, "enum", "6" if c.thorough else "5", A9]),
            ("enum17", [asan, "enum", "4" if c.thorough else "3", A17]),
            ("random", [asan, "random", str(c.seed), "200000" if c.thorough else "20000", "40"]),
            ("noesc", [noesc, "enum", "3", A9]),
            ("noesc-random", [noesc, "random", str(c.seed + 1), "2000", "30"])]
    for name, argv in jobs:
        p = os.path.join(c.out, name + ".ndjson")
        rc, out, err = c.run(argv + [p], timeout=3000)
        if not c.harness_ok("escape " + name, rc, out, err, {"argv": argv}):
            continue
        n, bad, drift = c.oracle("OracleEscape", p, "OracleEscape_" + name, sig, timeout=3000, xmx="24g")
        evs = None
        if name in ("enum9", "random"):
            evs = vf.read_ndjson(p)
            for e in evs[1000:60000:14000]:
                c.sample(e)
            c.count(distinct_keys=[(e["w"], tuple(e["s"])) for e in evs if any(u in (38, 60, 62, 34, 39) for u in e["s"])])
        os.remove(p)
    c.finish(rule="every string of length <= %s over the 9-symbol alphabet {& < \" a m p l t ;} and <= %s over 17 symbols, + random strings "
                  "<= 40 units built from entity fragments and arbitrary units (incl. NUL and the high half), through the real escaper in 4 "
                  "widths (identical outputs across widths are logged once); non-trivial = contains at least one of & < > \" '" % (("6", "4") if c.thorough else ("5", "3")),
             assumptions=["memory errors are sensed by ASan on exact-size input buffers; ReadInBounds is decided by TLC on the transcription only",
                          "template printing paths are covered by C02's Render oracle"],
             exhaustive=False)


vf.main_wrap(main)
