#!/usr/bin/env python3
"""C18 - grouping partitions an array of objects by key value, wherever the key sits.

(P) spec/QValue.tla GroupBy / GroupPartition (names = distinct textual key values in order of first appearance; items = the
    objects, in input order, minus the key; the partition property is checked by TLC on every generated array).
(I) spec/QGroupImpl.tla + QGroupImplDefs.tla: the walk of Value::GroupBy over the slot representation (dead slots count as
    positions; the name variable lives outside the record loop); TLC builds every array of <= 2 (thorough 3) records over 196 slot
    layouts and checks it against (P); three seeded / earlier variants are rejected.  The oracle also demands that the engine's
    result is the transcription's result on the logged slot layout of every event (model drift otherwise).
(B) code -> spec (E5): Value::GroupBy on every 1- and 2-object array over (group value x key position x value kind
    string/u64/bool/null/i64 x with-a-removed-member) and on random arrays of 1..5 objects; each (input, result, source unchanged)
    event is evaluated by TLC against GroupBy.  <loop group=...> is bound by the template checks.
"""
import os, sys
sys.path.insert(0, os.path.join(os.path.dirname(os.path.abspath(__file__)), "..", "lib"))
import vf


def main():
    c = vf.Check("C18")
    (asan,) = c.build("h_value.asan")
    # (I) the walk of Value::GroupBy over the slot representation against the specification, and the seeded / earlier variants rejected
    r = c.tlc("QGroupImpl", "QGroupImpl_current3" if c.thorough else "QGroupImpl_current", timeout=3000, xmx="16g")
    c.expect_holds(r, "QGroupImpl: the walk over the slots returns the specification's groups for every array of the universe")
    c.stage("model", distinct_states=r.distinct)
    for cfg in ("QGroupImpl_skip-dead-uncounted", "QGroupImpl_prefix-newest", "QGroupImpl_key-first", "QGroupImpl_empty-refused"):
        r = c.tlc("QGroupImpl", cfg, timeout=900, workers=4)
        if not r.violated:
            raise vf.MachineryError("%s: the seeded / earlier behaviour is not rejected" % cfg)
    p = os.path.join(c.out, "group.ndjson")
    rc, out, err = c.run([asan, "group", str(c.seed), "100000" if c.thorough else "1500", p], timeout=1500)
    if c.harness_ok("group", rc, out, err):
        def sig(e):
            import json
            return "groupby ok=%d unchanged=%d in=%s out=%s" % (e["ok"], e["unchanged"], json.dumps(e["in"], separators=(",", ":"))[:300], json.dumps(e["out"], separators=(",", ":"))[:200])
        c.oracle("OracleGroup", p, "OracleGroup", sig, timeout=3000, xmx="16g")
        evs = vf.read_ndjson(p)
        import json
        c.count(distinct_keys=[json.dumps(e["in"]) for e in evs])
        for e in evs[3:9000:2500]:
            c.sample(e)
    c.finish(rule="all arrays of 1 and 2 objects over {3 group values} x {key at member position 0,1,2} x {string,u64,bool,null,i64 key value} x "
                  "{with / without a removed member}, plus random arrays of 1..5 objects with 1..3 groups; other members are numbers, strings, "
                  "arrays and objects; distinct = distinct input arrays",
             assumptions=["real-valued grouping keys are not generated (their text depends on number formatting, C10)"],
             exhaustive=False)


vf.main_wrap(main)
