#!/usr/bin/env python3
"""C12 - a Value behaves as an abstract JSON document under every operation sequence.

(P) spec/QValue.tla: documents as TLA+ values; writes with auto-vivification along a path (assign, += value, += array,
    Merge copy/move, Remove, RemoveIndex, Reset), Compress, deep copy / move between two roots, non-vivifying reads,
    numeric / boolean coercions.  TLC: exhaustive under a weight bound, invariants (well-formed, no duplicate keys) and the
    action properties "copies are independent" / "moved-from is Undefined".
(B) spec -> code: every (state, action) edge of the QValue graph is replayed into two real Value<char> roots (every overload is
    rotated through) under ASan; code -> spec: random histories (paths up to 3 steps over keys incl. the empty key and
    indices, literals of every kind, copy/move/merge between roots, typed getters) are validated line by line by TraceQValue.
"""
import os, sys
sys.path.insert(0, os.path.join(os.path.dirname(os.path.abspath(__file__)), "..", "lib"))
import vf, walk


def pdoc(d):
    t = d["t"]
    if t == "U": return "u"
    if t == "Z": return "z"
    if t == "T": return "t"
    if t == "F": return "f"
    if t == "N": return "n%s:%d" % (d["k"], d["m"])
    if t == "S": return "s" + ".".join(str(x) for x in d["s"])
    if t == "A": return "[" + ";".join(pdoc(x) for x in d["e"]) + "]"
    if t == "O": return "{" + ";".join("%d=%s" % (m["k"], pdoc(m["v"])) for m in d["m"]) + "}"
    raise ValueError(t)


def write_graph(dot, path):
    nodes, edges, inits = vf.parse_dot(dot)
    with open(path, "w") as f:
        for i in inits:
            f.write("I %s\n" % i)
        for n, st in nodes.items():
            f.write("N %s %s\n" % (n, "|".join(pdoc(d) for d in st["doc"])))
        for s, lab, d in edges:
            f.write("E %s %s %s\n" % (s, lab.replace(" ", ""), d))
    return len(nodes), len(edges)


def main():
    c = vf.Check("C12")
    (asan,) = c.build("h_value.asan")
    cfg, tables, mw = ("QValue_small", "small", 4) if c.thorough else ("QValue_w3", "small", 3)
    dot = os.path.join(c.out, "value.dot")
    r = c.tlc("QValue", cfg, dump=dot, timeout=3000, xmx="16g")
    c.expect_holds(r, cfg)
    g = os.path.join(c.out, "value.graph")
    n, e = write_graph(dot, g)
    os.remove(dot)
    c.log("graph: %d nodes %d edges" % (n, e))
    walk.run_walker(c, lambda skip: [asan, "walk", g, tables, str(mw), skip], "value-walk", timeout=3000)
    c.count(distinct_keys=[("edge", i) for i in range(e)])
    if c.thorough:
        r = c.tlc("QValue", "QValue_mid", timeout=3400, xmx="24g", simulate=200000, depth=12)
        c.expect_holds(r, "QValue_mid (simulation)")

    nh, ns = (600, 120) if c.thorough else (300, 100)
    trace = os.path.join(c.out, "value.ndjson")
    rc, out, err = c.run([asan, "record", str(c.seed), str(nh), str(ns), trace], timeout=1500)
    if c.harness_ok("value-record", rc, out, err, {"argv": [asan, "record", c.seed, nh, ns]}):
        for ln in out.splitlines():
            if ln.startswith("LEDGER"):
                kv = dict(x.split("=") for x in ln.split()[1:])
                if int(kv["live"]) != 0 or int(kv["badfree"]) != 0:
                    c.violation("value-record ledger " + ln, {"kind": "ledger", "line": ln})
    if os.path.exists(trace):
        evs = vf.read_ndjson(trace)
        r = c.tlc("TraceQValue", env={"TRACE": trace}, workers=1, timeout=2400, xss="512m", xmx="16g")
        if not r.ok():
            l = (r.last_state or {}).get("l", 0)
            e = evs[l - 1] if 0 < l <= len(evs) else {}
            c.violation("value-trace rejected op=%s path=%s x=%s src=%s mv=%s" % (e.get("op"), e.get("path"), pdoc(e["x"]) if isinstance(e.get("x"), dict) else e.get("n"), e.get("src"), e.get("mv")),
                        {"kind": "trace", "line": l, "events_up_to_rejection": evs[max(0, l - 5):l], "violated": r.violated,
                         "spec_state_before": (r.last_state or {}).get("doc")})
        else:
            c.count(n_eval=len(evs), validated=sum(1 for e in evs if e["op"] == "init"),
                    distinct_keys=[(e["op"], str(e.get("path")), str(e.get("x")), str(e.get("docs", e.get("ret")))) for e in evs])
        for e in evs[7:3000:700]:
            c.sample(e)
    # pointer-to-value: every read through a pointer is the read of its target (OraclePtr, QValue's coercion rules)
    pp = os.path.join(c.out, "ptr.ndjson")
    rc, out, err = c.run([asan, "ptr", str(c.seed), "60000" if c.thorough else "6000", pp], timeout=900)
    if c.harness_ok("value-pointer-views", rc, out, err):
        c.oracle("OraclePtr", pp, "OraclePtr", lambda e: "value pointer-to-value read differs from its target t=%s views=%s gi=%s gd=%s gb=%s nt=%s size=%s/%s eq=%s" % (
            pdoc(e["t"]), [pdoc(v) for v in e["views"]], e["gi"], e["gd"], e["gb"], e["nt"], e["size"], e["tsize"], e["eq"]), timeout=1200)
    if os.path.exists(pp):
        os.remove(pp)
    # operations whose source lives inside the value they change; values built over dirty memory; kind changes by tag (OracleAlias)
    pa = os.path.join(c.out, "alias.ndjson")
    rc, out, err = c.run([asan, "alias", pa], timeout=600)
    if c.harness_ok("value-alias", rc, out, err):
        c.oracle("OracleAlias", pa, "OracleAlias", lambda e: "value alias kind=%s i=%s dst=%s src=%s after=%s" % (e["kind"], e["i"], pdoc(e["dst"]), pdoc(e["src"]), pdoc(e["after"])), timeout=600)
    c.finish(rule="spec->code: every (state, action-label) pair of the QValue graph (2 roots, 4 paths incl. a two-step path, 4 literals, "
                  "weight <= %d, depth <= 2) on two real Value<char> roots, overloads rotated; code->spec: random histories (paths <= 3 "
                  "steps over 4 keys incl. the empty key and 3 indices, literals of every kind, copy/move/merge/append between roots, reads "
                  "with typed getters) validated line by line by TraceQValue; distinct = graph edges + distinct (op,path,arg,result) events" % mw,
             assumptions=["positional access into objects holding removed entries is not generated (outside the contract)",
                          "reals are k/2 so that every logged number is an exact small integer",
                          "pointer-to-value members are exercised by C15 (comparisons) and the template checks, not here"],
             exhaustive=False)


vf.main_wrap(main)
