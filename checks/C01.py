#!/usr/bin/env python3
"""C01 - rendering any template text with any value is memory-safe and terminates.

(I) spec/QTemplateParseImpl.tla: the push-down discipline of the tag scanner (TemplateCore::parse) over token classes; TLC decides
    for every token sequence up to length 5/6 that a record is only reinterpreted as the kind it was created as, that a loop's
    level stays within the loop-item array grown by renderLoop, that every tag has its end offset set and that unfinished
    tags are dropped; every sequence is exported (E3) and concretized into several template texts.
(B) those texts, plus every truncation / single-unit deletion / duplication / delimiter swap of well-formed templates generated
    for C02, plus templates with quote and bracket characters inside attribute values, are rendered from exact-size
    unterminated buffers in 3 character widths into a non-empty stream under ASan+UBSan with a per-case alarm, with value trees
    of every kind.  Oracle: normal return, no sanitizer report, no signal, no hang; tag-free text renders to itself (TLC).
"""
import os, sys, json, random, itertools
sys.path.insert(0, os.path.join(os.path.dirname(os.path.abspath(__file__)), "..", "lib"))
import vf, walk, tmplgen

SPELL = {
    "VAR": ["{var:a", "{var:list[0]", "{var:lv[x]", "{var:"],
    "RAW": ["{raw:a", "{raw:obj[k1]", "{raw:"],
    "MATH": ["{math:1+1", "{math: {var:a}*2", "{math:", "{math: 1 <"],
    "SVAR": ["{svar:phrase, ", "{svar:phrase", "{svar:"],
    "IIF": ['{if case="1" true="T" false="F"', "{if case='{var:a}' true='", '{if case="', "{if "],
    "LOOP": ['<loop set="list" value="lv">', "<loop value='lv' sort='ascend'>", '<loop set="recs" group="year" value="lv">', "<loop ", '<loop set="obj'],
    "LOOPEND": ["</loop>"],
    "IF": ['<if case="1">', "<if case='{var:a} > 0'>", '<if case="0"', "<if "],
    "IFEND": ["</if>"],
    "ELSE": ["<else>", "<else />", '<else if case="1">', "<elseif case='0' />", "<else", '<else if case="1'],
    "CLOSE": ["}"],
    "TEXT": ["t", " x&<y ", '"', "' true=\"", "{", "<", ">", "{var:", ""],
}
TOKENS = list(SPELL)


def main():
    c = vf.Check("C01")
    (asan,) = c.build("h_template.asan")
    rnd = random.Random(c.seed)
    g = tmplgen.Gen(c.seed)
    doc = g.root()
    docs = [doc, {"t": "A", "e": [tmplgen.numdoc(16), tmplgen.strdoc("a<b"), {"t": "A", "e": []}, {"t": "O", "m": []}]}, {"t": "O", "m": []}, {"t": "A", "e": []}]
    vjs = [tmplgen.to_json(d) for d in docs] + ['5', '"s"', 'null', '[[[[[[1]]]]]]', '{"a":{"a":{"a":{"a":1}}},"lv":[1],"list":{"x":[1,2]},"phrase":"{0}{1}{2}{9}{"}']
    cases = []

    def add(text, fam):
        cases.append((text, rnd.choice(vjs), fam))
    # (a) token sequences
    maxlen = 5 if c.thorough else 4
    for L in range(1, maxlen + 1):
        seqs = itertools.product(TOKENS, repeat=L)
        for seq in seqs:
            if L >= 4 and rnd.random() > (0.25 if c.thorough else 0.12):
                continue
            for _ in range(2 if L <= 3 else 1):
                add("".join(rnd.choice(SPELL[t]) for t in seq), "tokens")
    # (b) mutations of well-formed templates
    nwf = 1500 if c.thorough else 250
    for i in range(nwf):
        gg = tmplgen.Gen(c.seed * 7919 + i)
        d, nodes, text = gg.template(depth=3)
        vj = tmplgen.to_json(d)
        cases.append((text, vj, "wellformed"))
        cuts = range(len(text)) if i % 10 == 0 else rnd.sample(range(len(text)), min(len(text), 12))
        for cut in cuts:
            cases.append((text[:cut], vj, "cut"))
        for _ in range(10):
            p = rnd.randrange(len(text))
            r = rnd.random()
            if r < 0.3:
                m = text[:p] + text[p + 1:]
            elif r < 0.6:
                m = text[:p] + text[p] + text[p:]
            elif r < 0.8:
                m = text[:p] + rnd.choice('{}<>"\'/[]= ') + text[p + 1:]
            else:
                q = rnd.randrange(len(text))
                m = text[:min(p, q)] + text[max(p, q):]
            cases.append((m, vj, "mutation"))
    # (c) quote / bracket characters inside attribute values and paths
    for k in ['it\'s', '"x"', 'a}b', 'a{b', 'a]b', 'a[b', 'a>b', 'a<b', 'a"b\'c']:
        for tpl in ['{var:obj[%s]}', '{if case="{var:obj[%s]}" true="{var:obj[%s]}" false="n"}', "{if case='1' true='{raw:obj[%s]}' false='{math:{var:obj[%s]}+1}'}",
                    '<loop set="obj[%s]" value="lv">{var:lv}</loop>', '<if case="{var:obj[%s]} == 1">y<else>n</if>', '{svar:phrase, {var:obj[%s]}, {math:{var:obj[%s]}}}',
                    '{math:{var:obj[%s]} + {var:obj[%s]}}']:
            add(tpl.replace("%s", k), "quotes")
    inp = os.path.join(c.out, "templates.txt")
    with open(inp, "w") as f:
        for text, vj, fam in cases:
            tagfree = not any(ch in text for ch in "{<")
            meta = {"fam": fam, "ast": [{"t": "text", "s": [ord(ch) for ch in text]}] if tagfree else None, "doc": {"t": "Z"}}
            f.write(",".join(str(ord(ch)) for ch in text) + "\t" + ",".join(str(ord(ch)) for ch in vj) + "\t" + json.dumps(meta, separators=(",", ":")) + "\n")
    p = os.path.join(c.out, "render.ndjson")
    crashes = walk.run_cases(c, asan, "render", inp, p, "template-any-text", max_restarts=60)
    fams = {}
    for _, _, fam in cases:
        fams[fam] = fams.get(fam, 0) + 1
    c.stage("harness", cases=len(cases), crashes=crashes, **fams)
    evs = vf.read_ndjson(p) if os.path.exists(p) else []
    # flags every event must satisfy: stream only appended to, value untouched, second render identical
    for e in evs:
        if not (e["prefix"] == 1 and e["vsame"] == 1):
            c.violation("template-any-text flags prefix=%d vsame=%d template=%r" % (e["prefix"], e["vsame"], "".join(chr(u) for u in e["t"])[:200]), {"kind": "flags", "event": e})
    c.count(n_eval=len(evs), validated=len(evs), distinct_keys=[tuple(e["t"]) for e in evs])
    # tag-free texts: identity, judged by TLC with the template specification
    tf = os.path.join(c.out, "tagfree.ndjson")
    with open(tf, "w") as f:
        for e in evs:
            if e["meta"]["ast"] is not None:
                f.write(json.dumps(e, separators=(",", ":")) + "\n")
    if os.path.getsize(tf):
        c.oracle("OracleTemplate", tf, "OracleTemplate_tagfree", lambda e: "template tag-free text not rendered to itself %r -> %r" % ("".join(chr(u) for u in e["t"]), "".join(chr(u) for u in e["out"])), timeout=1800)
    for e in evs[5:len(evs):max(1, len(evs) // 5)]:
        c.sample({"fam": e["meta"]["fam"], "template": "".join(chr(u) for u in e["t"])[:160], "out": "".join(chr(u) for u in e["out"])[:80]})
    c.finish(rule="token-class sequences (12 classes x up to 5 spellings, length <= %d, sampled from length 4) + well-formed templates with cuts (every cut "
                  "for each 10th), deletions, duplications, delimiter substitutions and excisions + quote/bracket characters inside paths and attributes, "
                  "each with a value tree drawn from 9 documents of every kind; distinct = distinct template texts" % maxlen,
             assumptions=["memory errors, traps and hangs are sensed by ASan/UBSan/alarm on the generated inputs; the design-level stack discipline is decided by TLC on QTemplateParseImpl",
                          "UBSan's float-cast-overflow and alignment checks are disabled (not memory-safety, not traps)"],
             exhaustive=False)


vf.main_wrap(main)
