#!/usr/bin/env python3
"""C01 - rendering any template text with any value is memory-safe and terminates.

(I) spec/QTemplateParseImpl.tla: the push-down discipline of the tag scanner (TemplateCore::parse): the scanner's locals (tag
    tree, container stack, current container, innermost loop, is_child) and one action per case of its switch.  TLC decides for
    every token sequence up to length 6 (quick) / 8 (thorough) that no null tag is dereferenced, that storage and the stack only
    refer to live containers (an <else> relocates the case containers), that loop_tag and every Parent reachable from it are
    live loop records, that after the clean-up every record has its end offset, that a record only copies the level of a loop
    that encloses it and that a loop's level is its depth.  The scanner's two earlier behaviours (variants of the same spec)
    must be rejected by the same invariants.
(F) spec/QFinder.tla: text -> tokens.  Scan(text, from) specifies the multi-pattern scanner over the template word list; the
    transcription of Finder::Next (last unit first, units in between, offset restored on failure) is checked against it for every
    text up to length 6-7 over five alphabets that spell every word, with every buffer read in bounds; the real Finder is run on the
    same texts (3 widths, exact-size buffers, ASan) and on texts glued from word fragments, and TLC (OracleFinder) judges every
    recorded match sequence.
(T) spec/QTagTree.tla: what the renderer trusts about a parsed tag tree (records of a container lie one after the other inside the
    container's text range; the ranges of loop contents, <if> cases, super-variable and inline-if texts lie inside their record);
    TLC (OracleTagTree) checks it on the tree the real scanner built for every generated text.
(B1) code -> spec (E4, hook H2): the real scanner reports its complete projected state before every dispatched token; TLC
    (TraceQTemplateParse) accepts a step only if the model has a transition for that token from the logged state to the state
    logged next, and evaluates the invariants in every recorded state.  A step the model does not have is model drift (reported in
    the evidence, the transcription must be brought up to date) - not a verdict on C01; a loop_tag / storage / parent_storage
    pointer that the hook cannot find in the live tag tree is a violation whatever the model says.
(B2) the generated texts - token-class sequences in several spellings, every truncation / deletion / duplication / delimiter
    swap of well-formed templates generated for C02, quote and bracket characters inside attribute values, nests 300 and 600
    deep (beyond the 8-bit level) - are rendered from exact-size unterminated buffers in 4 character widths into a non-empty
    stream under ASan+UBSan with a per-case alarm, in the SSE2, scalar, AVX2 and auto-escape-off builds, with value trees of
    every kind.  Oracle: normal return, no sanitizer report, no signal, no hang; tag-free text renders to itself (TLC).
"""
import os, sys, json, random, itertools, collections, concurrent.futures
sys.path.insert(0, os.path.join(os.path.dirname(os.path.abspath(__file__)), "..", "lib"))
import re
import vf, walk, tmplgen

SPELL = {
    "VAR": ["{var:a", "{var:list[0]", "{var:lv[x]", "{var:", "{var:lv]", "{var:a]", "{var:]", "{var:a[", "{var:lv[0]]", "{var:a[b]c]", "{var:[", "{var:lv[]"],
    "RAW": ["{raw:a", "{raw:obj[k1]", "{raw:", "{raw:lv]", "{raw:]"],
    "MATH": ["{math:1+1", "{math: {var:a}*2", "{math:", "{math: 1 <", "{math:{var:lv]}+1", "{math:{var:a]"],
    "SVAR": ["{svar:phrase, ", "{svar:phrase", "{svar:"],
    "IIF": ['{if case="1" true="T" false="F"', "{if case='{var:a}' true='", '{if case="', "{if "],
    "LOOP": ['<loop set="list" value="lv">', '<loop set="list]" value="lv">', '<loop set="]" value="lv">', "<loop value='lv' sort='ascend'>", '<loop set="recs" group="year" value="lv">', "<loop ", '<loop set="obj'],
    "LOOPEND": ["</loop>"],
    "IF": ['<if case="1">', "<if case='{var:a} > 0'>", '<if case="0"', "<if "],
    "IFEND": ["</if>"],
    "ELSE": ["<else>", "<else />", '<else if case="1">', "<elseif case='0' />", "<else", '<else if case="1'],
    "CLOSE": ["}"],
    "TEXT": ["t", " x&<y ", '"', "' true=\"", "{", "<", ">", "{var:", ""],
}
TOKENS = list(SPELL)


def model(c):
    r = c.tlc("QTemplateParseImpl", "QTemplateParseImpl_8" if c.thorough else "QTemplateParseImpl_6", timeout=3400, xmx="24g")
    c.expect_holds(r, "QTemplateParseImpl: NoBad PsLive ChainLive AllClosedAtEnd LoopsEnclose LevelIsDepth")
    # the invariants are not vacuous: the scanner's earlier behaviours are rejected
    for cfg, inv in (("QTemplateParseImpl_old_else", "ChainLive"), ("QTemplateParseImpl_old_loopend", "NoBad")):
        r = c.tlc("QTemplateParseImpl", cfg, timeout=900, workers=4)
        if not r.violated:       # (which invariant TLC reports first depends on the worker schedule; `inv` is the expected one)
            raise vf.MachineryError("%s: the earlier scanner behaviour is not rejected (expected %s)" % (cfg, inv))


FINDER_CFGS = [("if", "123,125,60,62,47,105,102", 6, 7), ("var", "123,118,97,114,58,125,115", 6, 7), ("loop", "60,47,108,111,112,62", 7, 8),
               ("math", "123,109,97,116,104,58,114,119", 6, 7), ("else", "60,101,108,115,47,105,102", 6, 7)]


def finder(c, fbin):
    """text -> tokens: QFinder (Scan, and the transcription of Finder::Next checked against it) and the real Finder on the same texts"""
    for name, alpha, q, t in (FINDER_CFGS if c.thorough else FINDER_CFGS[:3]):
        r = c.tlc("QFinder", "QFinder_%s_%s" % (name, "t" if c.thorough else "q"), timeout=3000, xmx="16g")
        c.expect_holds(r, "QFinder[%s]: InBounds Agrees BackOnlyToStart" % name)
        p = os.path.join(c.out, "finder_%s.ndjson" % name)
        n = (t if c.thorough else q) - 1           # the real scanner on every text one unit shorter than the model bound
        rc, out, err = c.run([fbin, "enum", alpha, str(n), p], timeout=1500)
        if c.harness_ok("finder-enum[%s]" % name, rc, out, err):
            c.oracle("OracleFinder", p, "OracleFinder_" + name, lambda e: "finder text=%r matches=%s" % ("".join(chr(u) for u in e["s"]), e["m"]), timeout=3000, xmx="16g")
        if os.path.exists(p):
            os.remove(p)
    r = c.tlc("QFinder", "QFinder_live", timeout=900, workers=8)
    c.expect_holds(r, "QFinder: CallReturns (every call of Next() returns, under weak fairness)")
    p = os.path.join(c.out, "finder_random.ndjson")
    rc, out, err = c.run([fbin, "random", str(c.seed), "400000" if c.thorough else "40000", p], timeout=1500)
    if c.harness_ok("finder-random", rc, out, err):
        c.oracle("OracleFinder", p, "OracleFinder_random", lambda e: "finder text=%r matches=%s" % ("".join(chr(u) for u in e["s"]), e["m"]), timeout=3000, xmx="16g")
    if os.path.exists(p):
        os.remove(p)


def validate_traces(c, xasan, inp, cases):
    """code -> spec: hook H2 events of every case with at most `cap` events, validated by TLC in parallel chunks."""
    p = os.path.join(c.out, "parse.ndjson")
    crashes = walk.run_cases(c, xasan, "parse", inp, p, "template-any-text", max_restarts=60)
    per = collections.OrderedDict()
    ft = os.path.join(c.out, "tagtrees.ndjson")
    nfinal = 0
    with open(p) as f, open(ft, "w") as g:
        for ln in f:
            if ln.startswith('{"final"'):      # the finished tag tree of the case: judged by OracleTagTree
                g.write(ln)
                nfinal += 1
                continue
            per.setdefault(int(ln[5:ln.index(",")]), []).append(ln)
    os.remove(p)
    if nfinal:
        c.oracle("OracleTagTree", ft, "OracleTagTree", lambda e: "template-tag-tree not well-formed (a record outside its range / out of order): template=%r tree=%s" % (
            cases[e["c"]][0][:200], json.dumps(e["tree"])[:300]), timeout=3000, xmx="16g", xss="256m")
    os.remove(ft)
    cap = 60 if c.thorough else 24
    sel = [k for k in per if len(per[k]) <= cap]
    nchunks = 16
    chunks = [[] for _ in range(nchunks)]
    for i, k in enumerate(sel):
        chunks[i % nchunks].append(k)
    toks = collections.Counter()
    mismatches = []
    # model-independent: the hook looks loop_tag, storage and every parent_storage entry up in the live tag tree; [-1] = not there
    for k, lines in per.items():
        for ln in lines:
            if '"tok":12,' in ln:
                continue       # after the final clean-up loop_tag is dead (never read again): QTemplateParseImpl.ChainLive is for the scan phase too
            if '"lt":[-1]' in ln or '"cur":[-1]' in ln or '[-1]' in ln[ln.index('"ps":'):ln.index('"cur":')]:
                e = json.loads(ln)
                what = "loop_tag" if e["lt"] == [-1] else ("storage" if e["cur"] == [-1] else "parent_storage")
                c.violation("template-scanner dangling pointer: %s refers to a record that is not in the tag tree any more (token %d, event %d) template=%r" % (
                    what, e["tok"], e["i"], cases[k][0][:200]), {"kind": "dangling", "case": k, "event": e, "template": cases[k][0], "value": cases[k][1]})
                break

    def job(i):
        tp = os.path.join(c.out, "parse_%d.ndjson" % i)
        n = 0
        with open(tp, "w") as f:
            for k in chunks[i]:
                f.writelines(per[k])
                n += len(per[k])
        if n == 0:
            return i, None, 0
        r = c.tlc("TraceQTemplateParse", env={"TRACE": tp}, workers=1, timeout=3000, xmx="3g", xss="256m", name="TraceQTemplateParse_%d" % i, quiet=True)
        os.remove(tp)
        return i, r, n
    total = 0
    with concurrent.futures.ThreadPoolExecutor(max_workers=nchunks) as ex:
        for i, r, n in ex.map(job, range(nchunks)):
            if r is None:
                continue
            total += n
            if r.violated:
                st = r.last_state or {}
                c.violation("template-scanner invariant %s violated in a recorded state (chunk %d)" % (",".join(r.violated), i), {"kind": "trace-invariant", "violated": r.violated, "last_state": st})
            ended = False
            for ln in r.prints:
                v = vf.parse_tla_value(ln)
                if v[0] == "TRACE-END":
                    ended = v[1] == n
                elif v[0] == "MISMATCH":
                    # the real scanner took a step the transcription does not have: the transcription is out of date (model drift, listed
                    # in the evidence) - by itself not a violation of C01; dangling pointers in the logged state are judged below
                    text, vj, fam = cases[v[1]]
                    mismatches.append(v[1])
                    c.drift.append({"spec": "QTemplateParseImpl", "why": v[3] if len(v) > 3 else "final state", "event": v[2], "template": text[:300]})
                elif v[0] == "TRUNCATED":
                    pass   # the crash that cut the case short was reported by run_cases
            if not ended and not r.violated:
                raise vf.MachineryError("trace chunk %d was not consumed to its end" % i)
    for k in sel:
        for ln in per[k]:
            toks[int(ln[ln.index('"tok":') + 6:ln.index(',"tree"')])] += 1
    c.count(n_eval=len(sel), validated=total)
    c.stage("trace-validation", cases=len(sel), skipped_long=len(per) - len(sel), events=total, crashes=crashes, steps_unknown_to_the_model=len(mismatches),
            tokens={str(k): v for k, v in sorted(toks.items())})


def deep_recursion(c, asan):
    """Known finding: rendering (and destroying) a tag tree recurses once per nesting level."""
    inp = os.path.join(c.out, "deepstack.txt")
    with open(inp, "w") as f:
        for text in ('<if case="1">' * 40000 + "x" + "</if>" * 40000, '<loop set="v" value="w">' * 40000 + "x" + "</loop>" * 40000,
                     "{math:" + "(" * 40000 + "1" + ")" * 40000 + "}"):       # (the expression parser recurses once per parenthesis)
            f.write(",".join(str(ord(ch)) for ch in text) + "\t" + ",".join(str(ord(ch)) for ch in '{"v":[[1]]}') + "\t" + '{"fam":"deepstack","ast":null,"doc":{"t":"Z"}}' + "\n")
    out = os.path.join(c.out, "deepstack.ndjson")
    start = 0
    n = 0
    for attempt in range(4):
        rc, o, err = c.run(["bash", "-c", 'ulimit -s 8192; exec "$0" render "$1" "$2" "$3"', asan, inp, out, str(start)], timeout=600)
        lines = o.strip().splitlines()
        if lines and lines[-1] == "DONE":
            break
        m = None
        for ln in reversed(lines):
            m = re.match(r"(CRASH|HANG) (-?\d+) (-?\d+) ?(.*)", ln)
            if m:
                break
        if not m:
            c.harness_ok("template-deep-nesting-40000", rc, o, err, {})
            break
        san = re.search(r"AddressSanitizer: ([a-z-]+)", err or "")
        c.violation("template-deep-nesting-40000 %s: %s | %s" % (m.group(1), san.group(1) if san else "signal " + m.group(3), m.group(4)[:60]),
                    {"kind": "crash", "case": int(m.group(2)), "stderr": (err or "")[-2000:]})
        n += 1
        start = int(m.group(2)) + 1
    c.count(n_eval=3, validated=3)
    c.stage("deep-recursion", cases=2, crashes=n)
    for q in (inp, out):
        if os.path.exists(q):
            os.remove(q)


def gen_cases(c):
    """the malformed / mutated / deep template texts with a value each: list of (text, value json, family)"""
    rnd = random.Random(c.seed)
    g = tmplgen.Gen(c.seed)
    doc = g.root()
    docs = [doc, {"t": "A", "e": [tmplgen.numdoc(16), tmplgen.strdoc("a<b"), {"t": "A", "e": []}, {"t": "O", "m": []}]}, {"t": "O", "m": []}, {"t": "A", "e": []}]
    vjs = [tmplgen.to_json(d) for d in docs] + ['5', '"s"', 'null', '[[[[[[1]]]]]]', '{"a":{"a":{"a":{"a":1}}},"lv":[1],"list":{"x":[1,2]},"phrase":"{0}{1}{2}{9}{"}']
    cases = []

    def add(text, fam):
        cases.append((text, rnd.choice(vjs), fam))
    # (a) token sequences
    maxlen = 5 if c.thorough else 4
    for L in range(1, maxlen + 1):
        seqs = itertools.product(TOKENS, repeat=L)
        for seq in seqs:
            if L >= 4 and rnd.random() > (0.25 if c.thorough else 0.12):
                continue
            for _ in range(2 if L <= 3 else 1):
                add("".join(rnd.choice(SPELL[t]) for t in seq), "tokens")
    # (a') spec -> code (E2): one token path for every distinct state of the scanner model (QTemplateParseImpl, the first path TLC found to
    #      the state), spelled with well-formed and malformed variants of each token - the real scanner is driven to every state of the model
    r = c.tlc("QTemplateParseImpl", "QTemplateParseImpl_export6" if c.thorough else "QTemplateParseImpl_export5", timeout=3000, xmx="16g", quiet=True)
    paths = sorted(set(tuple(t[1]) for t in r.tuples("PATH")))
    if len(paths) < 1000:
        raise vf.MachineryError("the scanner model exported only %d token paths" % len(paths))
    for path in paths:
        for _ in range(2):
            text = ""
            for tok in path:
                if tok == "VAR" and rnd.random() < 0.4:
                    tok = "RAW"
                text += rnd.choice(SPELL[tok])
                if rnd.random() < 0.15:
                    text += rnd.choice(SPELL["TEXT"])
            add(text, "model-paths")
    # (b) mutations of well-formed templates
    nwf = 1500 if c.thorough else 250
    for i in range(nwf):
        gg = tmplgen.Gen(c.seed * 7919 + i)
        d, nodes, text = gg.template(depth=3)
        vj = tmplgen.to_json(d)
        cases.append((text, vj, "wellformed"))
        cuts = range(len(text)) if i % 10 == 0 else rnd.sample(range(len(text)), min(len(text), 12))
        for cut in cuts:
            cases.append((text[:cut], vj, "cut"))
        for _ in range(10):
            p = rnd.randrange(len(text))
            r = rnd.random()
            if r < 0.3:
                m = text[:p] + text[p + 1:]
            elif r < 0.6:
                m = text[:p] + text[p] + text[p:]
            elif r < 0.8:
                m = text[:p] + rnd.choice('{}<>"\'/[]= ') + text[p + 1:]
            else:
                q = rnd.randrange(len(text))
                m = text[:min(p, q)] + text[max(p, q):]
            cases.append((m, vj, "mutation"))
    # (c) quote / bracket characters inside attribute values and paths
    for tail in ["{var:]}", "{var:a]}", "{var:a[b]]}", "{raw:]}", '<loop value="lv">{var:lv]}', '<loop value="lv">{var:lv]}</loop>', "{math:{var:]}}", '{if case="{var:a]}" true="1"}',
                 "{svar:phrase, {var:]}}", '<if case="{var:]}">', "{var:lv[0]]}"]:
        for pre in ["", "x", '<loop set="list" value="lv">']:
            for vjx in ['{"]":1,"a]":2,"a":{"b":3},"lv":[4],"list":[[5]],"phrase":"{0}"}', '{"a":1}']:
                cases.append((pre + tail, vjx, "brackets"))
    for k in ['it\'s', '"x"', 'a}b', 'a{b', 'a]b', 'a[b', 'a>b', 'a<b', 'a"b\'c']:
        for tpl in ['{var:obj[%s]}', '{if case="{var:obj[%s]}" true="{var:obj[%s]}" false="n"}', "{if case='1' true='{raw:obj[%s]}' false='{math:{var:obj[%s]}+1}'}",
                    '<loop set="obj[%s]" value="lv">{var:lv}</loop>', '<if case="{var:obj[%s]} == 1">y<else>n</if>', '{svar:phrase, {var:obj[%s]}, {math:{var:obj[%s]}}}',
                    '{math:{var:obj[%s]} + {var:obj[%s]}}']:
            add(tpl.replace("%s", k), "quotes")
    # (h) a loop at nesting depth 254..258 (the level fields have eight bits) whose items live in a temporary copy (sort / group), below an
    #     outer loop whose variable is used afterwards; mixes of <if> and <loop> as the enclosing tags
    for depth in (253, 254, 255, 256, 257, 258, 511, 512):
        for inner in ('<loop set="b" value="w" sort="ascend">{var:w}</loop>', '<loop set="r" value="w" group="y">{var:w}</loop>', '<loop set="b" value="w">{var:w}</loop>'):
            for mix in (0, 1):
                opn = "".join(('<if case="1">' if (mix == 0 or i % 2) else '<loop set="one" value="u%d">' % (i % 7)) for i in range(depth))
                cls = "".join(("</if>" if (mix == 0 or i % 2) else "</loop>") for i in reversed(range(depth)))
                cases.append(('<loop set="a" value="v">' + opn + inner + cls + "[{var:v}]</loop>", '{"a":["x","y"],"b":[3,1,2],"one":[1],"r":[{"y":1,"m":2},{"y":2,"m":3}]}', "level256"))
    # (i) reals whose rounding carries out of the most significant digit (0.0075 at the engine's precision), printed into streams of every
    #     fill level (the carry digit is stored behind the digits)
    for x in ("0.0075", "0.005", "0.0099", "0.00999", "0.095", "0.995", "9.995", "99.995", "999.9951", "0.0949999", "-0.0075"):
        for pad in list(range(0, 20)) + [28, 29, 30, 31, 60, 61, 62, 63]:
            cases.append(("a" * pad + "{math:%s}" % x, '{"a":1}', "carry"))
            cases.append(("a" * pad + "{var:x}{raw:x}", '{"x":%s}' % x, "carry"))
    # (g) unresolved tags whose echoed source ends in an entity look-alike, as the LAST thing of the buffer (the escaper looks ahead)
    for nm in ["R&D1", "a&", "a&b", "a&bc", "a&bcd", "&lt", "&am", "&amp", "&quo", "&apo", "&apos", "x&lt;", "<&>", "a'b\"&", "&", "&&&&", "a&l", "a&g", "a&q"]:
        for tpl in ("{var:%s}", "Dept: {var:%s}", "{var:%s[0]}", '<loop set="list" value="v">{var:v[%s]}</loop>', "{svar:phrase, {var:%s}}", '{if case="1" true="{var:%s}"}'):
            cases.append((tpl.replace("%s", nm), '{"name":"Qentem","list":[1],"phrase":"{0}"}', "echo"))
    # (f) expressions that end (or begin) in an operator character, with EVERY kind of unit as the attribute's quote: the scanner takes
    #     whatever unit follows `case=` as the quote, so the unit behind the expression can be an operator character itself
    #     (`<if case==1>=>x</if>` made `>` + quote a `>=` without right operand: 47b169e)
    quotes = ['"', "'", "=", "|", "&", ">", "<", "!", "+", "-", "*", "/", "%", "^", "(", ")", "[", "]", "{", "}", " ", "0", "a"]
    tails = ["1>", "1<", "1!", "1=", "1|", "1&", "1+", "1-", "1*", "1/", "1%", "1^", "(1", "1)", "1>=", "1==", "1&&", "1||", "{var:a}>", "{var:a}=", ">", "=", "|", "", "1 >", "a[", "1 ==", "1>1", "2^"]
    for q in quotes:
        for e in tails:
            for tpl in ("<if case=%q%e%q>x</if>", "<if case=%q1%q>a<elseif case=%q%e%q />b</if>", "{if case=%q%e%q true=%qy%q}", "<if case=%q%e%q>"):
                cases.append((tpl.replace("%q", q).replace("%e", e), '{"a":1}', "optail"))
    for e in tails:
        cases.append(("{math:%s}" % e, '{"a":1}', "optail"))
        cases.append(("{math:%s" % e, '{"a":1}', "optail"))
    # (e) names, attribute values and tags around the limits of the 8 / 16-bit fields that hold their lengths and offsets
    for n in (253, 254, 255, 256, 257, 511, 512, 513, 65534, 65535, 65536, 65537):
        name = ("k" * n)
        vjn = '{"%s":7,"list":[1,2],"phrase":"{0}"}' % name if n <= 600 else '{"list":[1,2],"phrase":"{0}"}'
        for tpl in ("{var:%s}", "{raw:%s}", "x{var:%s}y{var:%s}", "{math:{var:%s}+1}", '{if case="{var:%s}" true="{var:%s}" false="F"}', "{svar:%s, {var:list[0]}}", "{svar:phrase, {var:%s}}",
                    '<loop set="%s" value="v">{var:v}</loop>', '<loop set="list" value="%s">{var:%s}</loop>', '<if case="{var:%s} > 1">y<else>n</if>', "{var:list[%s]}", "{var:%s[0]}",
                    '<loop set="list" value="v" group="%s">{var:v}</loop>', '{if case="1" true="%s" false="%s"}', '{if case="1" true="a" false="b" %s}'):
            if n > 600 and tpl.count("%s") > 1:
                continue
            cases.append((tpl.replace("%s", name), vjn, "limits"))
    # (d) nests deeper than the 8-bit level and than the initial stacks
    for depth in (300, 600):
        for opn, cls, vj in (('<loop set="nest" value="lv">', "</loop>", '{"nest":[[[[1]]]],"a":1,"phrase":"{0}","lv":[2]}'), ('<if case="1">', "</if>", '{"a":1,"lv":[2]}'),
                             ('<if case="0">a<else>', "</if>", '{"a":1,"lv":[2]}'), ("{svar:phrase, ", "}", '{"a":1,"phrase":"{0}","lv":[2]}'),
                             ('{if case="1" true="', '" false="F"}', '{"a":1,"lv":[2]}'),
                             ('<loop value="lv"><if case="1">', "</if></loop>", '{"lv":[2]}')):      # (a loop without set= walks the root: one member, or the work is members^depth)
            cases.append((opn * depth + "{var:lv}{var:a}" + cls * depth, vj, "deep"))
            cases.append((opn * depth + "{var:lv}", vj, "deep"))
            cases.append((opn * depth + "}<else {var:lv}</loop></if>" + cls * (depth // 2), vj, "deep"))
    return cases


def write_cases(path, cases):
    with open(path, "w") as f:
        for text, vj, fam in cases:
            tagfree = not any(ch in text for ch in "{<")
            meta = {"fam": fam, "ast": [{"t": "text", "s": [ord(ch) for ch in text]}] if tagfree else None, "doc": {"t": "Z"}}
            f.write(",".join(str(ord(ch)) for ch in text) + "\t" + ",".join(str(ord(ch)) for ch in vj) + "\t" + json.dumps(meta, separators=(",", ":")) + "\n")


def main():
    c = vf.Check("C01")
    asan, xasan, scalar, avx2, noesc, fbin = c.build("h_template.asan", "h_template.xasan", "h_template.asan_scalar", "h_template.asan_avx2", "h_template.asan_noesc", "h_finder.asan")
    model(c)
    finder(c, fbin)
    cases = gen_cases(c)
    maxlen = 5 if c.thorough else 4
    inp = os.path.join(c.out, "templates.txt")
    write_cases(inp, cases)
    p = os.path.join(c.out, "render.ndjson")
    crashes = walk.run_cases(c, asan, "render", inp, p, "template-any-text", max_restarts=60)
    # the other builds: scalar, AVX2, auto-escape off (every case in the thorough tier, every third one otherwise)
    for name, binary in (("scalar", scalar), ("avx2", avx2), ("noesc", noesc)):
        sub = os.path.join(c.out, "templates_%s.txt" % name)
        with open(inp) as f, open(sub, "w") as g:
            k = 0
            for i, ln in enumerate(f):
                if c.thorough or i % 3 == 0:
                    g.write(ln)
                    k += 1
        po = os.path.join(c.out, "render_%s.ndjson" % name)
        cr = walk.run_cases(c, binary, "render", sub, po, "template-any-text[%s]" % name, max_restarts=60)
        n_ok = 0
        for e in vf.read_ndjson(po) if os.path.exists(po) else []:
            n_ok += 1
            if not (e["prefix"] == 1 and e["vsame"] == 1):
                c.violation("template-any-text[%s] flags prefix=%d vsame=%d template=%r" % (name, e["prefix"], e["vsame"], "".join(chr(u) for u in e["t"])[:200]), {"kind": "flags", "build": name, "event": e})
        c.count(n_eval=n_ok, validated=n_ok)
        c.stage("harness-" + name, cases=k, crashes=cr)
        os.remove(po)
        os.remove(sub)
    validate_traces(c, xasan, inp, cases)
    deep_recursion(c, asan)
    fams = {}
    for _, _, fam in cases:
        fams[fam] = fams.get(fam, 0) + 1
    c.stage("harness", cases=len(cases), crashes=crashes, **fams)
    evs = vf.read_ndjson(p) if os.path.exists(p) else []
    # flags every event must satisfy: stream only appended to, value untouched, second render identical
    for e in evs:
        if not (e["prefix"] == 1 and e["vsame"] == 1):
            c.violation("template-any-text flags prefix=%d vsame=%d template=%r" % (e["prefix"], e["vsame"], "".join(chr(u) for u in e["t"])[:200]), {"kind": "flags", "event": e})
    c.count(n_eval=len(evs), validated=len(evs), distinct_keys=[tuple(e["t"]) for e in evs])
    # tag-free texts: identity, judged by TLC with the template specification
    tf = os.path.join(c.out, "tagfree.ndjson")
    with open(tf, "w") as f:
        for e in evs:
            if e["meta"]["ast"] is not None:
                f.write(json.dumps(e, separators=(",", ":")) + "\n")
    if os.path.getsize(tf):
        c.oracle("OracleTemplate", tf, "OracleTemplate_tagfree", lambda e: "template tag-free text not rendered to itself %r -> %r" % ("".join(chr(u) for u in e["t"]), "".join(chr(u) for u in e["out"])), timeout=1800)
    for e in evs[5:len(evs):max(1, len(evs) // 5)]:
        c.sample({"fam": e["meta"]["fam"], "template": "".join(chr(u) for u in e["t"])[:160], "out": "".join(chr(u) for u in e["out"])[:80]})
    c.finish(rule="one token path per distinct state of the scanner model (token paths up to length 5 quick / 6 thorough, two spellings each), token-class sequences (12 classes x up to 5 spellings, length <= %d, sampled from length 4) + well-formed templates with cuts (every cut "
                  "for each 10th), deletions, duplications, delimiter substitutions and excisions + quote/bracket characters inside paths and attributes, "
                  "each with a value tree drawn from 9 documents of every kind; distinct = distinct template texts" % maxlen,
             assumptions=["memory errors, traps and hangs are sensed by ASan/UBSan/alarm on the generated inputs; the design-level stack discipline is decided by TLC on QTemplateParseImpl",
                          "UBSan's float-cast-overflow and alignment checks are disabled (not memory-safety, not traps)"],
             exhaustive=False)


if __name__ == "__main__":
    vf.main_wrap(main)
