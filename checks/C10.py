#!/usr/bin/env python3
"""C10 - number to text equals the reference formatting for every value and precision.

(P) spec/QDigitFormat.tla: exact decimal expansion of m*2^e on base-10^4 naturals; Fixed = %.{p}f, SemiFixed = %.{p}f trimmed,
    Default = %.{p}g (half-even on the exact digits), inf / -inf / nan, exact integers of every width.
(B) code -> spec (E5): Digit::NumberToString into a non-empty stream for
      - the _Float16 instantiation: every finite value (thorough) / every 13th (quick) x 3 formats x precisions 0..8 - the same
        realToString template in a configuration small enough for TLC to judge every case;
      - doubles and floats: binade edges, powers of two and ten +-1 ulp, rounding ties at every precision, subnormals, extremes,
        +-0, inf, nan, the known problem values, random patterns x (format, precision 0..20, 40);
      - integers of all widths and signs incl. the minimum values.
    Every event is judged by TLC against the exact reference.  Known findings are identified by their root cause class.
"""
import os, sys, random, struct
sys.path.insert(0, os.path.join(os.path.dirname(os.path.abspath(__file__)), "..", "lib"))
import vf


def f64bits(d):
    return struct.unpack("<Q", struct.pack("<d", d))[0]


def f32bits(f):
    return struct.unpack("<I", struct.pack("<f", f))[0]


def gen(c):
    rnd = random.Random(c.seed)
    L = []
    precs = list(range(0, 21)) + [40]

    def add(kind, bits, fmt=None, p=None):
        L.append("%s %x %d %d" % (kind, bits, rnd.randrange(3) if fmt is None else fmt, rnd.choice(precs) if p is None else p))
    # integers
    for kind, w, signed in (("u8", 8, 0), ("i8", 8, 1), ("u16", 16, 0), ("i16", 16, 1), ("u32", 32, 0), ("i32", 32, 1), ("u64", 64, 0), ("i64", 64, 1)):
        vals = {0, 1, 9, 10, 99, 100, 101, (1 << w) - 1, 1 << (w - 1), (1 << (w - 1)) - 1, (1 << (w - 1)) + 1, 12345 % (1 << w)}
        vals |= {rnd.getrandbits(w) for _ in range(20)} | {10 ** k % (1 << w) for k in range(0, 20)} | {(10 ** k - 1) % (1 << w) for k in range(1, 20)}
        for v in vals:
            add(kind, v, 0, 6)
    # float16: the small exhaustive configuration
    stride = 1 if c.thorough else 13
    for h in range(c.seed % stride, 1 << 16, stride):
        if ((h >> 10) & 31) == 31:
            continue
        for fmt in range(3):
            for p in (range(0, 9) if c.thorough else (0, 1, 3, 6)):
                add("f16", h, fmt, p)
    for h in (0x7C00, 0xFC00, 0x7E00, 0x8000, 0x0000, 0x0001, 0x03FF, 0x0400, 0x7BFF):
        for fmt in range(3):
            add("f16", h, fmt, 3)
    # doubles
    D = [0.0, -0.0, 1.0, -1.0, 0.5, 0.1, 0.125, 2.675, 99.995, 9.5, 10.5, 0.05, 1e21, 1e22, 123456789.0, 1.5e300, 5e-324, 2.2250738585072014e-308,
         1.7976931348623157e308, 8965.409, 11150.001, 15580.4179, 1521525.3, 999.9995, 9.9999999, 0.0001, 0.00001, 123456.0, 1e5, 1e6, 1e-5, 4.5, 5.5, 0.45, 2.5, 3.5,
         float("inf"), float("-inf"), float("nan"), 1e15, 1e16, 1e17, 12345678901234567890.0, 0.3, 1 / 3, 2 / 3, 100.0, 1000000.0, 0.000123456]
    for d in D:
        for fmt in range(3):
            for p in ([0, 1, 2, 3, 5, 6, 15, 17, 20] if c.thorough else [0, 2, 6, 17]):
                add("f64", f64bits(d), fmt, p)
    for e in (range(0, 2047, 3 if c.thorough else 41)):          # binade edges +- 1 ulp
        for delta in (-1, 0, 1):
            b = (e << 52) + delta
            if 0 <= b < (2047 << 52):
                add("f64", b)
    for k in range(-320, 309, 5 if c.thorough else 37):           # powers of ten +- 1 ulp
        for delta in (-1, 0, 1):
            add("f64", f64bits(float("1e%d" % k)) + delta)
    for p in range(0, 12):                                         # exact ties at precision p: (2n+1) / 2 / 10^p when representable
        for n in (0, 1, 2, 7, 12, 1234):
            v = (2 * n + 1) / 2.0 / (10 ** p)
            for fmt in (1, 2):
                add("f64", f64bits(v), fmt, p)
            add("f64", f64bits((2 * n + 1) * 0.5), 1, 0)
    # many zeros between the point and the first digit in the fixed layouts (the zero-filling helpers work in chunks of 19)
    for k in (range(17, 40) if c.thorough else (18, 19, 20, 21, 24, 30, 38, 39)):
        for m in ("1", "2.5", "9.9999999999", "%d.%d" % (rnd.randint(1, 9), rnd.randint(0, 10 ** 6))):
            v = float("%se-%d" % (m, k))
            for fmt in (1, 2):
                for p in sorted({k, k + 1, min(40, k + 6), 40}):
                    add("f64", f64bits(v if rnd.random() < 0.7 else -v), fmt, p)
            add("f32", f32bits(v), rnd.choice((1, 2)), 40)
    # tiny values with FEW mantissa bits (subnormals, m * 2^-k): the formatter drops low words of its big integer while it multiplies by
    # powers of five, and for these values too early (the last digit came out one too low at precisions 15..18 and 35..37)
    for bits in [0x3626850000000000, 0x03a8182000000000, 0x12, 0x0197800000000000, 0x1, 0x3, 0x25, 0x7ff, 0x10000000000000]:
        for p in (15, 16, 17, 18, 35, 36, 37):
            add("f64", bits, 0, p)
    for _ in range(1500 if c.thorough else 150):
        e = rnd.randint(1, 0x3e0)                      # exponent field: values below about 1e-10
        m = rnd.getrandbits(rnd.randint(1, 12)) << rnd.randint(40, 51) if rnd.random() < 0.7 else 0
        b = (e << 52) | (m & ((1 << 52) - 1)) if rnd.random() < 0.8 else rnd.getrandbits(rnd.randint(1, 20))
        add("f64", b, 0, rnd.choice((15, 16, 17, 18, 35, 36, 37)))
    for b in (0x67e0, 0x25, 0x1, 0x7fffff):
        add("f32", b, 0, 18)
    # near ties at the cut digit: p significant digits (the last one even or odd), then 5, then nothing / zeros and a 1 / 4999..., at magnitudes
    # where the integer part has fewer, as many and many more digits than the precision (the value is whatever double is nearest)
    for p in range(1, 18):
        for _ in range(8 if c.thorough else 2):
            head = str(rnd.randint(1, 9)) + "".join(rnd.choice("0123456789") for _ in range(p - 1))
            for tail in ("5", "5" + "0" * rnd.randint(0, 7) + "1", "4" + "9" * rnd.randint(1, 9), "50000000000000000000001"):
                mag = rnd.choice([rnd.randint(-8, 0), rnd.randint(1, p), rnd.randint(p + 1, p + 12), rnd.randint(20, 40), rnd.randint(-300, 300)])
                v = float("%s.%s%se%d" % (head[0], head[1:], tail, mag - 1))
                for fmt in ((0, 1, 2) if c.thorough else (0, rnd.choice((1, 2)))):
                    add("f64", f64bits(v if rnd.random() < 0.8 else -v), fmt, p)
    for _ in range(6000 if c.thorough else 1200):
        r = rnd.random()
        if r < 0.35:
            b = rnd.getrandbits(64)
        elif r < 0.7:
            b = f64bits(rnd.randint(1, 10 ** rnd.randint(1, 17)) / 10 ** rnd.randint(0, 8))
        else:
            b = f64bits(rnd.uniform(-1e6, 1e6))
        add("f64", b)
    # floats
    for _ in range(2500 if c.thorough else 500):
        r = rnd.random()
        b = rnd.getrandbits(32) if r < 0.5 else f32bits(rnd.randint(1, 10 ** rnd.randint(1, 7)) / 10 ** rnd.randint(0, 5))
        add("f32", b)
    for f in (0.1, 16777216.0, 3.4028235e38, 1e-45, 1.17549435e-38, 0.5, 2.5, 1e10):
        for fmt in range(3):
            add("f32", f32bits(f), fmt, 9)
    return L


def main():
    c = vf.Check("C10")
    asan, f16 = c.build("h_digit.asan", "h_digit.f16")
    lines = gen(c)
    (plain,) = c.build("h_digit.plain")
    files = {"f16": [l for l in lines if l.startswith("f16")],
             "main": [l for l in lines if not l.startswith("f16") and not (l.split()[0] in ("f64", "f32") and l.split()[3] == "0")],
             "p0": [l for l in lines if l.split()[0] in ("f64", "f32") and l.split()[3] == "0"]}
    # precision 0 is a recorded defect that can even write out of bounds: those cases run in a separate, unsanitized process
    for name, binary in (("f16", f16), ("main", asan), ("p0", plain)):
        infile = os.path.join(c.out, "values_%s.txt" % name)
        open(infile, "w").write("\n".join(files[name]) + "\n")
        p = os.path.join(c.out, "format_%s.ndjson" % name)
        rc, out, err = c.run([binary, "format", infile, p], timeout=1800)
        if not out.strip().endswith("DONE"):
            if name == "p0":
                c.violation("digit-format P0 crash: formatting a real with precision 0 crashed the process (%s)" % " ".join(out.strip().splitlines()[-1:])[:120], {"kind": "crash", "stderr": err[-2000:]})
            else:
                c.harness_ok("digit-format " + name, rc, out, err)
                continue
        if not os.path.exists(p) or os.path.getsize(p) == 0:
            continue
        r = c.tlc("OracleDigitFormat", env={"TRACE": p}, name="OracleDigitFormat_" + name, timeout=3400, xmx="24g", xss="512m")
        evs = vf.read_ndjson(p)
        n = max(0, r.distinct - 65)
        nbad = 0
        shown = {}
        for cls in ("MISMATCH", "P0", "ROUND", "ROUNDX", "ZEROS"):
            for t in r.tuples(cls):
                nbad += 1
                e = evs[t[1] - 1]
                exp = t[2] if len(t) > 2 else []
                bits = sum(b << (8 * i) for i, b in enumerate(e["bits"]))
                sig = "digit-format %s kind=%s bits=%x fmt=%s p=%d out=%r expected=%r" % (cls, e["kind"], bits, e["fmt"], e["p"], "".join(chr(u) for u in e["out"]),
                                                                                       "".join(chr(u) for u in exp))
                shown[cls] = shown.get(cls, 0) + 1
                if shown[cls] <= 300:
                    c.violation(sig, {"kind": "oracle", "class": cls, "event": e, "expected": exp})
        c.count(n_eval=n, validated=n - nbad, distinct_keys=[(e["kind"], tuple(e["bits"]), e["fmt"], e["p"]) for e in evs])
        c.stage("format_" + name, events=n, **{k.lower(): v for k, v in shown.items()})
        for e in evs[7:len(evs):max(1, len(evs) // 4)]:
            c.sample({"kind": e["kind"], "bits": e["bits"], "fmt": e["fmt"], "p": e["p"], "out": "".join(chr(u) for u in e["out"])})
    c.finish(rule="_Float16: every %s finite value x {g,f,s} x precisions %s; doubles/floats: problem values x formats x precisions, binade edges and powers "
                  "of ten +-1 ulp, exact ties, random patterns x random (format, precision in 0..20,40); integers of 8 widths/signs incl. extremes; "
                  "distinct = distinct (kind, value, format, precision)" % (("", "0..8") if c.thorough else ("13th", "{0,1,3,6}")),
             assumptions=["all 2^32 floats / 2^64 doubles are out of reach of TLC; the exhaustive configuration is the 16-bit instantiation of the same template"],
             exhaustive=False)


vf.main_wrap(main)
