"""Shared driver of the four JSON checks (C05-C08): they use one harness (h_json) and one oracle (OracleJson);
each check selects the event families that decide its property."""
import os, json
import vf

ALPHA10 = "123,125,91,93,34,58,44,49,97,92"   # { } [ ] " : , 1 a \


def text(e):
    return vf.text(e["s"])


def sig(e):
    if e["fam"] == "stringify":
        return "json stringify w=%d tree=%s text=%s fixed=%d" % (e["w"], json.dumps(e["tree"], separators=(",", ":"))[:200], text(e)[:160], e["fixed"])
    return "json %s w=%d text=%s -> %s" % (e["fam"], e["w"], text(e)[:200], "Undefined" if e["undef"] else json.dumps(e["doc"], separators=(",", ":"))[:160])


def run_family(c, binary, name, argv, oracle=True, timeout=3000, mode="all"):
    p = os.path.join(c.out, name + ".ndjson")
    rc, out, err = c.run([binary] + argv + [p], timeout=timeout)
    ok = c.harness_ok("json " + name, rc, out, err, {"argv": [binary] + argv})
    for ln in out.splitlines():
        if ln.startswith("LEDGER"):
            kv = dict(x.split("=") for x in ln.split()[1:])
            if int(kv["live"]) != 0 or int(kv["badfree"]) != 0:
                c.violation("json %s ledger %s" % (name, ln), {"kind": "ledger", "line": ln})
    if not ok or not oracle:
        return p, ok
    os.environ["JMODE"] = mode
    c.oracle("OracleJson", p, "OracleJson_" + name, sig, timeout=timeout, xmx="24g", xss="256m")
    return p, ok
