// Conformance harness for C20: Unicode::ToUTF and JSON \u escapes for code points.
//   run <from> <to> <step> <out.ndjson> [extra list file]
#include "common.hpp"
#include "JSON.hpp"

using namespace Qentem;

template <typename Ch>
static std::vector<long> direct(unsigned cp) {
    StringStream<Ch> ss;
    Unicode::ToUTF<Ch>(cp, ss);
    std::vector<long> v;
    for (SizeT i = 0; i < ss.Length(); ++i) v.push_back((long)(typename std::make_unsigned<Ch>::type)ss.First()[i]);
    return v;
}

static std::vector<long> escape_text(unsigned cp, bool upper) {
    std::vector<long> t;
    auto              hex4 = [&](unsigned u) {
        t.push_back('\\');
        t.push_back('u');
        for (int s = 12; s >= 0; s -= 4) {
            unsigned d = (u >> s) & 15U;
            t.push_back(d < 10 ? '0' + d : (upper ? 'A' : 'a') + (d - 10));
        }
    };
    if (cp < 0x10000U) hex4(cp);
    else {
        unsigned d = cp - 0x10000U;
        hex4(0xD800U + (d >> 10));
        hex4(0xDC00U + (d & 0x3FFU));
    }
    return t;
}

// parses ["<pre><escape><post>"] from an exact-size buffer and returns the decoded units (without pre/post); {-1} = failure
template <typename Ch>
static std::vector<long> via_json(const std::vector<long> &esc, bool inside) {
    std::vector<long> doc = {'[', '"'};
    if (inside) { doc.push_back('a'); doc.push_back('b'); }
    for (long x : esc) doc.push_back(x);
    if (inside) { doc.push_back('c'); doc.push_back('d'); }
    doc.push_back('"');
    doc.push_back(']');
    vf::Exact<Ch> buf(doc.begin(), doc.end());
    Value<Ch>     v = JSON::Parse((const Ch *)buf.data(), (SizeT)buf.n);
    const Ch     *p = nullptr;
    SizeT         n = 0;
    const Value<Ch> *e = v.GetValue(SizeT{0});
    if (e == nullptr || !e->SetCharAndLength(p, n)) return {-1};
    std::vector<long> u;
    for (SizeT i = 0; i < n; ++i) u.push_back((long)(typename std::make_unsigned<Ch>::type)p[i]);
    if (inside) {
        if (u.size() < 4 || u[0] != 'a' || u[1] != 'b' || u[u.size() - 2] != 'c' || u[u.size() - 1] != 'd') return {-2};
        u.erase(u.begin(), u.begin() + 2);
        u.resize(u.size() - 2);
    }
    return u;
}

static void emit(FILE *f, unsigned cp) {
    auto d8 = direct<char>(cp), d16 = direct<char16_t>(cp), d32 = direct<char32_t>(cp);
    auto eu = escape_text(cp, true), el = escape_text(cp, false);
    std::string s8, s16, s32, seu, sel;
    vf::json_ints(s8, d8);
    vf::json_ints(s16, d16);
    vf::json_ints(s32, d32);
    vf::json_ints(seu, eu);
    vf::json_ints(sel, el);
    fprintf(f, "{\"c\":%u,\"d8\":%s,\"d16\":%s,\"d32\":%s,\"esc\":[%s,%s],\"j\":[", cp, s8.c_str(), s16.c_str(), s32.c_str(), seu.c_str(),
            sel.c_str());
    std::vector<long> r[9] = {via_json<char>(eu, false),     via_json<char>(el, false),     via_json<char>(eu, true),
                              via_json<char16_t>(eu, false), via_json<char16_t>(el, false), via_json<char16_t>(el, true),
                              via_json<char32_t>(eu, false), via_json<char32_t>(el, false), via_json<char32_t>(eu, true)};
    for (int i = 0; i < 9; ++i) {
        const std::vector<long> &d = i < 3 ? d8 : (i < 6 ? d16 : d32);
        if (i) fputc(',', f);
        if (r[i] == d) fputs("[]", f);
        else {
            if (r[i].empty()) r[i].push_back(-3);
            std::string s;
            vf::json_ints(s, r[i]);
            fputs(s.c_str(), f);
        }
    }
    fputs("]}\n", f);
}

int main(int argc, char **argv) {
    vf::install_handlers();
    if (argc < 6 || std::string(argv[1]) != "run") return 2;
    unsigned from = (unsigned)strtoul(argv[2], nullptr, 10), to = (unsigned)strtoul(argv[3], nullptr, 10),
             step = (unsigned)strtoul(argv[4], nullptr, 10);
    FILE *f       = fopen(argv[5], "w");
    vf::g_trace   = f;
    long n        = 0;
    for (unsigned cp = from; cp <= to; cp += step) {
        if (cp >= 0xD800U && cp <= 0xDFFFU) continue;
        vf::begin_case((long)cp);
        emit(f, cp);
        ++n;
    }
    if (argc >= 7) {
        FILE       *x = fopen(argv[6], "r");
        std::string line;
        while (x && vf::read_line(x, line)) {
            unsigned cp = (unsigned)strtoul(line.c_str(), nullptr, 10);
            if (cp >= 0xD800U && cp <= 0xDFFFU) continue;
            vf::begin_case((long)cp);
            emit(f, cp);
            ++n;
        }
        if (x) fclose(x);
    }
    fclose(f);
    vf::g_trace = nullptr;
    printf("EVENTS %ld\n", n);
    vf::end_cases();
    return 0;
}
