// Conformance harness for C12 (Value as abstract JSON document) and C18 (GroupBy).
//   walk   <graph> <tables: small|mid> [skip]   spec -> code replay of the QValue state graph
//   record <seed> <hist> <steps> <out.ndjson>   code -> spec random histories for TraceQValue
//   group  <seed> <nrandom> <out.ndjson>        GroupBy events for OracleGroup (C18)
#include <deque>
#include "graph.hpp"
#include "Value.hpp"
#include "JSON.hpp"

using namespace Qentem;
using V   = Value<char>;
using Str = String<char>;

// ---------------- closed domain --------------------------------------------------
struct Lit {
    char        t;   // U Z T F N S A O
    const char *k;   // number kind
    long        m;   // number magnitude (reals: twice the value)
    std::string s;   // string bytes
};
static std::vector<Lit> VT_small = {{'N', "u64", 1, ""}, {'S', "", 0, "a"}, {'O', "", 0, ""}, {'A', "", 0, ""}};
static std::vector<Lit> VT_mid   = {{'N', "u64", 1, ""}, {'N', "i64", -2, ""}, {'N', "real", 5, ""}, {'S', "", 0, "a"}, {'S', "", 0, ""},
                                    {'T', "", 0, ""},    {'F', "", 0, ""},     {'Z', "", 0, ""},     {'O', "", 0, ""},  {'A', "", 0, ""},
                                    {'U', "", 0, ""}};
static std::vector<std::vector<long>> PT_small = {{}, {1}, {-1}, {2, -2}};
static std::vector<std::vector<long>> PT_mid   = {{}, {1}, {2}, {-1}, {-2}, {1, 2}, {1, -1}, {-1, 1}, {-2, -1}};
static long g_maxweight = 3, g_maxsize = 2;
static std::vector<Lit>                *g_vt = &VT_small;
static std::vector<std::vector<long>>  *g_pt = &PT_small;

static const char *KEYS[] = {"", "a", "key-number-two", "", "k4", "k5"};   // key id -> text (id 3 is the empty key)
static std::string key_text(long k) { return KEYS[k]; }
static long        key_id(const Str &s) {
    std::string t(s.First(), s.Length());
    for (long k = 1; k <= 5; ++k)
        if (t == KEYS[k]) return k;
    return -1;
}

// ---------------- projection through the public API -------------------------------
static void proj(const V &v, std::string &o) {
    switch (v.Type()) {
        case ValueType::Undefined: o += "u"; break;
        case ValueType::Null: o += "z"; break;
        case ValueType::True: o += "t"; break;
        case ValueType::False: o += "f"; break;
        case ValueType::UIntLong: o += "nu64:" + std::to_string((long long)v.GetUInt64()); break;
        case ValueType::IntLong: o += "ni64:" + std::to_string((long long)v.GetInt64()); break;
        case ValueType::Double: o += "nreal:" + std::to_string((long long)(v.GetDouble() * 2.0)); break;
        case ValueType::String: {
            o += "s";
            const char *p; SizeT n;
            v.SetCharAndLength(p, n);
            for (SizeT i = 0; i < n; ++i) { if (i) o += "."; o += std::to_string((int)(unsigned char)p[i]); }
            break;
        }
        case ValueType::Array: {
            o += "[";
            for (SizeT i = 0; i < v.Size(); ++i) {
                if (i) o += ";";
                const V *e = v.GetValue(i);
                if (e == nullptr) o += "u"; else proj(*e, o);
            }
            o += "]";
            break;
        }
        case ValueType::Object: {
            o += "{";
            bool first = true;
            for (SizeT i = 0; i < v.Size(); ++i) {
                const Str *k = v.GetKey(i);
                if (k == nullptr) continue;   // removed slot: not part of the document
                if (!first) o += ";";
                first = false;
                o += std::to_string(key_id(*k)) + "=";
                const V *e = v.GetValue(i);
                if (e == nullptr) o += "u"; else proj(*e, o);
            }
            o += "}";
            break;
        }
        case ValueType::ValuePtr: {
            o += "p";
            break;
        }
    }
}
// document as JSON record for the trace specification
static void jdoc(const V &v, std::string &o) {
    ValueType t = v.Type();
    if (t == ValueType::ValuePtr)   // a pointer-to-value reads as what it points to (every accessor below forwards)
        t = v.IsObject() ? ValueType::Object : v.IsArray() ? ValueType::Array : v.IsString() ? ValueType::String : v.IsUInt64() ? ValueType::UIntLong
            : v.IsInt64() ? ValueType::IntLong : v.IsDouble() ? ValueType::Double : v.IsTrue() ? ValueType::True : v.IsFalse() ? ValueType::False
            : v.IsNull() ? ValueType::Null : ValueType::Undefined;
    switch (t) {
        case ValueType::Undefined: o += "{\"t\":\"U\"}"; break;
        case ValueType::Null: o += "{\"t\":\"Z\"}"; break;
        case ValueType::True: o += "{\"t\":\"T\"}"; break;
        case ValueType::False: o += "{\"t\":\"F\"}"; break;
        case ValueType::UIntLong: o += "{\"t\":\"N\",\"k\":\"u64\",\"m\":" + std::to_string((long long)v.GetUInt64()) + "}"; break;
        case ValueType::IntLong: o += "{\"t\":\"N\",\"k\":\"i64\",\"m\":" + std::to_string((long long)v.GetInt64()) + "}"; break;
        case ValueType::Double: o += "{\"t\":\"N\",\"k\":\"real\",\"m\":" + std::to_string((long long)(v.GetDouble() * 2.0)) + "}"; break;
        case ValueType::String: {
            o += "{\"t\":\"S\",\"s\":[";
            const char *p; SizeT n;
            v.SetCharAndLength(p, n);
            for (SizeT i = 0; i < n; ++i) { if (i) o += ","; o += std::to_string((int)(unsigned char)p[i]); }
            o += "]}";
            break;
        }
        case ValueType::Array: {
            o += "{\"t\":\"A\",\"e\":[";
            for (SizeT i = 0; i < v.Size(); ++i) {
                if (i) o += ",";
                const V *e = v.GetValue(i);
                if (e == nullptr) o += "{\"t\":\"U\"}"; else jdoc(*e, o);
            }
            o += "]}";
            break;
        }
        case ValueType::Object: {
            o += "{\"t\":\"O\",\"m\":[";
            bool first = true;
            for (SizeT i = 0; i < v.Size(); ++i) {
                const Str *k = v.GetKey(i);
                if (k == nullptr) continue;
                if (!first) o += ",";
                first = false;
                o += "{\"k\":" + std::to_string(key_id(*k)) + ",\"v\":";
                const V *e = v.GetValue(i);
                if (e == nullptr) o += "{\"t\":\"U\"}"; else jdoc(*e, o);
                o += "}";
            }
            o += "]}";
            break;
        }
        case ValueType::ValuePtr: o += "{\"t\":\"P\"}"; break;
    }
}

static V make_lit(const Lit &l, int ov) {
    V v;
    switch (l.t) {
        case 'U': break;
        case 'Z': v = nullptr; break;
        case 'T': v = true; break;
        case 'F': v = false; break;
        case 'N':
            if (std::string(l.k) == "u64") { if (ov & 1) v = (SizeT64)l.m; else v = V((unsigned)l.m); }
            else if (std::string(l.k) == "i64") { if (ov & 1) v = (SizeT64I)l.m; else v = V((int)l.m); }
            else { if (ov & 1) v = (double)l.m / 2.0; else v = V((float)((double)l.m / 2.0)); }
            break;
        case 'S':
            switch (ov % 4) {
                case 0: v = l.s.c_str(); break;
                case 1: v = Str((const char *)l.s.data(), (SizeT)l.s.size()); break;
                case 2: { Str s((const char *)l.s.data(), (SizeT)l.s.size()); v = s; break; }
                default: v = StringView<char>((const char *)l.s.data(), (SizeT)l.s.size());
            }
            break;
        case 'A': if (ov & 1) v = V::ArrayT(); else v = V(ValueType::Array); break;
        case 'O': if (ov & 1) v = V::ObjectT(); else v = V(ValueType::Object); break;
    }
    return v;
}

struct VModel {
    V   root[2];
    int ov{0};
    // the model's state constraint BoundW: successors outside it are pruned by TLC, not mismatches
    static long weight(const V &v) {
        long w = 1;
        if (v.IsArray()) { for (SizeT i = 0; i < v.Size(); ++i) { const V *e = v.GetValue(i); w += e ? weight(*e) : 1; } }
        else if (v.IsObject()) { for (SizeT i = 0; i < v.Size(); ++i) { if (v.GetKey(i) == nullptr) continue; const V *e = v.GetValue(i); w += e ? weight(*e) : 1; } }
        return w;
    }
    static long depth(const V &v) {
        long d = 0;
        if (v.IsArray() || v.IsObject()) {
            for (SizeT i = 0; i < v.Size(); ++i) { const V *e = v.GetValue(i); if (e) d = std::max(d, depth(*e)); }
            d += 1;
        }
        return d;
    }
    static bool sizeok(const V &v) {
        if (v.IsArray() || v.IsObject()) {
            long n = 0;
            for (SizeT i = 0; i < v.Size(); ++i) {
                if (v.IsObject() && v.GetKey(i) == nullptr) continue;
                ++n;
                const V *e = v.GetValue(i);
                if (e && !sizeok(*e)) return false;
            }
            if (n > g_maxsize) return false;
        }
        return true;
    }
    bool beyond_bound() const {
        return !(sizeok(root[0]) && sizeok(root[1]) && depth(root[0]) <= 2 && weight(root[0]) <= g_maxweight && weight(root[1]) <= 2);
    }
    void reset() { root[0].Reset(); root[1].Reset(); }
    std::string project() {
        std::string o;
        proj(root[0], o);
        o += "|";
        proj(root[1], o);
        return o;
    }
    // vivifying navigation (operator[] chain)
    V *nav(V &r, const std::vector<long> &path) {
        V *cur = &r;
        for (long st : path) {
            if (st >= 1) {
                std::string k = key_text(st);
                switch ((ov + (int)st) % 4) {
                    case 0: cur = &((*cur)[k.c_str()]); break;
                    case 1: cur = &((*cur)[Str((const char *)k.data(), (SizeT)k.size())]); break;
                    case 2: cur = &(cur->Get(k.data(), (SizeT)k.size())); break;
                    default: cur = &((*cur)[StringView<char>((const char *)k.data(), (SizeT)k.size())]); break;
                }
            } else {
                cur = &((*cur)[(SizeT)(-st - 1)]);
            }
        }
        return cur;
    }
    // non-vivifying lookup (GetValue chain); nullptr = none
    static const V *look(const V &r, const std::vector<long> &path) {
        const V *cur = &r;
        for (long st : path) {
            if (cur == nullptr) return nullptr;
            if (st >= 1) {
                if (cur->IsArray()) return nullptr;   // key lookup in an array is by decimal value of the key: not generated
                std::string k = key_text(st);
                cur = cur->GetValue(k.data(), (SizeT)k.size());
            } else cur = cur->GetValue((SizeT)(-st - 1));
        }
        return cur;
    }
    std::string selfcheck() {
        for (int r = 0; r < 2; ++r) {
            std::string e = check(root[r]);
            if (!e.empty()) return e;
        }
        return "";
    }
    static std::string check(const V &v) {
        if (v.IsObject()) {
            for (SizeT i = 0; i < v.Size(); ++i) {
                const Str *k = v.GetKey(i);
                if (k == nullptr) { if (v.GetValue(i) != nullptr) return "value-of-removed-slot"; continue; }
                const V *bykey = v.GetValue(k->First(), k->Length());
                if (bykey != v.GetValue(i)) return "GetValue(key)!=GetValue(index)";
                if (bykey != nullptr) { std::string e = check(*bykey); if (!e.empty()) return e; }
            }
        } else if (v.IsArray()) {
            for (SizeT i = 0; i < v.Size(); ++i) {
                const V *e = v.GetValue(i);
                if (e != nullptr) { std::string s = check(*e); if (!s.empty()) return s; }
            }
            if (v.GetValue(v.Size()) != nullptr) return "GetValue(Size)";
        } else {
            if (v.Size() != 0) return "Size-of-scalar";
            if (v.GetValue(SizeT{0}) != nullptr) return "GetValue-on-scalar";
        }
        return "";
    }
    void do_write(V *t, const std::string &kind, const V *x, long n, bool move, V *src) {
        ++ov;
        if (kind == "assign") {
            if (move) *t = Memory::Move(*src);
            else if (ov & 1) *t = *x;
            else { V c(*x); *t = Memory::Move(c); }
        } else if (kind == "appendval") {
            if (move) *t += Memory::Move(*src);
            else if (x->IsObject() && (ov % 3 == 0)) { V::ObjectT o(*x->GetObject()); *t += Memory::Move(o); }
            else if (x->IsObject() && (ov % 3 == 1)) { *t += *x->GetObject(); }
            else if (x->IsString() && (ov % 3 == 0)) { *t += *x->GetString(); }
            else if (x->IsString() && (ov % 3 == 1)) { Str s(*x->GetString()); *t += Memory::Move(s); }
            else if (x->IsUInt64() && (ov % 3 == 0)) { *t += x->GetUInt64(); }
            else if (x->IsInt64() && (ov % 3 == 0)) { *t += x->GetInt64(); }
            else if (x->IsDouble() && (ov % 3 == 0)) { *t += x->GetDouble(); }
            else if (x->IsTrue() && (ov % 3 == 0)) { *t += true; }
            else if (x->IsFalse() && (ov % 3 == 0)) { *t += false; }
            else if (x->IsNull() && (ov % 3 == 0)) { *t += nullptr; }
            else if (ov & 1) *t += *x;
            else { V c(*x); *t += Memory::Move(c); }
        } else if (kind == "appendarr") {
            if (ov & 1) *t += *x->GetArray();
            else { V::ArrayT a(*x->GetArray()); *t += Memory::Move(a); }
        } else if (kind == "merge") {
            if (move) t->Merge(Memory::Move(*src));
            else t->Merge(*x);
        } else if (kind == "remove") {
            std::string k = key_text(n);
            switch (ov % 3) {
                case 0: t->Remove(k.c_str()); break;
                case 1: t->Remove(k.data(), (SizeT)k.size()); break;
                default: t->Remove(Str((const char *)k.data(), (SizeT)k.size())); break;
            }
        } else if (kind == "removeindex") {
            if (ov & 1) t->RemoveIndex((SizeT)n); else t->RemoveIndex((int)n);
        } else if (kind == "reset") {
            t->Reset();
        }
    }
    bool apply(const std::string &name, const std::vector<long> &a) {
        V &r = root[(a[0] - 1) & 1];
        if (name == "Compress") { r.Compress(); return true; }
        const std::vector<long> &path = (*g_pt)[(size_t)a[1] - 1];
        if (name == "Assign" || name == "AppendVal") {
            V  x = make_lit((*g_vt)[(size_t)a[2] - 1], ov);
            V *t = nav(r, path);
            do_write(t, name == "Assign" ? "assign" : "appendval", &x, 0, false, nullptr);
        } else if (name == "AssignCopy" || name == "AppendCopy" || name == "AppendArr" || name == "MergeCopy") {
            V &u = root[(a[2] - 1) & 1];
            V  x(u);  // the operand is evaluated before the target path is vivified
            V *t = nav(r, path);
            do_write(t, name == "AssignCopy" ? "assign" : (name == "AppendCopy" ? "appendval" : (name == "AppendArr" ? "appendarr" : "merge")), &x, 0, false, nullptr);
        } else if (name == "AssignMove" || name == "MergeMove") {
            V &u = root[(a[2] - 1) & 1];
            V *t = nav(r, path);
            do_write(t, name == "AssignMove" ? "assign" : "merge", nullptr, 0, true, &u);
        } else if (name == "Remove") {
            do_write(nav(r, path), "remove", nullptr, a[2], false, nullptr);
        } else if (name == "RemoveIndex") {
            do_write(nav(r, path), "removeindex", nullptr, a[2], false, nullptr);
        } else if (name == "Reset") {
            do_write(nav(r, path), "reset", nullptr, 0, false, nullptr);
        } else return false;
        return true;
    }
};

// ---------------- random histories ---------------------------------------------------
static const char *STRS[] = {"a", "", "12", "-3", "2.5", "true", "false", "x y", "b", "1e2", "12abc", "2.5.1"};   // (a numeric prefix is not a numeral)
static Lit rnd_lit(vf::Rng &rng) {
    switch (rng.below(12)) {
        case 0: return {'U', "", 0, ""};
        case 1: return {'Z', "", 0, ""};
        case 2: return {'T', "", 0, ""};
        case 3: return {'F', "", 0, ""};
        case 4: return {'N', "u64", (long)rng.below(1000), ""};
        case 5: return {'N', "i64", -(long)rng.below(1000) - 1, ""};
        case 6: return {'N', "real", (long)rng.below(2001) - 1000, ""};
        case 7: case 8: return {'S', "", 0, STRS[rng.below(12)]};
        case 9: return {'A', "", 0, ""};
        default: return {'O', "", 0, ""};
    }
}
static void jlit(const Lit &l, std::string &o) {
    V v = make_lit(l, 1);
    jdoc(v, o);
}
static bool has_removed(const V &v) {
    if (!v.IsObject()) return false;
    for (SizeT i = 0; i < v.Size(); ++i)
        if (v.GetKey(i) == nullptr) return true;
    return false;
}
// does the (vivifying) path take an index step through an object that holds removed slots?  (outside the contract)
static bool path_in_contract(const V &root, const std::vector<long> &path) {
    const V *cur = &root;
    for (long st : path) {
        if (cur == nullptr) return true;
        if (st <= -1 && has_removed(*cur)) return false;
        if (st >= 1) { std::string k = key_text(st); cur = cur->IsObject() ? cur->GetObject()->GetValue(k.data(), (SizeT)k.size()) : nullptr; }
        else if (cur->IsArray()) cur = ((SizeT)(-st - 1) < cur->Size()) ? (cur->GetArray()->First() + (-st - 1)) : nullptr;
        else if (cur->IsObject()) cur = cur->GetObject()->GetValue((SizeT)(-st - 1));
        else cur = nullptr;
    }
    return true;
}
static void record(uint64_t seed, long nhist, long nsteps, FILE *out) {
    vf::Rng rng(seed);
    long    case_no = 0;
    for (long h = 0; h < nhist; ++h) {
        VModel m;
        fprintf(out, "{\"op\":\"init\"}\n");
        for (long s = 0; s < nsteps; ++s) {
            vf::begin_case(case_no++);
            long r = 1 + rng.below(3) / 2, u = 3 - r;
            std::vector<long> path;
            int plen = (int)rng.below(4);
            if (plen == 3 && rng.below(2)) plen = 1;
            for (int i = 0; i < plen; ++i) path.push_back(rng.below(2) ? 1 + rng.below(4) : -(long)(1 + rng.below(3)));
            if (!path_in_contract(m.root[r - 1], path)) { --s; continue; }   // (every operation that is applied is logged)
            std::string jp;
            vf::json_ints(jp, path);
            uint32_t    op = rng.below(100);
            std::string kind, jx = "0";
            long        n = 0, src = 0, mv = 0;
            const V    *pre = VModel::look(m.root[r - 1], path);
            if (pre != nullptr && pre->IsUndefined()) pre = nullptr;   // GetValue() hides Undefined; same for the root itself
            bool        exists = (pre != nullptr);
            // the non-vivifying operations are only generated on existing (defined) values
            if (op < 30) { kind = "assign"; }
            else if (op < 45) { kind = "appendval"; }
            else if (op < 50) { kind = "appendarr"; src = u; if (!m.root[u - 1].IsArray()) kind = "appendval"; }
            else if (op < 60) { kind = "merge"; src = u; mv = rng.below(2); }
            else if (op < 66) { kind = "assign"; src = u; mv = rng.below(2); }
            else if (op < 70) { kind = "appendval"; src = u; mv = rng.below(2); }
            else if (op < 80 && exists) { kind = "remove"; n = 1 + rng.below(4); }
            else if (op < 86 && exists) { kind = "removeindex"; n = rng.below(3); if (has_removed(*pre)) kind = "remove", n = 1; }
            else if (op < 89 && exists) { kind = "reset"; }
            else if (op < 93) { kind = "compress"; }
            else { kind = "get"; }
            snprintf(vf::g_desc, sizeof(vf::g_desc), "hist=%ld step=%ld kind=%s r=%ld path=%s before=%s", h, s, kind.c_str(), r, jp.c_str(), m.project().c_str());
            if (kind == "get") {
                std::string jr = "{\"t\":\"none\"}";
                if (pre != nullptr) { jr.clear(); jdoc(*pre, jr); }
                // typed getters of the looked-up value (coercions)
                long gi = 0, gd = 0, gb = -1, nt = 0;
                if (pre != nullptr) {
                    gi = (long)pre->GetInt64();
                    double d = pre->GetDouble();
                    gd = (long)(d * 2.0);
                    bool b;
                    gb = pre->SetBool(b) ? (b ? 1 : 0) : -1;
                    QNumber64 q;
                    nt = (long)pre->SetNumber(q);
                }
                fprintf(out, "{\"op\":\"get\",\"r\":%ld,\"path\":%s,\"ret\":%s,\"gi\":%ld,\"gd\":%ld,\"gb\":%ld,\"nt\":%ld}\n", r, jp.c_str(), jr.c_str(), gi, gd, gb, nt);
                continue;
            }
            if (kind == "compress") {
                m.root[r - 1].Compress();
            } else {
                Lit l = rnd_lit(rng);
                V   x = make_lit(l, m.ov);
                if (kind == "remove" || kind == "removeindex" || kind == "reset") {
                    V *t = m.nav(m.root[r - 1], path);
                    m.do_write(t, kind, nullptr, n, false, nullptr);
                } else if (src != 0) {
                    V  copy(m.root[src - 1]);
                    V *t = m.nav(m.root[r - 1], path);
                    m.do_write(t, kind, &copy, 0, mv != 0, &m.root[src - 1]);
                } else {
                    jx.clear();
                    jdoc(x, jx);
                    V *t = m.nav(m.root[r - 1], path);
                    m.do_write(t, kind, &x, 0, false, nullptr);
                }
            }
            std::string d0, d1, sc = m.selfcheck();
            jdoc(m.root[0], d0);
            jdoc(m.root[1], d1);
            fprintf(out, "{\"op\":\"%s\",\"r\":%ld,\"path\":%s,\"x\":%s,\"n\":%ld,\"src\":%ld,\"mv\":%ld,\"ok\":%d,\"docs\":[%s,%s]}\n", kind.c_str(), r, jp.c_str(),
                    jx.c_str(), n, src, mv, sc.empty() ? 1 : 0, d0.c_str(), d1.c_str());
            if (!sc.empty()) printf("SELFCHECK hist=%ld step=%ld %s\n", h, s, sc.c_str());
        }
    }
}

// ---------------- GroupBy events (C18) -----------------------------------------------
// group value kinds: 0 string, 1 u64, 2 true/false, 3 null, 4 i64
static void group_case(FILE *out, vf::Rng &rng, int nobj, int ngroups, bool exhaustive_code, long code) {
    std::deque<V> side;   // targets of pointer-to-value records (outlive the array)
    V arr;
    arr = V::ArrayT();
    const long G = 1;   // grouping key id ("a")
    for (int i = 0; i < nobj; ++i) {
        V    o(ValueType::Object, 8);   // capacity reserved: no growth, so a removed slot stays where it is
        long c   = exhaustive_code ? code : (long)(rng.next() >> 2);
        int  gv  = (int)(c % ngroups); c /= ngroups;
        int  pos = (int)(c % 3); c /= 3;          // position of the grouping key among 3 members
        int  kind = (int)(c % 5); c /= 5;
        bool removed = (c % 2) != 0; c /= 2;
        if (exhaustive_code) code = c;
        int  dummy_at = removed ? (int)((gv + pos + kind) % 3) : -1;   // a member inserted before member #dummy_at and removed afterwards
        int slot = 0;
        for (int mbr = 0; mbr < 3; ++mbr) {
            if (mbr == dummy_at) o["k5"] = (SizeT64)99;
            if (mbr == pos) {
                V &g = o[key_text(G).c_str()];
                // group names that are prefixes of one another (and the empty name), in both orders of first appearance; names that
                // coincide across kinds ("12" / 12, "true" / true, "null" / null)
                static const char    *GS[6] = {"1", "12", "", "t", "true", "nul"};
                static const SizeT64  GU[6] = {1, 12, 10, 120, 2, 0};
                switch (kind) {
                    case 0: g = GS[gv % 6]; break;
                    case 1: g = GU[gv % 6]; break;
                    case 2: g = (gv % 2 == 0); break;
                    case 3: g = nullptr; break;
                    default: g = -(SizeT64I)GU[gv % 6] - (gv % 6 == 5 ? 3 : 0); break;
                }
            } else {
                long k = (slot == 0) ? 2 : 4;
                ++slot;
                V &mv = o[key_text(k).c_str()];
                switch ((i + mbr + kind) % 4) {
                    case 0: mv = (SizeT64)(i * 10 + mbr); break;
                    case 1: mv = "x y"; break;
                    case 2: mv = V::ArrayT(); mv += (SizeT64)i; break;
                    default: mv = V::ObjectT(); mv["k5"] = true; break;
                }
            }
        }
        if (removed) o.Remove("k5");   // leaves a removed slot before / between the members (possibly before the grouping key)
        if (!exhaustive_code && rng.below(4) == 0) {      // the record is a pointer-to-value entry: it reads as the object it points to
            side.emplace_back(Memory::Move(o));
            arr.AddPointerToValue(&side.back());
        } else arr += Memory::Move(o);
    }
    std::string before, jin, jout = "{\"t\":\"none\"}", after;
    proj(arr, before);
    jdoc(arr, jin);
    // the slot layout of every record as the public API shows it: key ids in slot order, 0 for the slot a removed member left behind
    std::string slots = "[";
    for (SizeT i = 0; i < arr.Size(); ++i) {
        const V *o = arr.GetValue(i);
        slots += (i ? ",[" : "[");
        for (SizeT sl = 0; o != nullptr && sl < o->Size(); ++sl) {
            const Str *k = o->GetKey(sl);
            slots += (sl ? "," : "") + std::to_string(k == nullptr ? 0L : key_id(*k));
        }
        slots += "]";
    }
    slots += "]";
    V    grouped;
    bool ok;
    if (!exhaustive_code && rng.below(8) == 0) {      // the target is (a copy of) the source itself: the result replaces it
        grouped = arr;
        ok      = grouped.GroupBy(grouped, key_text(G).c_str());
    } else ok = arr.GroupBy(grouped, key_text(G).c_str());
    proj(arr, after);
    // group names are logged as text units together with the member arrays, in order
    std::string names = "[";
    if (ok && grouped.IsObject()) {
        jout.clear();
        jout = "[";
        bool first = true;
        for (SizeT i = 0; i < grouped.Size(); ++i) {
            const Str *k = grouped.GetKey(i);
            if (k == nullptr) continue;
            if (!first) { jout += ","; }
            first = false;
            std::vector<long> u(k->First(), k->First() + k->Length());
            for (auto &x : u) x &= 0xFF;
            std::string ju, jv;
            vf::json_ints(ju, u);
            const V *gv = grouped.GetValue(i);
            if (gv != nullptr) jdoc(*gv, jv); else jv = "{\"t\":\"U\"}";
            jout += "{\"name\":" + ju + ",\"items\":" + jv + "}";
        }
        jout += "]";
    }
    fprintf(out, "{\"k\":\"group\",\"g\":%ld,\"in\":%s,\"slots\":%s,\"ok\":%d,\"out\":%s,\"unchanged\":%d}\n", G, jin.c_str(), slots.c_str(), ok ? 1 : 0,
            ok ? jout.c_str() : "[]", before == after ? 1 : 0);
}

int main(int argc, char **argv) {
    vf::install_handlers();
    vf::ledger_trace("h_value", false);
    if (argc < 2) return 2;
    std::string mode = argv[1];
    if (mode == "walk" && argc >= 4) {
        vf::Graph g;
        if (!g.load(argv[2])) return 2;
        if (std::string(argv[3]) == "mid") { g_vt = &VT_mid; g_pt = &PT_mid; }
        vf::Walker<VModel> w(g);
        if (argc >= 5) g_maxweight = atol(argv[4]);
        if (argc >= 6) for (long x : vf::parse_ints(argv[5])) w.skip.insert(x);
        w.run("Value<char>");
        vf::Ledger &l = vf::ledger();
        printf("LEDGER allocs=%ld frees=%ld live=%zu badfree=%ld\n", l.allocs, l.frees, l.live.size(), l.bad_free);
        vf::end_cases();
        return 0;
    }
    if (mode == "record" && argc >= 6) {
        FILE *out = fopen(argv[5], "w");
        vf::g_trace = out;
        record(strtoull(argv[2], nullptr, 10), atol(argv[3]), atol(argv[4]), out);
        fclose(out);
        vf::g_trace = nullptr;
        vf::Ledger &l = vf::ledger();
        printf("LEDGER allocs=%ld frees=%ld live=%zu badfree=%ld\n", l.allocs, l.frees, l.live.size(), l.bad_free);
        vf::end_cases();
        return 0;
    }
    if (mode == "ptr" && argc >= 5) {
        // C12, pointer-to-value: every read through a pointer (directly, as an array item, as an object member) is the read of the target.  event: {"op":"ptr","t":target doc,"views":[doc seen through each pointer],"gi","gd","gb","nt","size","eq"}
        vf::Rng rng(strtoull(argv[2], nullptr, 10));
        long    cnt = atol(argv[3]);
        FILE   *out = fopen(argv[4], "w");
        if (!out) return 2;
        vf::g_trace = out;
        for (long i = 0; i < cnt; ++i) {
            vf::begin_case(i);
            snprintf(vf::g_desc, sizeof(vf::g_desc), "ptr case %ld", i);
            V target = make_lit(rnd_lit(rng), 1);
            int extra = (int)rng.below(4);
            for (int k = 0; k < extra; ++k) {       // grow containers a little
                V x = make_lit(rnd_lit(rng), 1);
                if (target.IsArray()) target += Memory::Move(x);
                else if (target.IsObject()) { std::string key = key_text(1 + (long)rng.below(4)); target[key.c_str()] = Memory::Move(x); }
            }
            V p1, p2, arr, obj;
            p1.SetPointerToValue(&target);
            p2.SetPointerToValue(&p1);                   // a pointer to a pointer reads as the target too (every accessor forwards)
            arr.AddPointerToValue(&target);
            std::string key = key_text(1);
            obj[key.c_str()].SetPointerToValue(&target);
            std::string jt, v1, v2, v3, v4;
            jdoc(target, jt);
            jdoc(p1, v1);
            jdoc(p2, v2);
            { const V *e = arr.GetValue(SizeT{0}); if (e) jdoc(*e, v3); else v3 = "{\"t\":\"U\"}"; }
            { const V *e = obj.GetValue(key.c_str()); if (e) jdoc(*e, v4); else v4 = "{\"t\":\"U\"}"; }
            long gi = (long)p1.GetInt64(), gd = (long)(p1.GetDouble() * 2.0), gb, nt;
            bool b;
            gb = p1.SetBool(b) ? (b ? 1 : 0) : -1;
            QNumber64 q;
            nt = (long)p1.SetNumber(q);
            int eq = (p1 == target) && (target == p1) && !(p1 < target) && !(p1 > target);
            fprintf(out, "{\"op\":\"ptr\",\"t\":%s,\"views\":[%s,%s,%s,%s],\"gi\":%ld,\"gd\":%ld,\"gb\":%ld,\"nt\":%ld,\"size\":%ld,\"tsize\":%ld,\"eq\":%d}\n", jt.c_str(), v1.c_str(),
                    v2.c_str(), v3.c_str(), v4.c_str(), gi, gd, gb, nt, (long)p1.Size(), (long)target.Size(), eq && (p2 == target) && (p2.Size() == target.Size()));
        }
        fclose(out);
        vf::g_trace = nullptr;
        vf::end_cases();
        return 0;
    }
    if (mode == "alias" && argc >= 3) {
        // C12: operations whose SOURCE lives inside the value they change, values built over dirty memory, kind changes by tag.
        // event: {"op":"alias","kind":K,"dst":doc before,"src":doc of the source before,"i":position,"after":doc}; judged by OracleAlias.
        FILE *out = fopen(argv[2], "w");
        if (!out) return 2;
        vf::g_trace = out;
        long n = 0;
        auto emit = [&](const char *kind, const std::string &dst, const std::string &src, long i, const V &after) {
            std::string ja;
            jdoc(after, ja);
            fprintf(out, "{\"op\":\"alias\",\"kind\":\"%s\",\"dst\":%s,\"src\":%s,\"i\":%ld,\"after\":%s}\n", kind, dst.c_str(), src.c_str(), i, ja.c_str());
        };
        // children of every kind, arrays of 1 / 2 / 4 / 8 elements (full at every doubling capacity) and objects of 1..4 members
        auto child = [&](int k) -> V {
            V c;
            switch (k % 6) {
                case 0: c = (SizeT64)(7 + k); break;
                case 1: c = "text that owns memory, long enough not to be stored in place"; break;
                case 2: c = V::ArrayT(); c += (SizeT64)1; c += "s"; break;
                case 3: c = V::ObjectT(); c[key_text(2).c_str()] = (SizeT64)5; break;
                case 4: c = true; break;
                default: c = 2.5;
            }
            return c;
        };
        for (int size : {1, 2, 4, 8, 3}) {
            for (int at = 0; at < size; ++at) {
                for (int variant = 0; variant < 6; ++variant) {
                    vf::begin_case(n++);
                    snprintf(vf::g_desc, sizeof(vf::g_desc), "alias size=%d at=%d variant=%d", size, at, variant);
                    V arr;
                    arr = V::ArrayT();
                    for (int i = 0; i < size; ++i) arr += child(i + variant);
                    V obj;
                    obj = V::ObjectT();
                    for (int i = 0; i < size && i < 4; ++i) obj[key_text(1 + i).c_str()] = child(i + variant);
                    std::string jd, js;
                    switch (variant) {
                        case 0: {   // arr += arr[at]  (the array is full for size 1, 2, 4, 8)
                            jdoc(arr, jd); jdoc(*arr.GetValue((SizeT)at), js);
                            arr += *arr.GetValue((SizeT)at);
                            emit("append-own", jd, js, at, arr);
                            break;
                        }
                        case 1: {   // arr += Move(arr[at])
                            jdoc(arr, jd); jdoc(*arr.GetValue((SizeT)at), js);
                            arr += Memory::Move(*arr.GetValue((SizeT)at));
                            emit("append-own-move", jd, js, at, arr);
                            break;
                        }
                        case 2: {   // v = v[at]   and   v = v[key]
                            jdoc(arr, jd); jdoc(*arr.GetValue((SizeT)at), js);
                            arr = *arr.GetValue((SizeT)at);
                            emit("assign-own", jd, js, at, arr);
                            if (at < 4) {
                                const V *m = obj.GetValue(key_text(1 + at).c_str());
                                if (m != nullptr) {
                                    std::string jd2, js2;
                                    jdoc(obj, jd2); jdoc(*m, js2);
                                    obj = *m;
                                    emit("assign-own", jd2, js2, at, obj);
                                }
                            }
                            break;
                        }
                        case 3: {   // v = Move(v[at])
                            jdoc(arr, jd); jdoc(*arr.GetValue((SizeT)at), js);
                            arr = Memory::Move(*arr.GetValue((SizeT)at));
                            emit("assign-own", jd, js, at, arr);
                            break;
                        }
                        case 4: {   // v.Merge(v) / v += v
                            jdoc(arr, jd);
                            arr.Merge(arr);
                            emit("merge-self", jd, jd, at, arr);
                            std::string jo;
                            jdoc(obj, jo);
                            obj += obj;
                            emit("merge-self", jo, jo, at, obj);
                            break;
                        }
                        case 5: {   // a member's own container / string moved into the value; a member appended to a value that is not an array yet;
                                    // a member move-merged into its (full) parent
                            V *m = (at < 4) ? obj.GetValue(key_text(1 + at).c_str()) : nullptr;
                            if (m != nullptr) {
                                std::string jd2, js2;
                                jdoc(obj, jd2); jdoc(*m, js2);
                                if (m->IsObject()) { obj = Memory::Move(*m->GetObject()); emit("assign-own", jd2, js2, at, obj); }
                                else if (m->IsArray()) { obj = Memory::Move(*m->GetArray()); emit("assign-own", jd2, js2, at, obj); }
                                else if (m->IsString()) { obj = Memory::Move(*m->GetString()); emit("assign-own", jd2, js2, at, obj); }
                                else { obj += *m; emit("append-own", jd2, js2, at, obj); }
                            }
                            V *e = arr.GetValue((SizeT)at);
                            jdoc(arr, jd); jdoc(*e, js);
                            arr.Merge(Memory::Move(*e));
                            emit("merge-own-move", jd, js, at, arr);
                            V sv;           // a string assigned from a pointer into its own storage
                            sv = "abcdefghijklmnopqrstuvwxyz0123456789";
                            std::string j1, j2;
                            jdoc(sv, j1);
                            const char *inner = sv.StringStorage() + (at % 8);
                            V expect;
                            expect = std::string(inner).c_str();
                            jdoc(expect, j2);
                            sv = inner;
                            emit("assign-own", j1, j2, at, sv);
                            break;
                        }
                        default: {  // (unused)
                            V sv;
                            sv = "abcdefghijklmnopqrstuvwxyz0123456789";
                            jdoc(sv, jd);
                            const char *inner = sv.StringStorage() + (at % 8);
                            V expect;
                            expect = std::string(inner).c_str();
                            jdoc(expect, js);
                            sv = inner;
                            emit("assign-own", jd, js, at, sv);
                        }
                    }
                }
            }
        }
        // values constructed over dirty memory, then used as containers / re-tagged / pointed at nothing
        for (int variant = 0; variant < 8; ++variant) {
            vf::begin_case(n++);
            snprintf(vf::g_desc, sizeof(vf::g_desc), "alias dirty variant=%d", variant);
            alignas(V) unsigned char raw[sizeof(V)];
            memset(raw, 0xAB, sizeof(raw));
            V *v = nullptr;
            std::string jd;
            switch (variant) {
                case 0: v = new (raw) V((SizeT64)5); jdoc(*v, jd); (*v)[key_text(1).c_str()] = (SizeT64)1; emit("then-key", jd, jd, 1, *v); break;
                case 1: v = new (raw) V(2.5); jdoc(*v, jd); *v += (SizeT64)1; emit("then-append", jd, jd, 0, *v); break;
                case 2: v = new (raw) V((SizeT64I)-7); jdoc(*v, jd); (*v)[SizeT{0}] = (SizeT64)1; emit("then-index", jd, jd, 0, *v); break;
                case 3: v = new (raw) V("abc", SizeT{3}); *v = (SizeT64)5; jdoc(*v, jd); (*v)[key_text(1).c_str()] = (SizeT64)1; emit("then-key", jd, jd, 1, *v); break;
                case 4: v = new (raw) V(true); jdoc(*v, jd); *v = V::ObjectT(); (*v)[key_text(1).c_str()] = (SizeT64)1; emit("then-key", jd, jd, 1, *v); break;
                case 5: v = new (raw) V(); *v = "hello, a string that owns memory"; jdoc(*v, jd); *v = ValueType::Array; emit("retag-array", jd, jd, 0, *v); break;
                case 6: v = new (raw) V(); *v = (SizeT64)5; jdoc(*v, jd); *v = ValueType::Object; (*v)[key_text(1).c_str()] = (SizeT64)1; emit("then-key", jd, jd, 1, *v); break;
                default: v = new (raw) V(); *v = V::ObjectT(); (*v)[key_text(1).c_str()] = (SizeT64)1; jdoc(*v, jd); v->SetPointerToValue(nullptr); emit("null-pointer", jd, jd, 0, *v);
            }
            v->~V();
        }
        fclose(out);
        vf::g_trace = nullptr;
        printf("EVENTS %ld\n", n);
        vf::end_cases();
        return 0;
    }
    if (mode == "group" && argc >= 5) {
        vf::Rng rng(strtoull(argv[2], nullptr, 10));
        long    nr  = atol(argv[3]);
        FILE   *out = fopen(argv[4], "w");
        vf::g_trace = out;
        long n = 0;
        // exhaustive part: 1..2 objects, every (group value, key position, value kind, removed) combination
        { vf::begin_case(n++); group_case(out, rng, 0, 3, true, 0); }      // the empty array: no groups, and that is a result
        for (int nobj = 1; nobj <= 2; ++nobj) {
            long per = 3 * 3 * 5 * 2, total = 1;
            for (int i = 0; i < nobj; ++i) total *= per;
            for (long code = 0; code < total; ++code) { vf::begin_case(n++); group_case(out, rng, nobj, 3, true, code); }
        }
        for (long i = 0; i < nr; ++i) { vf::begin_case(n++); group_case(out, rng, 1 + (int)rng.below(5), 1 + (int)rng.below(6), false, 0); }
        fclose(out);
        vf::g_trace = nullptr;
        printf("EVENTS %ld\n", n);
        vf::end_cases();
        return 0;
    }
    return 2;
}
