// Conformance harness for the JSON properties C05 (memory safety), C06 (denotation), C07 (all-or-nothing), C08 (stringify).
//   enum      <maxlen> <alphabet csv> <out>     every text over the alphabet, parsed from an exact-size buffer
//   docs      <seed> <n> <out>                  random RFC 8259 documents x spellings x widths (+ every cut, suffix, bracket mutation)
//   stringify <seed> <n> <out>                  random trees built through the Value API -> Stringify -> Parse -> Stringify
//   deep      <levels>                          nesting depth probe (prints ACCEPTED / REJECTED)
#include "common.hpp"
#include <deque>
#include "JSON.hpp"

using namespace Qentem;

// an integer too large for the oracle's small numbers: its kind, sign and decimal digits (code units), exact
static void big_int(std::string &o, const char *kind, int neg, const std::string &digits) {
    o += std::string("{\"t\":\"N\",\"k\":\"big\",\"m\":0,\"kind\":\"") + kind + "\",\"neg\":" + std::to_string(neg) + ",\"d\":[";
    for (size_t i = 0; i < digits.size(); ++i) o += (i ? "," : "") + std::to_string((int)digits[i]);
    o += "]}";
}
template <typename Ch>
static void jdoc(const Value<Ch> &v, std::string &o) {
    using U = typename std::make_unsigned<Ch>::type;
    ValueType t = v.Type();
    if (t == ValueType::ValuePtr)   // a pointer-to-value member stands for what it points to (every accessor below forwards)
        t = v.IsObject() ? ValueType::Object : v.IsArray() ? ValueType::Array : v.IsString() ? ValueType::String : v.IsUInt64() ? ValueType::UIntLong
            : v.IsInt64() ? ValueType::IntLong : v.IsDouble() ? ValueType::Double : v.IsTrue() ? ValueType::True : v.IsFalse() ? ValueType::False
            : v.IsNull() ? ValueType::Null : ValueType::Undefined;
    switch (t) {
        case ValueType::Undefined: o += "{\"t\":\"U\"}"; break;
        case ValueType::Null: o += "{\"t\":\"Z\"}"; break;
        case ValueType::True: o += "{\"t\":\"T\"}"; break;
        case ValueType::False: o += "{\"t\":\"F\"}"; break;
        case ValueType::UIntLong: {
            SizeT64 x = v.GetUInt64();
            if (x < 40000000ULL) o += "{\"t\":\"N\",\"k\":\"u64\",\"m\":" + std::to_string((long long)x * 2) + "}";
            else big_int(o, "u64", 0, std::to_string((unsigned long long)x));
            break;
        }
        case ValueType::IntLong: {
            SizeT64I x = v.GetInt64();
            if (x > -40000000LL && x < 40000000LL) o += "{\"t\":\"N\",\"k\":\"i64\",\"m\":" + std::to_string((long long)x * 2) + "}";
            else big_int(o, "i64", x < 0 ? 1 : 0, x < 0 ? std::to_string(0ULL - (unsigned long long)x) : std::to_string((unsigned long long)x));
            break;
        }
        case ValueType::Double: {
            double d = v.GetDouble() * 2.0;
            if (d > -268435456.0 && d < 268435456.0 && d == (double)(long long)d) o += "{\"t\":\"N\",\"k\":\"real\",\"m\":" + std::to_string((long long)d) + "}";
            else o += "{\"t\":\"N\",\"k\":\"approx\",\"m\":0}";
            break;
        }
        case ValueType::String: {
            o += "{\"t\":\"S\",\"s\":[";
            const Ch *p; SizeT n;
            v.SetCharAndLength(p, n);
            for (SizeT i = 0; i < n; ++i) { if (i) o += ","; o += std::to_string((unsigned long)(U)p[i]); }
            o += "]}";
            break;
        }
        case ValueType::Array: {
            o += "{\"t\":\"A\",\"e\":[";
            for (SizeT i = 0; i < v.Size(); ++i) {
                if (i) o += ",";
                const Value<Ch> *e = v.GetValue(i);
                if (e == nullptr) o += "{\"t\":\"U\"}"; else jdoc(*e, o);
            }
            o += "]}";
            break;
        }
        case ValueType::Object: {
            o += "{\"t\":\"O\",\"m\":[";
            bool first = true;
            for (SizeT i = 0; i < v.Size(); ++i) {
                const String<Ch> *k = v.GetKey(i);
                if (k == nullptr) continue;
                if (!first) o += ",";
                first = false;
                o += "{\"k\":[";
                for (SizeT j = 0; j < k->Length(); ++j) { if (j) o += ","; o += std::to_string((unsigned long)(U)k->First()[j]); }
                o += "],\"v\":";
                const Value<Ch> *e = v.GetValue(i);
                if (e == nullptr) o += "{\"t\":\"U\"}"; else jdoc(*e, o);
                o += "}";
            }
            o += "]}";
            break;
        }
        case ValueType::ValuePtr: o += "{\"t\":\"P\"}"; break;
    }
}

static long g_events = 0;
template <typename Ch>
static std::string parse_to_doc(const std::vector<long> &text, bool &undef) {
    vf::Exact<Ch> buf(text.begin(), text.end());
    Value<Ch>     v = JSON::Parse((const Ch *)buf.data(), (SizeT)buf.n);
    undef           = v.IsUndefined();
    {   // the same text through a caller-supplied scratch stream that an earlier, FAILED parse has used: the result must not differ
        static const char    bad[] = "[\"ab\\u00e9\\q\"]";
        std::basic_string<Ch> badw(bad, bad + sizeof(bad) - 1);
        StringStream<Ch>      scratch;
        Value<Ch>             rejected = JSON::Parse(scratch, badw.data(), (SizeT)badw.size());
        Value<Ch>             again    = JSON::Parse(scratch, (const Ch *)buf.data(), (SizeT)buf.n);
        std::string d1, d2;
        jdoc(v, d1);
        jdoc(again, d2);
        if (!rejected.IsUndefined() || d1 != d2) undef = !undef;      // (reported through the verdict: the oracle sees the wrong acceptance / rejection)
    }
    std::string d;
    jdoc(v, d);
    return d;
}
template <typename Ch>
static void event(FILE *out, int w, const char *fam, const std::vector<long> &text) {
    bool        undef;
    std::string d = parse_to_doc<Ch>(text, undef);
    std::string js;
    vf::json_ints(js, text);
    fprintf(out, "{\"w\":%d,\"fam\":\"%s\",\"s\":%s,\"undef\":%d,\"doc\":%s}\n", w, fam, js.c_str(), undef ? 1 : 0, d.c_str());
    ++g_events;
}

// ---------------- random documents ---------------------------------------------------------
struct Gen {
    vf::Rng &rng;
    int      w;   // target width 8 / 16 / 32 (decides how raw non-ASCII characters are written into the text)
    explicit Gen(vf::Rng &r, int width) : rng(r), w(width) {}
    void ws(std::vector<long> &t) {
        int n = rng.below(4) == 0 ? (int)rng.below(3) : 0;
        static const long W[4] = {32, 9, 10, 13};
        for (int i = 0; i < n; ++i) t.push_back(W[rng.below(4)]);
    }
    void hex4(std::vector<long> &t, unsigned u) {
        t.push_back('\\');
        t.push_back('u');
        bool up = rng.below(2);
        for (int s = 12; s >= 0; s -= 4) {
            unsigned d = (u >> s) & 15;
            t.push_back(d < 10 ? '0' + d : (up ? 'A' : 'a') + (d - 10));
        }
    }
    void raw_cp(std::vector<long> &t, unsigned cp) {   // a literal (unescaped) character in the input text
        if (w == 8) {
            if (cp < 0x80) t.push_back(cp);
            else if (cp < 0x800) { t.push_back(0xC0 | (cp >> 6)); t.push_back(0x80 | (cp & 0x3F)); }
            else if (cp < 0x10000) { t.push_back(0xE0 | (cp >> 12)); t.push_back(0x80 | ((cp >> 6) & 0x3F)); t.push_back(0x80 | (cp & 0x3F)); }
            else { t.push_back(0xF0 | (cp >> 18)); t.push_back(0x80 | ((cp >> 12) & 0x3F)); t.push_back(0x80 | ((cp >> 6) & 0x3F)); t.push_back(0x80 | (cp & 0x3F)); }
        } else if (w == 16) {
            if (cp < 0x10000) t.push_back(cp);
            else { unsigned d = cp - 0x10000; t.push_back(0xD800 + (d >> 10)); t.push_back(0xDC00 + (d & 0x3FF)); }
        } else t.push_back(cp);
    }
    unsigned code_point() {
        static const unsigned pts[] = {0x41, 0x7F, 0x80, 0xE9, 0x7FF, 0x800, 0x20AC, 0xD7FF, 0xE000, 0xFFFD, 0xFFFF, 0x10000, 0x1F600, 0x4FFFF, 0x50000, 0x10FFFF, 0x22, 0x5C, 0x2F, 0x08, 0x0C, 0x0A, 0x0D, 0x09, 0x00, 0x1F};
        return pts[rng.below(sizeof(pts) / sizeof(pts[0]))];
    }
    void str(std::vector<long> &t) {
        t.push_back('"');
        int n = (int)rng.below(5);
        for (int i = 0; i < n; ++i) {
            unsigned cp = rng.below(3) ? (unsigned)('a' + rng.below(26)) : code_point();
            bool must_escape = cp < 0x20 || cp == '"' || cp == '\\';
            int  how = (int)rng.below(3);
            if (must_escape || how == 0) {
                static const char S[] = {'"', '\\', '/', 'b', 'f', 'n', 'r', 't'};
                static const unsigned V[] = {0x22, 0x5C, 0x2F, 0x08, 0x0C, 0x0A, 0x0D, 0x09};
                int si = -1;
                for (int k = 0; k < 8; ++k) if (V[k] == cp) si = k;
                if (si >= 0 && rng.below(2)) { t.push_back('\\'); t.push_back(S[si]); }
                else if (cp < 0x10000) hex4(t, cp);
                else { unsigned d = cp - 0x10000; hex4(t, 0xD800 + (d >> 10)); hex4(t, 0xDC00 + (d & 0x3FF)); }
            } else raw_cp(t, cp);
        }
        t.push_back('"');
    }
    void num(std::vector<long> &t) {
        static const char *N[] = {"0", "1", "7", "12", "120", "-3", "-0", "2.5", "-2.5", "0.5", "10.25", "1e2", "1E2", "1e+2", "25e-1", "-5E-1", "1.5e3", "0.0", "100", "9007199254740993",
                                  "18446744073709551615", "-9223372036854775807", "-9223372036854775808", "9223372036854775807", "9223372036854775808", "18446744073709551614", "18446744073709551616",
                                  "-9223372036854775809", "4294967296", "-2147483649", "99999999999999999999", "0e0", "0.0e5", "1.000", "3.25e0", "123456.5"};
        const char *s = N[rng.below(sizeof(N) / sizeof(N[0]))];
        for (; *s; ++s) t.push_back(*s);
    }
    void value(std::vector<long> &t, int depth) {
        uint32_t r = rng.below(depth <= 0 ? 6 : 10);
        if (r == 0) { for (const char *s = "true"; *s; ++s) t.push_back(*s); }
        else if (r == 1) { for (const char *s = "false"; *s; ++s) t.push_back(*s); }
        else if (r == 2) { for (const char *s = "null"; *s; ++s) t.push_back(*s); }
        else if (r < 5) num(t);
        else if (r < 6) str(t);
        else if (r < 8) array(t, depth - 1);
        else object(t, depth - 1);
    }
    void array(std::vector<long> &t, int depth) {
        t.push_back('[');
        ws(t);
        int n = (int)rng.below(4);
        for (int i = 0; i < n; ++i) {
            if (i) { t.push_back(','); ws(t); }
            value(t, depth);
            ws(t);
        }
        t.push_back(']');
    }
    void object(std::vector<long> &t, int depth) {
        t.push_back('{');
        ws(t);
        int n = (int)rng.below(4);
        std::vector<long> firstkey;
        for (int i = 0; i < n; ++i) {
            if (i) { t.push_back(','); ws(t); }
            if (i == 2 && rng.below(2) && !firstkey.empty()) t.insert(t.end(), firstkey.begin(), firstkey.end());   // duplicate key
            else {
                std::vector<long> k;
                str(k);
                if (i == 0) firstkey = k;
                t.insert(t.end(), k.begin(), k.end());
            }
            ws(t);
            t.push_back(':');
            ws(t);
            value(t, depth);
            ws(t);
        }
        t.push_back('}');
    }
};

template <typename Ch>
static void doc_family(FILE *out, vf::Rng &rng, int w, bool families) {
    Gen               g(rng, w);
    std::vector<long> t;
    if (rng.below(2)) g.array(t, 2); else g.object(t, 2);
    std::vector<long> full;
    g.ws(full);
    full.insert(full.end(), t.begin(), t.end());
    g.ws(full);
    event<Ch>(out, w, "doc", full);
    if (!families) return;
    // every proper prefix of the document (without trailing whitespace)
    for (size_t n = 0; n < t.size(); ++n) { std::vector<long> c(t.begin(), t.begin() + (long)n); event<Ch>(out, w, "cut", c); }
    // the document followed by a non-whitespace unit
    static const long SUF[] = {',', ']', '}', '0', 'x', '"', ':', '[', '{', 0, 'n'};
    for (long sfx : SUF) { std::vector<long> c(t); c.push_back(sfx); event<Ch>(out, w, "suffix", c); }
    // (once per width) every hex digit of a \\u escape - single, surrogate pair, in a key - replaced by units around the hex ranges and by
    // units with the top bit set (negative for the signed character types: an index computed from the unit must not go astray)
    static bool hexbad_done[3] = {false, false, false};
    int wi = (w == 8) ? 0 : (w == 16) ? 1 : 2;
    if (!hexbad_done[wi]) {
        hexbad_done[wi] = true;
        static const char *BASE[] = {"[\"\\u00e9\"]", "[\"x\\uD83D\\uDE00y\"]", "{\"k\\u0041\":\"\\u0042\"}", "[\"\\uFFFF\"", "[\"\\u12"};
        static const long  BAD[]  = {0x80, 0xC3, 0xE9, 0xFF, 'g', 'G', '/', ':', '@', '`', 0, ' ', '"', '\\', 0x141, 0x8041, 0x10041, 0x7FFFFF41L};
        for (const char *b : BASE) {
            std::vector<long> base;
            for (const char *q = b; *q; ++q) base.push_back((unsigned char)*q);
            for (size_t i = 0; i + 1 < base.size(); ++i) {
                if (base[i] != '\\' || base[i + 1] != 'u') continue;
                for (size_t d = i + 2; d < i + 6 && d < base.size(); ++d)
                    for (long bad : BAD) {
                        if ((w == 8 && (bad > 0xFF || bad < 0)) || (w == 16 && (bad > 0xFFFF || bad < 0))) continue;
                        std::vector<long> m(base);
                        m[d] = bad;
                        event<Ch>(out, w, "hexbad", m);
                    }
            }
        }
    }
    // (once per width) texts that are NOT JSON although a lenient reader takes them: a NUL behind a literal, raw control characters in
    // strings and keys, a high surrogate escape that is not followed by a \\u escape; and the leniencies the repository's own tests pin
    // (families capU / hexnum / numgram: recorded findings)
    static bool lenient_done[3] = {false, false, false};
    if (!lenient_done[wi]) {
        lenient_done[wi] = true;
        auto emit = [&](const char *fam, const std::string &txt) {
            std::vector<long> m;
            for (unsigned char ch : txt) m.push_back(ch);
            event<Ch>(out, w, fam, m);
        };
        for (const char *lit : {"true", "false", "null"}) {
            emit("nulit", std::string("[") + lit + std::string(1, '\0') + "]");
            emit("nulit", std::string("{\"a\":") + lit + std::string(1, '\0') + "}");
            emit("nulit", std::string("[") + lit + std::string(1, '\0') + "false]");
            emit("nulit", std::string("[") + std::string(lit).substr(0, 3) + std::string(1, '\0') + "]");
        }
        for (int cch = 0; cch < 0x20; ++cch) {
            emit("ctrl", std::string("[\"a") + std::string(1, (char)cch) + "b\"]");
            emit("ctrl", std::string("{\"k") + std::string(1, (char)cch) + "\":1}");
            emit("ctrl", std::string("[\"") + std::string(1, (char)cch) + "\"]");
        }
        // (a lone surrogate escape is grammatical JSON but no Unicode text: outside the properties; only texts that are not JSON at all)
        for (const char *t : {"[\"\\ud83d\",1234\"]", "[\"\\ud83d\"]1234\"]", "{\"\\ud83d\",12:34\"]", "[\"\\uD83D\"\"E00\"]"})
            emit("hisur", t);
        for (const char *t : {"[\"\\U0041\"]", "[\"\\UD83D\\UDE00\"]", "{\"\\U0041\":1}"}) emit("capU", t);
        for (const char *t : {"[0x10]", "[0X1f]", "[-0x10]", "{\"a\":0xAAAA}", "[0x]"}) emit("hexnum", t);
        for (const char *t : {"[+1]", "[+1.5e3]", "[.5]", "[-.5]", "[5.]", "[0.]", "[1.e2]", "[0.e1]", "{\"a\":+1}", "{\"a\":5.}"}) emit("numgram", t);
    }
    // a structural closing bracket replaced by the other kind / removed
    bool in_str = false;
    for (size_t i = 0; i < t.size(); ++i) {
        long c = t[i];
        if (in_str) { if (c == '\\') ++i; else if (c == '"') in_str = false; continue; }
        if (c == '"') { in_str = true; continue; }
        if (c == ']' || c == '}') {
            std::vector<long> m(t);
            m[i] = (c == ']') ? '}' : ']';
            event<Ch>(out, w, "swap", m);
            m.erase(m.begin() + (long)i);
            event<Ch>(out, w, "drop", m);
        }
    }
}

// ---------------- stringify (C08) -------------------------------------------------------------
// values that pointer-to-value members refer to (they outlive every tree)
template <typename Ch>
static const Value<Ch> *pointee(vf::Rng &rng, bool release = false) {
    static Value<Ch> pool[12];
    static bool      init = false;
    if (release) {   // end of the run: give the pool back before the ledger is read
        for (auto &x : pool) x.Reset();
        init = false;
        return nullptr;
    }
    if (!init) {
        init = true;
        const Ch s[] = {Ch('p'), Ch('"'), Ch('q'), Ch(0)};
        pool[0] = (const Ch *)s;
        pool[1] = (SizeT64)7;
        pool[2] = (SizeT64I)-3;
        pool[3] = 2.5;
        pool[4] = true;
        pool[5] = nullptr;
        pool[6] = typename Value<Ch>::ArrayT();
        pool[6] += (SizeT64)1;
        pool[6] += false;
        pool[7] = typename Value<Ch>::ObjectT();
        const Ch k[] = {Ch('k'), Ch(0)};
        pool[7][(const Ch *)k] = (SizeT64)1;
        // pool[8] stays Undefined: a pointer to it has nothing to print (the member / element is left out, like an Undefined one);
        // and so has a pointer to a pointer to it; pointers to pointers to a string and to an array
        pool[9].SetPointerToValue(&pool[8]);
        pool[10].SetPointerToValue(&pool[0]);
        pool[11].SetPointerToValue(&pool[6]);
    }
    return &pool[rng.below(12)];
}
template <typename Ch>
static Value<Ch> rnd_tree(vf::Rng &rng, int depth) {
    Value<Ch> v;
    uint32_t  r = rng.below(depth <= 0 ? 8 : 12);
    switch (r) {
        case 0: v = nullptr; break;
        case 1: v = true; break;
        case 2: v = false; break;
        case 3: v = (SizeT64)(rng.below(3) ? rng.below(1000) : (rng.below(2) ? 18446744073709551615ULL : 9007199254740993ULL)); break;
        case 4: v = (SizeT64I)(rng.below(3) ? -(long long)rng.below(1000) - 1 : (-9223372036854775807LL - 1)); break;
        case 5: v = (double)((long)rng.below(4001) - 2000) / 2.0; break;
        case 6: case 7: {
            std::basic_string<Ch> s;
            int n = (int)rng.below(6);
            static const unsigned U8[] = {0, 1, 8, 9, 10, 12, 13, 0x1F, 0x22, 0x5C, 0x2F, 0x7F, 0x41, 0x7A, 0x20};
            for (int i = 0; i < n; ++i) {
                unsigned c = rng.below(2) ? (unsigned)('a' + rng.below(26)) : (rng.below(2) ? U8[rng.below(15)] : rng.below(0x21));   // every control character 0x00..0x1F, space
                if (sizeof(Ch) > 1 && rng.below(5) == 0) {
                    // wide units, among them units whose LOW BYTE is a control character, a quote or a backslash
                    static const unsigned W[] = {0x20AC, 0xE9, 0x041F, 0x4E00, 0x0100, 0x4E09, 0x0122, 0x015C, 0x010A, 0x011F, 0xFF0D, 0xD7FF, 0xE000, 0xFFFD};
                    c = W[rng.below(14)];
                    if (sizeof(Ch) == 4 && rng.below(3) == 0) c = rng.below(2) ? 0x1F600 : 0x10009;
                }
                s.push_back((Ch)c);
            }
            v = String<Ch>((const Ch *)s.data(), (SizeT)s.size());
            break;
        }
        case 8: case 9: {
            v = typename Value<Ch>::ArrayT();
            int n = (int)rng.below(4);
            for (int i = 0; i < n; ++i) {
                if (rng.below(6) == 0) v.AddPointerToValue(pointee<Ch>(rng));   // a pointer-to-value item: stringified as what it points to
                else v += rnd_tree<Ch>(rng, depth - 1);
            }
            if (n > 0 && rng.below(3) == 0) v.RemoveIndex((SizeT)rng.below((uint32_t)n));   // an Undefined slot (omitted in the text)
            break;
        }
        default: {
            v = typename Value<Ch>::ObjectT();
            int n = (int)rng.below(4);
            static const char *K[] = {"a", "", "k\"q", "b\\", "\x01", "key", "z/", "\x0b", "t\tn\n", "\x1f\x7f"};
            for (int i = 0; i < n; ++i) {
                const char *k = K[rng.below(10)];
                std::basic_string<Ch> ks;
                for (const char *p = k; *p; ++p) ks.push_back((Ch)(unsigned char)*p);
                if (sizeof(Ch) > 1 && rng.below(5) == 0) ks.push_back((Ch)(rng.below(2) ? 0x041F : 0x4E22));   // wide key units with a control / quote low byte
                if (rng.below(6) == 0) v[String<Ch>((const Ch *)ks.data(), (SizeT)ks.size())].SetPointerToValue(pointee<Ch>(rng));
                else v[String<Ch>((const Ch *)ks.data(), (SizeT)ks.size())] = rnd_tree<Ch>(rng, depth - 1);
            }
            if (n > 0 && rng.below(3) == 0) v.RemoveIndex((SizeT)rng.below((uint32_t)v.Size()));   // removed member
            if (rng.below(5) == 0) { const Ch un[] = {Ch('u'), Ch('n'), Ch(0)}; v[(const Ch *)un]; }                                                        // a member whose value is Undefined (omitted)
        }
    }
    return v;
}
// builds the representation a QStringifyImpl state describes: {"t":"s"|"U"|"P"|"A"|"O", "to":.., "e":[..], "s":[{"k":n,"live":bool,"v":..}]}
static void sbuild(const Value<char> &d, Value<char> &out, std::deque<Value<char>> &targets) {
    const Value<char> *tv = d.GetValue("t", 1);
    const char        *t;
    SizeT              tl;
    if (tv == nullptr || !tv->SetCharAndLength(t, tl) || tl != 1) return;
    switch (t[0]) {
        case 's': out = (SizeT64)1; break;
        case 'U': break;
        case 'P': {
            targets.emplace_back();
            Value<char> &target = targets.back();
            sbuild(*d.GetValue("to", 2), target, targets);
            out.SetPointerToValue(&target);
            break;
        }
        case 'A': {
            out = Value<char>::ArrayT();
            const Value<char> *e = d.GetValue("e", 1);
            std::vector<SizeT> undef;
            for (SizeT i = 0; e != nullptr && i < e->Size(); ++i) {
                Value<char> item;
                sbuild(*e->GetValue(i), item, targets);
                out += (SizeT64)0;                                                     // a placeholder element ...
                if (item.Type() == ValueType::Undefined) undef.push_back(i);           // ... removed again below: an Undefined element
                else *out.GetValue(out.Size() - 1) = Memory::Move(item);               // ... or replaced (+= of a container would merge)
            }
            for (SizeT i : undef) out.RemoveIndex(i);
            break;
        }
        default: {
            out = Value<char>::ObjectT();
            const Value<char> *sl = d.GetValue("s", 1);
            std::vector<std::string> dead;
            for (SizeT i = 0; sl != nullptr && i < sl->Size(); ++i) {
                const Value<char> *slot = sl->GetValue(i);
                std::string        key  = "k" + std::to_string((long)slot->GetValue("k", 1)->GetNumber());
                if (slot->GetValue("live", 4)->IsTrue()) {
                    Value<char> item;
                    sbuild(*slot->GetValue("v", 1), item, targets);
                    out[key.c_str()] = Memory::Move(item);
                } else {
                    out[(key + "d" + std::to_string((long)i)).c_str()] = (SizeT64)9;     // a member that is removed again: leaves a dead slot here
                    dead.push_back(key + "d" + std::to_string((long)i));
                }
            }
            for (const std::string &k : dead) out.Remove(k.c_str());
        }
    }
}
template <typename Ch>
static void stringify_case(FILE *out, vf::Rng &rng, int w) {
    using U = typename std::make_unsigned<Ch>::type;
    Value<Ch> tree;
    if (rng.below(2)) { tree = typename Value<Ch>::ArrayT(); int n = (int)rng.below(4); for (int i = 0; i < n; ++i) tree += rnd_tree<Ch>(rng, 2); if (n > 1 && rng.below(3) == 0) tree.RemoveIndex(SizeT(n - 1)); }
    else { tree = rnd_tree<Ch>(rng, 3); if (!tree.IsObject() && !tree.IsArray()) { Value<Ch> x = Memory::Move(tree); tree = typename Value<Ch>::ArrayT(); tree += Memory::Move(x); } }
    std::string jt;
    jdoc(tree, jt);
    StringStream<Ch> ss;
    ss += Ch('#');                       // only appends to the caller's stream
    tree.Stringify(ss, 17U);
    std::vector<long> text;
    for (SizeT i = 1; i < ss.Length(); ++i) text.push_back((long)(U)ss.First()[i]);
    bool keeps_prefix = ss.Length() >= 1 && ss.First()[0] == Ch('#');
    vf::Exact<Ch> buf(text.begin(), text.end());
    Value<Ch>     back = JSON::Parse((const Ch *)buf.data(), (SizeT)buf.n);
    std::string   jb;
    jdoc(back, jb);
    String<Ch> again = back.Stringify(17U);
    bool       fixed = (again.Length() == (SizeT)text.size());
    for (SizeT i = 0; fixed && i < again.Length(); ++i) fixed = ((long)(U)again.First()[i] == text[i]);
    std::string js;
    vf::json_ints(js, text);
    fprintf(out, "{\"w\":%d,\"fam\":\"stringify\",\"tree\":%s,\"s\":%s,\"back\":%s,\"fixed\":%d,\"prefix\":%d}\n", w, jt.c_str(), js.c_str(), jb.c_str(), fixed ? 1 : 0,
            keeps_prefix ? 1 : 0);
    ++g_events;
}

int main(int argc, char **argv) {
    vf::install_handlers();
    vf::ledger_trace("h_json", true);
    if (argc < 2) return 2;
    std::string mode = argv[1];
    if (mode == "enum" && argc >= 5) {
        int               maxlen = atoi(argv[2]);
        std::vector<long> alpha  = vf::parse_ints(argv[3]);
        FILE             *out    = fopen(argv[4], "w");
        vf::g_trace              = out;
        long n = 0, widthdiff = 0;
        for (int len = 0; len <= maxlen; ++len) {
            std::vector<size_t> idx((size_t)len, 0);
            while (true) {
                std::vector<long> s;
                for (size_t i : idx) s.push_back(alpha[i]);
                vf::begin_case(n++);
                {
                    std::string js;
                    vf::json_ints(js, s);
                    snprintf(vf::g_desc, sizeof(vf::g_desc), "text=%s", js.c_str());
                }
                bool u8, u16, u32;
                std::string d8 = parse_to_doc<char>(s, u8), d16 = parse_to_doc<char16_t>(s, u16), d32 = parse_to_doc<char32_t>(s, u32);
                std::string js;
                vf::json_ints(js, s);
                fprintf(out, "{\"w\":8,\"fam\":\"enum\",\"s\":%s,\"undef\":%d,\"doc\":%s}\n", js.c_str(), u8 ? 1 : 0, d8.c_str());
                ++g_events;
                if (d16 != d8) { fprintf(out, "{\"w\":16,\"fam\":\"enum\",\"s\":%s,\"undef\":%d,\"doc\":%s}\n", js.c_str(), u16 ? 1 : 0, d16.c_str()); ++g_events; ++widthdiff; }
                if (d32 != d8) { fprintf(out, "{\"w\":32,\"fam\":\"enum\",\"s\":%s,\"undef\":%d,\"doc\":%s}\n", js.c_str(), u32 ? 1 : 0, d32.c_str()); ++g_events; ++widthdiff; }
                int p = len - 1;
                while (p >= 0 && ++idx[(size_t)p] == alpha.size()) idx[(size_t)p--] = 0;
                if (p < 0) break;
            }
        }
        fclose(out);
        vf::g_trace = nullptr;
        printf("TEXTS %ld\nEVENTS %ld\nWIDTHDIFF %ld\n", n, g_events, widthdiff);
    } else if (mode == "docs" && argc >= 5) {
        vf::Rng rng(strtoull(argv[2], nullptr, 10));
        long    n   = atol(argv[3]);
        FILE   *out = fopen(argv[4], "w");
        vf::g_trace = out;
        for (long i = 0; i < n; ++i) {
            vf::begin_case(i);
            snprintf(vf::g_desc, sizeof(vf::g_desc), "doc %ld", i);
            bool fam = (i % 4 == 0);
            switch (i % 3) {
                case 0: doc_family<char>(out, rng, 8, fam); break;
                case 1: doc_family<char16_t>(out, rng, 16, fam); break;
                default: doc_family<char32_t>(out, rng, 32, fam); break;
            }
        }
        fclose(out);
        vf::g_trace = nullptr;
        printf("EVENTS %ld\n", g_events);
    } else if (mode == "stringify" && argc >= 5) {
        vf::Rng rng(strtoull(argv[2], nullptr, 10));
        long    n   = atol(argv[3]);
        FILE   *out = fopen(argv[4], "w");
        vf::g_trace = out;
        pointee<char>(rng);       // the shared pointees exist before the first case's ledger scope
        pointee<char16_t>(rng);
        pointee<char32_t>(rng);
        for (long i = 0; i < n; ++i) {
            vf::begin_case(i);
            switch (i % 3) {
                case 0: stringify_case<char>(out, rng, 8); break;
                case 1: stringify_case<char16_t>(out, rng, 16); break;
                default: stringify_case<char32_t>(out, rng, 32); break;
            }
        }
        fclose(out);
        vf::g_trace = nullptr;
        vf::scope_end(1);   // (C16: the last case's ledger scope ends before the shared pool goes)
        pointee<char>(rng, true);
        pointee<char16_t>(rng, true);
        pointee<char32_t>(rng, true);
        printf("EVENTS %ld\n", g_events);
        vf::Ledger &l = vf::ledger();
        printf("LEDGER allocs=%ld frees=%ld live=%zu badfree=%ld\n", l.allocs, l.frees, l.live.size(), l.bad_free);
    } else if (mode == "sreplay" && argc >= 4) {
        // spec -> code (E2): every state of QStringifyImpl is built through the public API (dead slots, Undefined elements, pointers) and
        // stringified after the state's previous stream content; the text must be the model's tokens.   line: description \t before \t expected
        FILE *in  = fopen(argv[2], "r");
        FILE *out = fopen(argv[3], "w");
        std::string line;
        long        n = 0, bad = 0;
        int         ch;
        while (in != nullptr) {
            line.clear();
            while ((ch = fgetc(in)) != EOF && ch != '\n') line.push_back((char)ch);
            if (line.empty() && ch == EOF) break;
            size_t t1 = line.find('\t'), t2 = line.find('\t', t1 + 1);
            if (t1 == std::string::npos || t2 == std::string::npos) continue;
            std::string desc = line.substr(0, t1), before = line.substr(t1 + 1, t2 - t1 - 1), expected = line.substr(t2 + 1);
            vf::begin_case(n);
            snprintf(vf::g_desc, sizeof(vf::g_desc), "sreplay %ld", n);
            {
                Value<char>            d = JSON::Parse(desc.c_str(), (SizeT)desc.size());
                std::deque<Value<char>> targets;   // pointees (stable addresses), destroyed after the tree
                Value<char>            tree;
                sbuild(d, tree, targets);
                StringStream<char> ss;
                ss.Write(before.c_str(), (SizeT)before.size());
                tree.Stringify(ss, 17);
                std::string got(ss.First(), ss.Length());
                if (got != expected) {
                    ++bad;
                    fprintf(out, "{\"n\":%ld,\"desc\":%s}\n", n, desc.c_str());
                    if (bad <= 20) printf("MISMATCH state %ld got=%s expected=%s\n", n, got.c_str(), expected.c_str());
                }
                tree.Reset();
            }
            ++n;
            if (ch == EOF) break;
        }
        if (in) fclose(in);
        if (out) fclose(out);
        printf("STATES %ld MISMATCHES %ld\nDONE\n", n, bad);
    } else if (mode == "deep" && argc >= 3) {
        long              levels = atol(argv[2]);
        std::vector<long> t;
        for (long i = 0; i < levels; ++i) t.push_back(i % 2 ? '[' : '[');
        for (long i = 0; i < levels; ++i) t.push_back(']');
        vf::begin_case(0, 60);
        bool u;
        parse_to_doc<char>(t, u);
        std::vector<long> o;
        for (long i = 0; i < levels; ++i) { o.push_back('{'); o.push_back('"'); o.push_back('a'); o.push_back('"'); o.push_back(':'); }
        o.push_back('1');
        for (long i = 0; i < levels; ++i) o.push_back('}');
        bool u2;
        parse_to_doc<char>(o, u2);
        printf("%s %s\n", u ? "REJECTED" : "ACCEPTED", u2 ? "REJECTED" : "ACCEPTED");
    } else return 2;
    vf::end_cases();
    return 0;
}
