// Common plumbing of the conformance harnesses (not part of Qentem).
// - allocation ledger behind Qentem's existing QENTEM_Q_TEST_H seam
// - crash / hang protocol: last stdout line is "DONE", "CRASH <case> <sig>" or "HANG <case>"
// - small RNG, ndjson helpers, exact-size buffers
#ifndef VERIF_COMMON_HPP
#define VERIF_COMMON_HPP

#include <new>
#include <exception>
#include <cstdio>
#include <cstdlib>
#include <cstring>
#include <csignal>
#include <cstdint>
#include <string>
#include <vector>
#include <map>
#include <set>
#include <unordered_map>
#include <algorithm>
#include <iterator>
#include <unistd.h>

// ---- allocation ledger ---------------------------------------------------
#ifndef VERIF_NO_LEDGER
#define QENTEM_Q_TEST_H
namespace Qentem {
struct MemoryRecord {
    static void AddAllocation(void *p) noexcept;
    static void RemoveAllocation(void *p) noexcept;
};
} // namespace Qentem
#endif

namespace vf {

struct Ledger {
    std::unordered_map<void *, long> live;  // address -> allocation instance id
    long                             next_id{1};
    long                             bad_free{0};   // free of an address that is not live
    long                             allocs{0}, frees{0};
    bool                             log{false};
    std::vector<long>                events;        // +id alloc, -id free, 0 bad free (when log)
    bool                             enabled{true};
    // C16: scopes written to $VERIF_LEDGER (one ndjson line per scope / segment; see spec/OracleMem.tla)
    FILE                            *file{nullptr};
    const char                      *harness{""};
    bool                             scope_open{false};
    bool                             case_scoped{false};   // every case creates and destroys all of its objects
    long                             scope_id{0}, seg{0};
    std::vector<long>                base, base0;          // instances live when the segment / the scope began
};
inline Ledger &ledger() {
    static Ledger *l = new Ledger();
    return *l;
}
} // namespace vf

namespace vf {
inline void ledger_segment_begin(Ledger &l) {
    l.base.clear();
    for (auto &kv : l.live) l.base.push_back(kv.second);
    std::sort(l.base.begin(), l.base.end());
    l.events.clear();
    l.log = true;
}
inline void ledger_segment_end(Ledger &l, int z) {
    if (l.file == nullptr) return;
    fprintf(l.file, "{\"h\":\"%s\",\"c\":%ld,\"seg\":%ld,\"z\":%d,\"base\":[", l.harness, l.scope_id, l.seg++, z);
    for (size_t i = 0; i < l.base.size(); ++i) fprintf(l.file, i ? ",%ld" : "%ld", l.base[i]);
    fprintf(l.file, "],\"base0\":[");
    for (size_t i = 0; i < l.base0.size(); ++i) fprintf(l.file, i ? ",%ld" : "%ld", l.base0[i]);
    fprintf(l.file, "],\"ev\":[");
    for (size_t i = 0; i < l.events.size(); ++i) fprintf(l.file, i ? ",%ld" : "%ld", l.events[i]);
    fprintf(l.file, "]}\n");
    fflush(l.file);   // a later crash must not cut a line
    l.events.clear();
}
inline void scope_begin(long id) {
    Ledger &l = ledger();
    if (l.file == nullptr) return;
    l.enabled    = false;
    l.scope_id   = id;
    l.seg        = 0;
    l.scope_open = true;
    ledger_segment_begin(l);
    l.base0 = l.base;
    l.enabled = true;
}
inline void scope_end(int z) {
    Ledger &l = ledger();
    if (l.file == nullptr || !l.scope_open) return;
    l.enabled = false;
    ledger_segment_end(l, z);
    if (l.case_scoped && l.live.size() != l.base0.size()) {
        // what this scope leaked has been reported with it: forget it, so that the next scopes start from the same base
        std::set<long> keep(l.base0.begin(), l.base0.end());
        for (auto it = l.live.begin(); it != l.live.end();) it = keep.count(it->second) ? std::next(it) : l.live.erase(it);
    }
    l.scope_open = false;
    l.log        = false;
    l.enabled    = true;
}
// a long scope is cut into segments (the oracle folds one segment at a time)
inline void ledger_maybe_cut(Ledger &l) {
    if (l.file != nullptr && l.scope_open && l.events.size() >= 1500) {
        ledger_segment_end(l, 0);
        ledger_segment_begin(l);
    }
}
} // namespace vf

#ifndef VERIF_NO_LEDGER
inline void Qentem::MemoryRecord::AddAllocation(void *p) noexcept {
    vf::Ledger &l = vf::ledger();
    if (!l.enabled) return;
    l.enabled = false;
    long id   = l.next_id++;
    l.live[p] = id;
    ++l.allocs;
    if (l.log) l.events.push_back(id);
    vf::ledger_maybe_cut(l);
    l.enabled = true;
}
inline void Qentem::MemoryRecord::RemoveAllocation(void *p) noexcept {
    vf::Ledger &l = vf::ledger();
    if (!l.enabled) return;
    l.enabled = false;
    auto it   = l.live.find(p);
    if (it == l.live.end()) {
        ++l.bad_free;
        if (l.log) l.events.push_back(0);
    } else {
        if (l.log) l.events.push_back(-it->second);
        l.live.erase(it);
        ++l.frees;
    }
    vf::ledger_maybe_cut(l);
    l.enabled = true;
}
#endif

#if defined(VERIF_ASAN)
extern "C" void __sanitizer_set_death_callback(void (*)(void));
#endif

namespace vf {

// ---- crash protocol -------------------------------------------------------
static volatile long g_case = -1;
static FILE         *g_trace = nullptr;
static char          g_desc[1024] = "";   // human readable description of the running case (printed on crash)

inline void last_gasp(const char *what, int sig) {
    if (g_trace) fflush(g_trace);
    fflush(stdout);
    char buf[96];
    int  n = snprintf(buf, sizeof(buf), "\n%s %ld %d ", what, (long)g_case, sig);
    if (write(1, buf, (size_t)n) < 0) {}
    if (write(1, g_desc, strlen(g_desc)) < 0) {}
    if (write(1, "\n", 1) < 0) {}
}
inline void on_signal(int sig) {
    last_gasp(sig == SIGALRM ? "HANG" : "CRASH", sig);
    _exit(sig == SIGALRM ? 96 : 97);
}
inline void on_death() { last_gasp("CRASH", 0); }
inline void on_terminate() {
    last_gasp("CRASH", -1);
    _exit(97);
}
inline void install_handlers() {
    signal(SIGALRM, on_signal);
    signal(SIGFPE, on_signal);
    signal(SIGILL, on_signal);
    signal(SIGABRT, on_signal);
#if defined(VERIF_ASAN)
    __sanitizer_set_death_callback(on_death);
#else
    signal(SIGSEGV, on_signal);
    signal(SIGBUS, on_signal);
#endif
    std::set_terminate(on_terminate);
}
inline void begin_case(long n, unsigned seconds = 20) {
    g_case = n;
    alarm(seconds);
#ifndef VERIF_NO_LEDGER
    Ledger &l = ledger();
    if (l.file != nullptr && l.case_scoped) {
        scope_end(1);
        scope_begin(n);
    }
#endif
}
// C16: record the allocation ledger of this run into $VERIF_LEDGER.  case_scoped: every begin_case() starts a scope whose objects
// are all gone at the next begin_case(); otherwise the whole run is one scope that ends (everything destroyed) at end_cases().
inline void ledger_trace(const char *harness, bool case_scoped) {
#ifndef VERIF_NO_LEDGER
    const char *p = getenv("VERIF_LEDGER");
    if (p == nullptr || *p == 0) return;
    Ledger &l     = ledger();
    l.enabled     = false;
    l.file        = fopen(p, "a");   // (a crash-recovery restart of the same run appends)
    l.harness     = harness;
    l.case_scoped = case_scoped;
    l.enabled     = true;
    if (!case_scoped) scope_begin(0);
#endif
}
inline void end_cases() {
    alarm(0);
#ifndef VERIF_NO_LEDGER
    {
        Ledger &l = ledger();
        if (l.file != nullptr) {
            scope_end(1);
            l.enabled = false;
            fclose(l.file);
            l.file    = nullptr;
            l.enabled = true;
        }
    }
#endif
    if (g_trace) fflush(g_trace);
    printf("DONE\n");
    fflush(stdout);
}

// ---- rng -----------------------------------------------------------------
struct Rng {
    uint64_t s;
    explicit Rng(uint64_t seed) : s(seed * 0x9E3779B97F4A7C15ULL + 0x1234567ULL) {}
    uint64_t next() {
        uint64_t z = (s += 0x9E3779B97F4A7C15ULL);
        z          = (z ^ (z >> 30)) * 0xBF58476D1CE4E5B9ULL;
        z          = (z ^ (z >> 27)) * 0x94D049BB133111EBULL;
        return z ^ (z >> 31);
    }
    uint32_t below(uint32_t n) { return n ? (uint32_t)(next() % n) : 0; }
    bool     chance(uint32_t num, uint32_t den) { return below(den) < num; }
};

// ---- exact-size heap buffer (no terminator, ASan redzones right behind) ---
template <typename Ch>
struct Exact {
    Ch    *p{nullptr};
    size_t n{0};
    Exact() = default;
    template <typename It>
    Exact(It b, It e) {
        n = (size_t)(e - b);
        p = (Ch *)malloc(n ? n * sizeof(Ch) : 1);
        size_t i = 0;
        for (It x = b; x != e; ++x) p[i++] = (Ch)*x;
    }
    Exact(const Exact &) = delete;
    Exact &operator=(const Exact &) = delete;
    ~Exact() { free(p); }
    const Ch *data() const { return p; }
};

// ---- parsing of simple line formats --------------------------------------
inline std::vector<long> parse_ints(const char *s) {  // "1,2,3" (empty -> {})
    std::vector<long> v;
    while (*s) {
        char *e;
        long  x = strtol(s, &e, 10);
        if (e == s) break;
        v.push_back(x);
        s = e;
        if (*s == ',') ++s;
    }
    return v;
}
inline std::vector<std::string> split(const std::string &s, char d) {
    std::vector<std::string> out;
    size_t                   i = 0;
    while (true) {
        size_t j = s.find(d, i);
        if (j == std::string::npos) {
            out.push_back(s.substr(i));
            break;
        }
        out.push_back(s.substr(i, j - i));
        i = j + 1;
    }
    return out;
}
inline bool read_line(FILE *f, std::string &line) {
    line.clear();
    int c;
    while ((c = fgetc(f)) != EOF) {
        if (c == '\n') return true;
        line.push_back((char)c);
    }
    return !line.empty();
}
template <typename V>
inline void json_ints(std::string &o, const V &v) {
    o.push_back('[');
    bool first = true;
    for (auto x : v) {
        if (!first) o.push_back(',');
        first = false;
        o += std::to_string((long long)x);
    }
    o.push_back(']');
}
inline const char *arg_value(int argc, char **argv, const char *name, const char *def) {
    for (int i = 1; i + 1 < argc; ++i)
        if (strcmp(argv[i], name) == 0) return argv[i + 1];
    return def;
}
inline bool arg_flag(int argc, char **argv, const char *name) {
    for (int i = 1; i < argc; ++i)
        if (strcmp(argv[i], name) == 0) return true;
    return false;
}
} // namespace vf

#endif
