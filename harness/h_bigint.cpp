// Conformance harness for C19 (BigInt).
//   walk   <graph> [skip]                spec -> code: QBigInt graph (24 bits, 8-bit words) replayed into BigInt<SizeT8, 24>
//   record <seed> <hist> <steps> <out>   code -> spec: random histories for several word sizes / widths, values logged as bytes
//   helper <seed> <n> <out>              DoubleSize multiply / divide helper events (8, 32, 64 bit instantiations)
#include "graph.hpp"
#include "BigInt.hpp"
#include "Memory.hpp"

using namespace Qentem;

// ---------------- graph model: BigInt<SizeT8, 24> ------------------------------------
struct B8Model {
    using BI = BigInt<SizeT8, 24U>;
    BI   b;
    long ret{-1};
    int  ov{0};
    bool beyond_bound() const { return false; }
    void reset() { b = BI{}; ret = -1; }
    long value() const {
        long v = 0;
        for (SizeT32 i = BI::MaxIndex() + 1; i-- > 0;) v = (v << 8) | b.Storage()[i];   // all words, also above Index()
        return v;
    }
    std::string project() { return std::to_string(value()) + ";" + std::to_string(ret); }
    std::string selfcheck() {
        SizeT32 top = 0;
        for (SizeT32 i = 0; i <= BI::MaxIndex(); ++i)
            if (b.Storage()[i] != 0) top = i;
        if (b.Index() != top) return "Index()=" + std::to_string(b.Index()) + "-not-highest-nonzero-word";
        long v = value();
        if (b.IsZero() != (v == 0) || b.NotZero() != (v != 0)) return "IsZero/NotZero";
        if (b.IsBig() != (top > 0)) return "IsBig";
        if (b.Number() != (SizeT8)(v & 0xFF)) return "Number()";
        return "";
    }
    bool apply(const std::string &name, const std::vector<long> &a) {
        ++ov;
        ret = -1;
        long x = a.empty() ? 0 : a[0];
        if (name == "Set") {
            if (x > 255) { if (ov & 1) b = (SizeT16)x; else b = BI((SizeT16)x); }
            else switch (ov % 3) { case 0: b = (SizeT8)x; break; case 1: b = (SizeT16)x; break; default: b = BI((SizeT32)x); }
        } else if (name == "Add") {
            if (x > 255) b += (SizeT16)x; else if (ov & 1) b += (SizeT8)x; else b.Add((SizeT8)x);
        } else if (name == "Sub") {
            if (x > 255) b -= (SizeT16)x; else if (ov & 1) b -= (SizeT8)x; else b.Subtract((SizeT8)x);
        } else if (name == "Or") {
            if (x > 255 || (ov & 1)) b |= (SizeT16)x; else b |= (SizeT8)x;
        } else if (name == "And") {
            if (x > 255 || (ov & 1)) b &= (SizeT16)x; else b &= (SizeT8)x;
        } else if (name == "Mul") {
            if (ov & 1) b *= (SizeT8)x; else b.Multiply((SizeT8)x);
        } else if (name == "Div") {
            if (ov & 1) ret = b.Divide((SizeT8)x);
            else { BI c(b); ret = c.Divide((SizeT8)x); b /= (SizeT8)x; }
        } else if (name == "Shl") {
            if (ov & 1) b <<= (SizeT32)x; else b.ShiftLeft((SizeT32)x);
        } else if (name == "Shr") {
            if (ov & 1) b >>= (SizeT32)x; else b.ShiftRight((SizeT32)x);
        } else if (name == "FirstBit") {
            ret = b.FindFirstBit();
        } else if (name == "LastBit") {
            ret = b.FindLastBit();
        } else if (name == "Cmp") {
            SizeT8 w = (SizeT8)x;
            ret = 32 * (b < w) + 16 * (b <= w) + 8 * (b > w) + 4 * (b >= w) + 2 * (b == w) + (b != w);
            long mirrored = 32 * (w > b) + 16 * (w >= b) + 8 * (w < b) + 4 * (w <= b) + 2 * (w == b) + (w != b);
            if (mirrored != ret) ret = -2;
        } else if (name == "Narrow") {
            ret = (long)(SizeT16)b;
            if ((SizeT8)b != (SizeT8)(ret & 0xFF)) ret = -2;
            if ((long)(SizeT64)b != value()) ret = -3;
        } else if (name == "IsZero") {
            ret = b.IsZero() ? 1 : 0;
            BI c(b);   // copy / move keep the value
            BI d(Memory::Move(c));
            BI e;
            e = d;
            if (!(e.Index() == b.Index()) || (long)(SizeT32)e != (long)(SizeT32)b || c.NotZero()) ret = -2;
        } else return false;
        return true;
    }
};

// ---------------- random histories, any word size / width ----------------------------------
template <typename BI>
static std::vector<long> bytes_of(const BI &b) {
    std::vector<long> v;
    using N = typename BI::NumberType;
    for (SizeT32 i = 0; i <= BI::MaxIndex(); ++i) {
        N w = b.Storage()[i];
        for (unsigned k = 0; k < sizeof(N); ++k) v.push_back((long)((w >> (8 * k)) & 0xFF));
    }
    while (!v.empty() && v.back() == 0) v.pop_back();
    return v;
}
template <typename N>
static std::vector<long> bytes_of_word(N w) {
    std::vector<long> v;
    for (unsigned k = 0; k < sizeof(N); ++k) v.push_back((long)((w >> (8 * k)) & 0xFF));
    while (!v.empty() && v.back() == 0) v.pop_back();
    return v;
}
template <typename N>
static N boundary_word(vf::Rng &rng) {
    constexpr unsigned W = sizeof(N) * 8;
    switch (rng.below(12)) {
        case 0: return N(0);
        case 1: return N(1);
        case 2: return N(~N(0));
        case 3: return N(N(1) << (W - 1));
        case 4: return N((N(1) << (W - 1)) + 1);
        case 5: return N((N(1) << (W - 1)) - 1);
        case 6: return N(N(1) << rng.below(W));
        case 7: return N((N(1) << rng.below(W)) - 1);
        case 8: return N(rng.next() | (N(1) << (W - 1)) | 1);   // odd, top bit set
        case 9: return N(rng.next() >> rng.below(W));
        case 10: return N(10);
        default: return N(rng.next());
    }
}
static long g_case = 0;
template <typename N, SizeT32 Width>
static void record_type(vf::Rng &rng, long nhist, long nsteps, FILE *out) {
    using BI = BigInt<N, Width>;
    constexpr unsigned W = sizeof(N) * 8;
    for (long h = 0; h < nhist; ++h) {
        BI b;
        for (long s = 0; s < nsteps; ++s) {
            vf::begin_case(g_case++);
            std::vector<long> before = bytes_of(b), arg, retb;
            std::string op;
            long        k = 0;
            SizeT32     used_bits = b.NotZero() ? (b.FindLastBit() + 1) : 0;
            SizeT32     total = BI::TotalBits();
            uint32_t    r = rng.below(100);
            N           w = boundary_word<N>(rng);
            snprintf(vf::g_desc, sizeof(vf::g_desc), "BigInt<%u,%u> hist=%ld step=%ld r=%u", W, Width, h, s, r);
            if (r < 8) { op = "set"; b = w; arg = bytes_of_word(w); }
            else if (r < 12 && W < 64) { op = "set"; SizeT64 big = rng.next() >> rng.below(64); if (BI::TotalBits() < 64) big &= ((SizeT64{1} << BI::TotalBits()) - 1); b = big; arg = bytes_of_word(big); }
            else if (r < 26) { op = "add"; if (used_bits < total) b += w; else { op = "copy"; } arg = bytes_of_word(w); }   // both < 2^(total-1): the sum fits
            else if (r < 30 && W < 64) { op = "add"; SizeT64 big = rng.next() >> rng.below(60); if (total <= 64) big &= ((SizeT64{1} << (total - 1)) - 1); if (used_bits < total) b += big; else { op = "copy"; } arg = bytes_of_word(big); }
            else if (r < 40) { op = "sub"; if (b.IsBig() || b >= w) b -= w; else { op = "copy"; } arg = bytes_of_word(w); }
            else if (r < 54) { op = "mul"; if (used_bits + W <= total) b *= w; else { op = "copy"; } arg = bytes_of_word(w); }
            else if (r < 66) { op = "div"; if (w == 0) w = 3; N rem = b.Divide(w); arg = bytes_of_word(w); retb = bytes_of_word(rem); }
            else if (r < 74) { op = "shl"; k = rng.below(2) ? rng.below(W * 3 + 2) : rng.below(total + 1); if (used_bits + k <= total) b <<= (SizeT32)k; else { op = "copy"; } }
            else if (r < 82) { op = "shr"; k = rng.below(2) ? rng.below(W * 3 + 2) : rng.below(total + 8); b >>= (SizeT32)k; }
            else if (r < 85) { op = "or"; b |= w; arg = bytes_of_word(w); }
            else if (r < 88) { op = "and"; b &= w; arg = bytes_of_word(w); }
            else if (r < 90 && W < 64) { op = (r & 1) ? "or" : "and"; SizeT64 big = rng.next() >> rng.below(60); if ((r & 1) && BI::TotalBits() < 64) big &= ((SizeT64{1} << BI::TotalBits()) - 1); /* an And always fits: its operand may be wider than the number */ if (r & 1) b |= big; else b &= big; arg = bytes_of_word(big); }
            else if (r < 93) { op = "firstbit"; k = b.NotZero() ? (long)b.FindFirstBit() : 0; }
            else if (r < 95) { op = "lastbit"; k = b.NotZero() ? (long)b.FindLastBit() : 0; }
            else if (r < 98) { op = "cmp"; arg = bytes_of_word(w); k = 32 * (b < w) + 16 * (b <= w) + 8 * (b > w) + 4 * (b >= w) + 2 * (b == w) + (b != w); }
            else { op = "narrow"; retb = bytes_of_word((SizeT64)b); }
            if (op == "copy") { BI c(b); BI d; d = c; b = Memory::Move(d); }
            std::vector<long> after = bytes_of(b);
            std::string jb, ja, jr, jret;
            vf::json_ints(jb, before);
            vf::json_ints(ja, arg);
            vf::json_ints(jr, after);
            vf::json_ints(jret, retb);
            fprintf(out, "{\"op\":\"%s\",\"wb\":%u,\"bits\":%u,\"b\":%s,\"a\":%s,\"r\":%s,\"ret\":%s,\"k\":%ld,\"idx\":%u,\"zero\":%d}\n", op.c_str(), W, total,
                    jb.c_str(), ja.c_str(), jr.c_str(), jret.c_str(), k, b.Index(), b.IsZero() ? 1 : 0);
        }
    }
}

template <typename N>
static void helper_events(vf::Rng &rng, long n, FILE *out, bool exhaustive8) {
    constexpr unsigned W = sizeof(N) * 8;
    auto one = [&](N hi, N lo, N d, N a, N m) {
        {
            N h = hi, l = lo;
            SizeT32 shift = (W == 64) ? ((W - 1U) - Platform::FindLastBit(d)) : 0U;
            DoubleSize<N, W>::Divide(h, l, d, shift);
            std::vector<long> v = bytes_of_word(lo);
            v.resize(sizeof(N), 0);
            for (long x : bytes_of_word(hi)) v.push_back(x);
            std::string jb, ja, jr, jret;
            vf::json_ints(jb, v);
            vf::json_ints(ja, bytes_of_word(d));
            vf::json_ints(jr, bytes_of_word(l));
            vf::json_ints(jret, bytes_of_word(h));
            fprintf(out, "{\"op\":\"helperdiv\",\"wb\":%u,\"bits\":%u,\"b\":%s,\"a\":%s,\"r\":%s,\"ret\":%s,\"k\":0,\"idx\":0,\"zero\":0}\n", W, 2 * W, jb.c_str(), ja.c_str(), jr.c_str(), jret.c_str());
        }
        {
            N lo2 = a;
            N hi2 = DoubleSize<N, W>::Multiply(lo2, m);
            std::vector<long> v = bytes_of_word(lo2);
            v.resize(sizeof(N), 0);
            for (long x : bytes_of_word(hi2)) v.push_back(x);
            std::string jb, ja, jr;
            vf::json_ints(jb, bytes_of_word(a));
            vf::json_ints(ja, bytes_of_word(m));
            vf::json_ints(jr, v);
            fprintf(out, "{\"op\":\"helpermul\",\"wb\":%u,\"bits\":%u,\"b\":%s,\"a\":%s,\"r\":%s,\"ret\":[],\"k\":0,\"idx\":0,\"zero\":0}\n", W, 2 * W, jb.c_str(), ja.c_str(), jr.c_str());
        }
    };
    if (exhaustive8) {
        // boundary sub-grid of the 8-bit helper: every divisor, hi in {0, d/2, d-1}, lo over 16 boundary values
        const int los[] = {0, 1, 2, 3, 15, 16, 17, 127, 128, 129, 200, 253, 254, 255, 64, 100};
        for (int d = 1; d < 256; ++d)
            for (int hi : {0, d / 2, d - 1})
                for (int lo : los) { vf::begin_case(g_case++); one((N)hi, (N)lo, (N)d, (N)lo, (N)d); }
        return;
    }
    for (long i = 0; i < n; ++i) {
        vf::begin_case(g_case++);
        N d = boundary_word<N>(rng);
        if (d == 0) d = N(1);
        N hi;
        switch (rng.below(4)) { case 0: hi = N(d - 1); break; case 1: hi = 0; break; default: hi = N(boundary_word<N>(rng) % d); }
        one(hi, boundary_word<N>(rng), d, boundary_word<N>(rng), boundary_word<N>(rng));
    }
}

// the half-word (64U) algorithm instantiated at 32-bit words: DoubleSize<SizeT32, 64U>
static void helper_alg64_on32(vf::Rng &rng, long n, FILE *out) {
    using N = SizeT32;
    for (long i = 0; i < n; ++i) {
        vf::begin_case(g_case++);
        N d = boundary_word<N>(rng);
        if (d == 0) d = 1;
        N hi = (rng.below(3) == 0) ? N(d - 1) : N(boundary_word<N>(rng) % d);
        N lo = boundary_word<N>(rng);
        N h = hi, l = lo;
        DoubleSize<N, 64U>::Divide(h, l, d, (31U - Platform::FindLastBit(d)));
        std::vector<long> v = bytes_of_word(lo);
        v.resize(4, 0);
        for (long x : bytes_of_word(hi)) v.push_back(x);
        std::string jb, ja, jr, jret;
        vf::json_ints(jb, v);
        vf::json_ints(ja, bytes_of_word(d));
        vf::json_ints(jr, bytes_of_word(l));
        vf::json_ints(jret, bytes_of_word(h));
        fprintf(out, "{\"op\":\"helperdiv\",\"wb\":32,\"bits\":64,\"b\":%s,\"a\":%s,\"r\":%s,\"ret\":%s,\"k\":0,\"idx\":0,\"zero\":0}\n", jb.c_str(), ja.c_str(), jr.c_str(), jret.c_str());
        N a = boundary_word<N>(rng), m = boundary_word<N>(rng), lo2 = a;
        N hi2 = DoubleSize<N, 64U>::Multiply(lo2, m);
        std::vector<long> p = bytes_of_word(lo2);
        p.resize(4, 0);
        for (long x : bytes_of_word(hi2)) p.push_back(x);
        vf::json_ints(jb = "", bytes_of_word(a));
        vf::json_ints(ja = "", bytes_of_word(m));
        vf::json_ints(jr = "", p);
        fprintf(out, "{\"op\":\"helpermul\",\"wb\":32,\"bits\":64,\"b\":%s,\"a\":%s,\"r\":%s,\"ret\":[],\"k\":0,\"idx\":0,\"zero\":0}\n", jb.c_str(), ja.c_str(), jr.c_str());
    }
}

// Directed family for the half-word (64U) divide: divisors whose quotient-digit estimate is up to 2 too high (top half just
// above 2^(h-1) after normalisation, bottom half close to 2^h) and dividends constructed so that a *partial remainder* sits on a
// boundary {d-1, d-2, 0, 1}: either the final one ((hi:lo) mod d = t) or the one after the first digit ((hi:top(lo)) mod d = t).
// A random operand meets these with probability ~2^-W (seed C19-5: second correction of the low digit off by one).
template <typename N, typename D>
static void helper_boundary_rem(vf::Rng &rng, long n, FILE *out) {
    constexpr unsigned W = sizeof(N) * 8, H = W / 2;
    for (long i = 0; i < n; ++i) {
        vf::begin_case(g_case++);
        N top = N((N(1) << (H - 1)) + N(rng.below(4)));
        if (rng.below(4) == 0) top = N(boundary_word<N>(rng) >> H) | (N(1) << (H - 1));
        N bot = N(((N(1) << H) - 1) - N(rng.below(rng.below(2) ? 4 : 4096)));
        N d   = N((top << H) | bot);
        d >>= rng.below(3) ? 0 : rng.below(W - 1);
        if (d == 0) d = N(1);
        N t;
        switch (rng.below(4)) { case 0: t = N(d - 1); break; case 1: t = (d > 1) ? N(d - 2) : N(0); break; case 2: t = 0; break; default: t = N(1 % d); }
        // the helper divides hi * 2^W (the low word is divided separately and its remainder added at the end), so the partial
        // remainders depend on hi only: solve hi * 2^W = t or hi * 2^H = t (mod d) when 2 is invertible (d odd)
        N hi = N(boundary_word<N>(rng) % d);
        if (d & 1) {
            D m = rng.below(2) ? ((D(1) << H) % D(d)) : ((((D(1) << H) % D(d)) * ((D(1) << H) % D(d))) % D(d));
            // modular inverse of m by extended Euclid on signed double words
            typedef __int128 S;
            S r0 = S(d), r1 = S(m), s0 = 0, s1 = 1;
            while (r1 != 0) { S q = r0 / r1, tmp = r0 - q * r1; r0 = r1; r1 = tmp; tmp = s0 - q * s1; s0 = s1; s1 = tmp; }
            if (r0 == 1) {
                S inv = s0 % S(d); if (inv < 0) inv += S(d);
                // (t * inv) mod d without overflowing 128 bits: double-and-add
                D acc = 0, base = D(inv), e = D(t);
                while (e) { if (e & 1) { acc += base; if (acc >= D(d)) acc -= D(d); } base += base; if (base >= D(d)) base -= D(d); e >>= 1; }
                hi = N(acc);
            }
        }
        N lo = rng.below(2) ? N(0) : boundary_word<N>(rng);
        N h = hi, l = lo;
        DoubleSize<N, 64U>::Divide(h, l, d, ((W - 1U) - Platform::FindLastBit(d)));
        std::vector<long> v = bytes_of_word(lo);
        v.resize(sizeof(N), 0);
        for (long x : bytes_of_word(hi)) v.push_back(x);
        std::string jb, ja, jr, jret;
        vf::json_ints(jb, v);
        vf::json_ints(ja, bytes_of_word(d));
        vf::json_ints(jr, bytes_of_word(l));
        vf::json_ints(jret, bytes_of_word(h));
        fprintf(out, "{\"op\":\"helperdiv\",\"wb\":%u,\"bits\":%u,\"b\":%s,\"a\":%s,\"r\":%s,\"ret\":%s,\"k\":0,\"idx\":0,\"zero\":0}\n", W, 2 * W, jb.c_str(), ja.c_str(), jr.c_str(), jret.c_str());
    }
}

int main(int argc, char **argv) {
    vf::install_handlers();
    if (argc < 2) return 2;
    std::string mode = argv[1];
    if (mode == "walk" && argc >= 3) {
        vf::Graph g;
        if (!g.load(argv[2])) return 2;
        vf::Walker<B8Model> w(g);
        if (argc >= 4) for (long x : vf::parse_ints(argv[3])) w.skip.insert(x);
        w.run("BigInt<SizeT8,24>");
        vf::end_cases();
        return 0;
    }
    if (mode == "record" && argc >= 6) {
        vf::Rng rng(strtoull(argv[2], nullptr, 10));
        long    nh = atol(argv[3]), ns = atol(argv[4]);
        FILE   *out = fopen(argv[5], "w");
        vf::g_trace = out;
        record_type<SizeT8, 64U>(rng, nh, ns, out);
        record_type<SizeT8, 24U>(rng, nh, ns, out);
        record_type<SizeT16, 128U>(rng, nh, ns, out);
        record_type<SizeT16, 80U>(rng, nh, ns, out);
        record_type<SizeT32, 256U>(rng, nh, ns, out);
        record_type<SizeT32, 96U>(rng, nh, ns, out);
        record_type<SizeT64, 128U>(rng, nh, ns, out);
        record_type<SizeT64, 1024U>(rng, nh, ns, out);
        record_type<SizeT64, 2048U>(rng, nh / 2 + 1, ns, out);
        fclose(out);
        vf::g_trace = nullptr;
        vf::end_cases();
        return 0;
    }
    if (mode == "helper" && argc >= 5) {
        vf::Rng rng(strtoull(argv[2], nullptr, 10));
        long    n   = atol(argv[3]);
        FILE   *out = fopen(argv[4], "w");
        vf::g_trace = out;
        helper_events<SizeT8>(rng, 0, out, true);
        helper_events<SizeT16>(rng, n / 4, out, false);
        helper_events<SizeT32>(rng, n / 4, out, false);
        helper_events<SizeT64>(rng, n, out, false);
        helper_alg64_on32(rng, n, out);
        helper_boundary_rem<SizeT32, unsigned long long>(rng, n / 2, out);
        helper_boundary_rem<SizeT64, unsigned __int128>(rng, n / 2, out);
        fclose(out);
        vf::g_trace = nullptr;
        vf::end_cases();
        return 0;
    }
    return 2;
}
