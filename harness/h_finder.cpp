// Conformance harness for the template word scanner (Finder.hpp with Tags::List): C01 / C02 (text -> tokens).
//   enum   <alphabet csv> <maxlen> <out>     every text up to maxlen over the alphabet
//   random <seed> <n> <out>                  texts glued from words, word fragments and other units (length <= 48)
// Each text is scanned from an exact-size unterminated buffer in 3 character widths, calling Next() until no match;
// event: {"w":8,"s":[units],"m":[[match id, offset]...]} (the other widths are logged only when they differ)
#include "common.hpp"
#include "Finder.hpp"
#include "Tags.hpp"

using namespace Qentem;

template <typename Ch>
static std::vector<std::vector<long>> scan(const std::vector<long> &text) {
    vf::Exact<Ch>                                   buf(text.begin(), text.end());
    Finder<Tags::List<Ch>, Ch, SizeT>               finder{(const Ch *)buf.data(), (SizeT)buf.n};
    std::vector<std::vector<long>>                  m;
    for (size_t guard = 0; guard <= text.size() + 2; ++guard) {
        finder.Next();
        m.push_back({(long)finder.GetMatch(), (long)finder.GetOffset()});
        if (finder.GetMatch() == 0) break;
    }
    return m;
}
static std::string json_m(const std::vector<std::vector<long>> &m) {
    std::string o = "[";
    for (size_t i = 0; i < m.size(); ++i) o += (i ? ",[" : "[") + std::to_string(m[i][0]) + "," + std::to_string(m[i][1]) + "]";
    return o + "]";
}
static long g_events = 0, g_widthdiff = 0;
static void one(FILE *out, const std::vector<long> &s) {
    auto        m8 = scan<char>(s), m16 = scan<char16_t>(s), m32 = scan<char32_t>(s);
    std::string js;
    vf::json_ints(js, s);
    fprintf(out, "{\"w\":8,\"s\":%s,\"m\":%s}\n", js.c_str(), json_m(m8).c_str());
    ++g_events;
    if (m16 != m8) { fprintf(out, "{\"w\":16,\"s\":%s,\"m\":%s}\n", js.c_str(), json_m(m16).c_str()); ++g_events; ++g_widthdiff; }
    if (m32 != m8) { fprintf(out, "{\"w\":32,\"s\":%s,\"m\":%s}\n", js.c_str(), json_m(m32).c_str()); ++g_events; ++g_widthdiff; }
}

int main(int argc, char **argv) {
    vf::install_handlers();
    if (argc < 5) return 2;
    std::string mode = argv[1];
    long        n    = 0;
    if (mode == "enum") {
        std::vector<long> alpha  = vf::parse_ints(argv[2]);
        int               maxlen = atoi(argv[3]);
        FILE             *out    = fopen(argv[4], "w");
        if (!out) return 2;
        vf::g_trace = out;
        for (int len = 0; len <= maxlen; ++len) {
            std::vector<size_t> idx((size_t)len, 0);
            while (true) {
                std::vector<long> s;
                for (size_t i : idx) s.push_back(alpha[i]);
                vf::begin_case(n++);
                {
                    std::string d = "text=";
                    for (long u : s) d.push_back((char)u);
                    snprintf(vf::g_desc, sizeof(vf::g_desc), "%s", d.c_str());
                }
                one(out, s);
                int p = len - 1;
                while (p >= 0 && ++idx[(size_t)p] == alpha.size()) idx[(size_t)p--] = 0;
                if (p < 0) break;
            }
        }
        fclose(out);
        vf::g_trace = nullptr;
    } else if (mode == "random") {
        vf::Rng rng(strtoull(argv[2], nullptr, 10));
        long    cnt = atol(argv[3]);
        FILE   *out = fopen(argv[4], "w");
        if (!out) return 2;
        vf::g_trace          = out;
        const char *words[]  = {"}", "{var:", "{raw:", "{math:", "{svar:", "{if", "<loop", "</loop>", "<if", "</if>", "<else"};
        const char *others[] = {"{", "<", "/", ":", ">", "x", " ", "{v", "{i", "<l", "</", "va", "r:", "if", "\"", "=", "e"};
        for (long i = 0; i < cnt; ++i) {
            vf::begin_case(n++);
            std::string t;
            int         parts = 1 + (int)rng.below(8);
            for (int p = 0; p < parts && t.size() < 48; ++p) {
                unsigned r = (unsigned)rng.below(10);
                if (r < 5) {
                    std::string w = words[rng.below(11)];
                    if (r == 3) w = w.substr(0, 1 + rng.below(w.size()));          // a prefix of a word
                    if (r == 4) w = w.substr(rng.below(w.size()));                  // a suffix of a word
                    t += w;
                } else t += others[rng.below(17)];
            }
            snprintf(vf::g_desc, sizeof(vf::g_desc), "text=%s", t.c_str());
            std::vector<long> s(t.begin(), t.end());
            one(out, s);
        }
        fclose(out);
        vf::g_trace = nullptr;
    } else return 2;
    printf("TEXTS %ld\nEVENTS %ld\nWIDTHDIFF %ld\n", n, g_events, g_widthdiff);
    vf::end_cases();
    return 0;
}
