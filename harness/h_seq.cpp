// Conformance harness for C14: Array, String, StringStream, StringView as plain sequences.
//   walk   <graph> <kind> <maxlen> [skip-list]      spec -> code replay of the QSeq state graph; kind: array|string|stream|view
//   record <seed> <hist> <steps> <out.ndjson>       code -> spec random histories (all kinds) for TraceQSeq
//   copy   <maxlen> <align> <out.ndjson>            Memory::Copy / SetToZero grid for OracleCopy
#include "graph.hpp"
#include "Array.hpp"
#include "String.hpp"
#include "StringStream.hpp"
#include "StringView.hpp"

using namespace Qentem;
static SizeT g_maxlen = 1000;

static std::string join(const std::vector<long> &v) {
    std::string o;
    for (size_t i = 0; i < v.size(); ++i) {
        if (i) o.push_back(',');
        o += std::to_string(v[i]);
    }
    return o;
}
static std::vector<long> LIT(long n) {
    switch (n) {
        case 0: return {};
        case 1: return {1};
        case 2: return {2, 1};
        default: return {3, 1, 3};
    }
}

// ---------------- element adaptors for Array --------------------------------
template <typename T>
struct El;
template <>
struct El<int> {
    static int  make(long x) { return (int)x; }
    static long read(const int &v) { return v; }
    static const char *name() { return "Array<int>"; }
};
template <>
struct El<String<char>> {
    static String<char> make(long x) {
        if (x == 0) return String<char>();
        std::string s = "item-number-" + std::to_string(x);
        return String<char>((const char *)s.data(), (SizeT)s.size());
    }
    static long read(const String<char> &v) {
        if (v.Length() == 0) return 0;
        std::string s(v.First(), v.Length());
        if (s.rfind("item-number-", 0) != 0) return -7;
        return atol(s.c_str() + 12);
    }
    static const char *name() { return "Array<String>"; }
};

template <typename T>
struct ArrayModel {
    Array<T> obj[2];
    int      ov{0};
    bool     beyond_bound() const { return obj[0].Size() > g_maxlen || obj[1].Size() > g_maxlen; }
    void     reset() { obj[0].Reset(); obj[1].Reset(); }
    std::vector<long> content(int o) const {
        std::vector<long> v;
        for (SizeT i = 0; i < obj[o].Size(); ++i) v.push_back(El<T>::read(obj[o].First()[i]));
        return v;
    }
    std::string project() { return join(content(0)) + "|" + join(content(1)); }
    std::string selfcheck() {
        for (int o = 0; o < 2; ++o) {
            const Array<T> &a = obj[o];
            if (a.Size() > a.Capacity()) return "size>capacity";
            if (a.IsEmpty() != (a.Size() == 0)) return "IsEmpty";
            if (a.Size() != 0 && (a.Last() != a.First() + (a.Size() - 1) || a.End() != a.First() + a.Size())) return "Last/End";
            if (a.Size() == 0 && a.Last() != nullptr) return "Last-on-empty";
            SizeT n = 0;
            for (const T &x : a) { (void)x; ++n; }
            if (n != a.Size()) return "iteration";
        }
        return "";
    }
    bool apply(const std::string &name, const std::vector<long> &a) {
        Array<T> &t = obj[(a[0] - 1) & 1];
        ++ov;
        if (name == "Copy") {
            Array<T> &u = obj[(a[1] - 1) & 1];
            if (ov & 1) t = u;
            else { Array<T> c(u); t = Memory::Move(c); }
        } else if (name == "SelfCopy") {
            Array<T> *p = &t;
            t = *p;
        } else if (name == "Move") {
            Array<T> &u = obj[(a[1] - 1) & 1];
            if (ov & 1) t = Memory::Move(u);
            else { Array<T> c(Memory::Move(u)); t = Memory::Move(c); }
        } else if (name == "AppendItem") {
            // the appended item can be one of the array's OWN items (same abstract operation: the model has no addresses)
            SizeT own = t.Size();
            for (SizeT j = 0; j < t.Size(); ++j) if (El<T>::read(t.First()[j]) == a[1]) own = j;
            if (own < t.Size() && (ov % 3) == 0) {
                if (ov & 1) t += static_cast<const T &>(t.First()[own]);
                else { T &r = t.Insert(static_cast<const T &>(t.First()[own])); if (El<T>::read(r) != a[1]) printf("MISMATCH Insert-ref\n"); }
            } else
            switch (ov % 4) {
                case 0: t += El<T>::make(a[1]); break;
                case 1: { T x = El<T>::make(a[1]); t += x; break; }
                case 2: { T x = El<T>::make(a[1]); T &r = t.Insert(x); if (El<T>::read(r) != a[1]) printf("MISMATCH Insert-ref\n"); break; }
                default: { T &r = t.Insert(El<T>::make(a[1])); if (El<T>::read(r) != a[1]) printf("MISMATCH Insert-ref\n"); break; }
            }
        } else if (name == "AppendSeq") {
            Array<T> &u = obj[(a[1] - 1) & 1];
            if (ov & 1) t += u;
            else t.Insert(u);
        } else if (name == "AppendMove") {
            Array<T> &u = obj[(a[1] - 1) & 1];
            if (ov & 1) t += Memory::Move(u);
            else t.Insert(Memory::Move(u));
        } else if (name == "Clear") {
            switch (ov % 4) {
                case 0: t.Clear(); break;
                case 1: t.Reset(); break;
                case 2: t.Reserve((SizeT)(ov % 5)); break;
                default: {
                    SizeT n = t.Size();
                    T    *p = t.Detach();
                    Memory::Dispose(p, p + n);
                    Memory::Deallocate(p);
                }
            }
        } else if (name == "ReserveInit") {
            if (ov & 1) t.Reserve((SizeT)a[1], true);
            else { Array<T> c((SizeT)a[1], true); t = Memory::Move(c); }
        } else if (name == "Resize") {
            t.Resize((SizeT)a[1]);
        } else if (name == "ResizeInit") {
            t.ResizeAndInitialize((SizeT)a[1]);
        } else if (name == "Keep") {
            if (ov & 1) t.Expect((SizeT)(1 + ov % 4));
            else t.Compress();
        } else if (name == "Drop") {
            t.Drop((SizeT)a[1]);
        } else return false;
        return true;
    }
};

// ---------------- strings ---------------------------------------------------
template <typename Ch>
struct CharMap {
    static Ch   unit(long x) { return x == 1 ? Ch('a') : (x == 2 ? Ch('b') : (x == 3 ? Ch(' ') : Ch('?'))); }
    static long item(Ch c) { return c == Ch('a') ? 1 : (c == Ch('b') ? 2 : (c == Ch(' ') ? 3 : (c == Ch(0) ? -100 : -1))); }
};
template <typename Ch>
static std::basic_string<Ch> conc(const std::vector<long> &v) {
    std::basic_string<Ch> s;
    for (long x : v) s.push_back(CharMap<Ch>::unit(x));
    return s;
}

template <typename Ch>
struct StringModel {
    String<Ch> obj[2];
    int        ov{0};
    bool beyond_bound() const { return obj[0].Length() > g_maxlen || obj[1].Length() > g_maxlen; }
    void reset() { obj[0].Reset(); obj[1].Reset(); }
    std::vector<long> content(int o) const {
        std::vector<long> v;
        for (SizeT i = 0; i < obj[o].Length(); ++i) v.push_back(CharMap<Ch>::item(obj[o].First()[i]));
        return v;
    }
    std::string project() { return join(content(0)) + "|" + join(content(1)); }
    std::string selfcheck() {
        for (int o = 0; o < 2; ++o) {
            const String<Ch> &s = obj[o];
            if (s.Storage() != nullptr && s.Storage()[s.Length()] != Ch(0)) return "not-NUL-terminated";
            if (s.Storage() == nullptr && s.Length() != 0) return "null-storage-with-length";
            if (s.IsEmpty() != (s.Length() == 0)) return "IsEmpty";
            if (s.Length() != 0 && (s.Last() != s.First() + (s.Length() - 1))) return "Last";
        }
        bool eq = (content(0) == content(1));
        if ((obj[0] == obj[1]) != eq || (obj[0] != obj[1]) == eq) return "operator==(String)";
        if (obj[0].IsEqual(obj[1].First(), obj[1].Length()) != eq) return "IsEqual";
        if (obj[1].First() != nullptr && ((obj[0] == obj[1].First()) != eq)) return "operator==(literal)";
        return "";
    }
    bool apply(const std::string &name, const std::vector<long> &a) {
        String<Ch> &t = obj[(a[0] - 1) & 1];
        ++ov;
        if (name == "Copy") {
            String<Ch> &u = obj[(a[1] - 1) & 1];
            if (ov & 1) t = u;
            else { String<Ch> c(u); t = Memory::Move(c); }
        } else if (name == "SelfCopy") {
            String<Ch> *p = &t;
            bool nul = false;
            for (SizeT i = 0; i < t.Length(); ++i) nul = nul || (t.First()[i] == Ch(0));
            if ((ov % 3) == 0 && t.Length() != 0 && !nul) t = static_cast<const Ch *>(t.First());   // assigned from its own C string: the same text
            else if ((ov % 3) == 1) { String<Ch> *q = &t; t += Memory::Move(*q); t.StepBack(t.Length() / 2); }   // s += Move(s) doubles it; half is dropped again
            else t = *p;
        } else if (name == "Move") {
            String<Ch> &u = obj[(a[1] - 1) & 1];
            if (ov & 1) t = Memory::Move(u);
            else { String<Ch> c(Memory::Move(u)); t = Memory::Move(c); }
        } else if (name == "Assign") {
            auto l = conc<Ch>(LIT(a[1]));
            switch (ov % 3) {
                case 0: t = (const Ch *)l.c_str(); break;
                case 1: t = String<Ch>((const Ch *)l.c_str()); break;
                default: { vf::Exact<Ch> e(l.begin(), l.end()); t = String<Ch>((const Ch *)e.data(), (SizeT)e.n); }
            }
        } else if (name == "AppendItem") {
            Ch c = CharMap<Ch>::unit(a[1]);
            if (ov & 1) t += c;
            else { vf::Exact<Ch> e(&c, &c + 1); t.Write((const Ch *)e.data(), 1); }
        } else if (name == "AppendSeq") {
            String<Ch> &u = obj[(a[1] - 1) & 1];
            switch (ov % 3) {
                case 0: t += u; break;
                case 1: t << u; break;
                default:
                    if (u.First() != nullptr) t += u.First();  // as NUL terminated literal (may be itself)
                    else t += u;
            }
        } else if (name == "AppendMove") {
            String<Ch> &u = obj[(a[1] - 1) & 1];
            t += Memory::Move(u);
        } else if (name == "Clear") {
            if (ov & 1) t.Reset();
            else { Ch *p = t.Detach(); Memory::Deallocate(p); }
        } else if (name == "Drop") {
            t.StepBack((SizeT)a[1]);
        } else if (name == "Reverse") {
            if (a[1] == 0 && (ov & 1)) t.Reverse();
            else t.Reverse((SizeT)a[1]);
        } else if (name == "InsertAt") {
            t.InsertAt(CharMap<Ch>::unit(a[1]), (SizeT)a[2]);
        } else if (name == "Trim") {
            String<Ch> &u = obj[(a[1] - 1) & 1];
            t = String<Ch>::Trim(u);
        } else if (name == "Plus") {
            String<Ch> &u = obj[(a[1] - 1) & 1];
            switch (ov % 4) {
                case 0: t = t + u; break;
                case 1: { String<Ch> c(u); t = t + Memory::Move(c); break; }
                case 2: t = String<Ch>::Merge(t, u); break;
                default:
                    if (u.First() != nullptr) t = t + u.First();
                    else t = t + u;
            }
        } else return false;
        return true;
    }
};

template <typename Ch>
struct StreamModel {
    StringStream<Ch> obj[2];
    int              ov{0};
    std::string      err;
    bool beyond_bound() const { return obj[0].Length() > g_maxlen || obj[1].Length() > g_maxlen; }
    void reset() { obj[0].Reset(); obj[1].Reset(); }
    std::vector<long> content(int o) const {
        std::vector<long> v;
        for (SizeT i = 0; i < obj[o].Length(); ++i) v.push_back(CharMap<Ch>::item(obj[o].First()[i]));
        return v;
    }
    std::string project() { return join(content(0)) + "|" + join(content(1)); }
    std::string selfcheck() {
        if (!err.empty()) return err;
        for (int o = 0; o < 2; ++o) {
            const StringStream<Ch> &s = obj[o];
            if (s.Length() > s.Capacity()) return "length>capacity";
            if (s.Storage() == nullptr && s.Capacity() != 0) return "null-storage-with-capacity";
            if (s.IsEmpty() != (s.Length() == 0)) return "IsEmpty";
            if (s.Length() != 0 && s.Last() != s.First() + (s.Length() - 1)) return "Last";
        }
        bool eq = (content(0) == content(1));
        if ((obj[0] == obj[1]) != eq || (obj[0] != obj[1]) == eq) return "operator==(stream)";
        if (obj[0].IsEqual(obj[1].First(), obj[1].Length()) != eq) return "IsEqual";
        {
            String<Ch> s(obj[1].First(), obj[1].Length());
            if ((obj[0] == s) != eq) return "operator==(String)";
            StringView<Ch> v(obj[1].First(), obj[1].Length());
            if ((obj[0] == v) != eq) return "operator==(StringView)";
            if ((obj[0] == s.First()) != eq) return "operator==(literal)";
        }
        return "";
    }
    bool apply(const std::string &name, const std::vector<long> &a) {
        StringStream<Ch> &t = obj[(a[0] - 1) & 1];
        ++ov;
        if (name == "Copy") {
            StringStream<Ch> &u = obj[(a[1] - 1) & 1];
            if (ov & 1) t = u;
            else { StringStream<Ch> c(u); t = Memory::Move(c); }
        } else if (name == "SelfCopy") {
            StringStream<Ch> *p = &t;
            t = *p;
        } else if (name == "Move") {
            StringStream<Ch> &u = obj[(a[1] - 1) & 1];
            if (ov & 1) t = Memory::Move(u);
            else { StringStream<Ch> c(Memory::Move(u)); t = Memory::Move(c); }
        } else if (name == "Assign") {
            auto l = conc<Ch>(LIT(a[1]));
            switch (ov % 3) {
                case 0: t = (const Ch *)l.c_str(); break;
                case 1: t = String<Ch>((const Ch *)l.c_str()); break;
                default: { vf::Exact<Ch> e(l.begin(), l.end()); t = StringView<Ch>((const Ch *)e.data(), (SizeT)e.n); }
            }
        } else if (name == "AppendItem") {
            Ch c = CharMap<Ch>::unit(a[1]);
            switch (ov % 3) {
                case 0: t += c; break;
                case 1: t << c; break;
                default: { vf::Exact<Ch> e(&c, &c + 1); t.Write((const Ch *)e.data(), 1); }
            }
        } else if (name == "AppendSeq") {
            StringStream<Ch> &u = obj[(a[1] - 1) & 1];
            switch (ov % 4) {
                case 0: t += u; break;
                case 1: t << u; break;
                case 2: t.Write(u.First(), u.Length()); break;
                default: { String<Ch> s(u.First(), u.Length()); if (ov & 4) t += s; else t << s; }
            }
        } else if (name == "Clear") {
            switch (ov % 4) {
                case 0: t.Clear(); break;
                case 1: t.Reset(); break;
                case 2: t.Reserve((SizeT)(ov % 6)); break;
                default: { Ch *p = t.Detach(); Memory::Deallocate(p); }
            }
        } else if (name == "Keep") {
            switch (ov % 3) {
                case 0: t.Expect((SizeT)(1 + ov % 5)); break;
                case 1: t.InsertNull(); if (t.First()[t.Length()] != Ch(0)) err = "InsertNull"; break;
                default: {
                    auto before = t.Length();
                    StringView<Ch> v = t.GetStringView();
                    if (v.Length() != before || v.First() != t.First() || v.First()[v.Length()] != Ch(0)) err = "GetStringView";
                }
            }
        } else if (name == "Drop") {
            t.StepBack((SizeT)a[1]);
        } else if (name == "Reverse") {
            if (a[1] == 0 && (ov & 1)) t.Reverse();
            else t.Reverse((SizeT)a[1]);
        } else if (name == "InsertAt") {
            t.InsertAt(CharMap<Ch>::unit(a[1]), (SizeT)a[2]);
        } else if (name == "SetLength") {
            t.SetLength((SizeT)a[1]);
        } else if (name == "Buffer") {
            Ch *w = t.Buffer((SizeT)a[1]);
            for (long i = 0; i < a[1]; ++i) w[i] = CharMap<Ch>::unit(a[2]);
        } else if (name == "GetString") {
            std::vector<long> before;
            for (SizeT i = 0; i < t.Length(); ++i) before.push_back(CharMap<Ch>::item(t.First()[i]));
            String<Ch>        s = t.GetString();
            std::vector<long> got;
            for (SizeT i = 0; i < s.Length(); ++i) got.push_back(CharMap<Ch>::item(s.First()[i]));
            if (got != before) err = "GetString-content";
            if (s.Storage() != nullptr && s.Storage()[s.Length()] != Ch(0)) err = "GetString-not-terminated";
        } else return false;
        return true;
    }
};

template <typename Ch>
struct ViewModel {
    StringView<Ch>        obj[2];
    std::basic_string<Ch> lits[4];
    int                   ov{0};
    ViewModel() { for (long n = 0; n < 4; ++n) lits[n] = conc<Ch>(LIT(n)); }
    bool beyond_bound() const { return false; }
    void reset() { obj[0].Reset(); obj[1].Reset(); }
    std::vector<long> content(int o) const {
        std::vector<long> v;
        for (SizeT i = 0; i < obj[o].Length(); ++i) v.push_back(CharMap<Ch>::item(obj[o].First()[i]));
        return v;
    }
    std::string project() { return join(content(0)) + "|" + join(content(1)); }
    std::string selfcheck() {
        bool eq = (content(0) == content(1));
        if ((obj[0] == obj[1]) != eq || (obj[0] != obj[1]) == eq) return "operator==(view)";
        if (obj[0].IsEqual(obj[1].First(), obj[1].Length()) != eq) return "IsEqual";
        for (int o = 0; o < 2; ++o) {
            if (obj[o].IsEmpty() != (obj[o].Length() == 0)) return "IsEmpty";
            if (obj[o].Length() != 0 && obj[o].Last() != obj[o].First() + (obj[o].Length() - 1)) return "Last";
            if (obj[o].Length() == 0 && obj[o].Last() != nullptr) return "Last-on-empty";
            if (obj[o].Length() != 0) {   // a proper prefix view of the same buffer (same start, shorter) is a different sequence
                StringView<Ch> prefix(obj[o].First(), obj[o].Length() - 1);
                if ((prefix == obj[o]) || !(prefix != obj[o]) || (obj[o] == prefix)) return "operator==(prefix view of the same buffer)";
            }
        }
        return "";
    }
    bool apply(const std::string &name, const std::vector<long> &a) {
        StringView<Ch> &t = obj[(a[0] - 1) & 1];
        ++ov;
        if (name == "Copy") {
            StringView<Ch> &u = obj[(a[1] - 1) & 1];
            if (ov & 1) t = u;
            else { StringView<Ch> c(u); t = Memory::Move(c); }
        } else if (name == "SelfCopy") {
            StringView<Ch> *p = &t;
            t = *p;
        } else if (name == "Move") {
            StringView<Ch> &u = obj[(a[1] - 1) & 1];
            if (ov & 1) t = Memory::Move(u);
            else { StringView<Ch> c(Memory::Move(u)); t = Memory::Move(c); }
        } else if (name == "Assign") {
            const Ch *p = lits[a[1]].c_str();
            switch (ov % 3) {
                case 0: t = p; break;
                case 1: t = StringView<Ch>(p); break;
                default: t = StringView<Ch>(p, (SizeT)lits[a[1]].size());
            }
        } else if (name == "Clear") {
            t.Reset();
        } else return false;
        return true;
    }
};

// ---------------- code -> spec recorder ---------------------------------------
template <typename M>
static void record_kind(const char *kind, const std::vector<const char *> &ops, uint64_t seed, long nhist, long nsteps, FILE *out, long &case_no) {
    vf::Rng rng(seed);
    for (long h = 0; h < nhist; ++h) {
        M m;
        m.reset();
        fprintf(out, "{\"op\":\"Reset\",\"kind\":\"%s\",\"p\":[[],[]]}\n", kind);
        for (long s = 0; s < nsteps; ++s) {
            vf::begin_case(case_no++);
            std::string name = ops[rng.below((uint32_t)ops.size())];
            long        o = 1 + rng.below(2), u = 1 + rng.below(2);
            long        x = 1 + rng.below(3), n = rng.below(9);
            size_t      len_o = m.content((int)o - 1).size();
            std::vector<long> a;
            if (name == "Copy" || name == "Move" || name == "AppendMove" || name == "Trim") { if (u == o) u = 3 - o; a = {o, u}; }
            else if (name == "AppendSeq" || name == "Plus") { a = {o, u}; if (len_o > 40) name = "Clear", a = {o}; }
            else if (name == "AppendItem") a = {o, x};
            else if (name == "Clear" || name == "Keep" || name == "GetString" || name == "SelfCopy") a = {o};
            else if (name == "ReserveInit" || name == "Resize" || name == "ResizeInit" || name == "Drop" || name == "Reverse") a = {o, n};
            else if (name == "SetLength") a = {o, (long)(len_o ? rng.below((uint32_t)len_o + 1) : 0)};
            else if (name == "InsertAt") a = {o, x, n};
            else if (name == "Buffer") a = {o, (long)rng.below(3), x};
            else if (name == "Assign") a = {o, (long)rng.below(4)};
            std::string ja;
            vf::json_ints(ja, a);
            snprintf(vf::g_desc, sizeof(vf::g_desc), "kind=%s hist=%ld step=%ld op=%s args=%s before=%s", kind, h, s, name.c_str(), ja.c_str(),
                     m.project().c_str());
            m.apply(name, a);
            std::string sc = m.selfcheck();
            std::string p0, p1;
            vf::json_ints(p0, m.content(0));
            vf::json_ints(p1, m.content(1));
            fprintf(out, "{\"op\":\"%s\",\"a\":%s,\"ok\":%d,\"p\":[%s,%s]}\n", name.c_str(), ja.c_str(), sc.empty() ? 1 : 0, p0.c_str(), p1.c_str());
            if (!sc.empty()) printf("SELFCHECK %s hist=%ld step=%ld %s\n", kind, h, s, sc.c_str());
        }
    }
}

template <typename M>
static void walk_kind(vf::Graph &g, const char *tag, const std::set<long> &skip) {
    vf::Walker<M> w(g);
    w.skip = skip;
    w.run(tag);
}

int main(int argc, char **argv) {
    vf::install_handlers();
    vf::ledger_trace("h_seq", false);
    if (argc < 2) return 2;
    std::string mode = argv[1];
    if (mode == "walk" && argc >= 5) {
        vf::Graph g;
        if (!g.load(argv[2])) return 2;
        std::string kind = argv[3];
        g_maxlen = (SizeT)atoi(argv[4]);
        std::string type = argc >= 6 ? argv[5] : "";
        std::set<long> skip;
        if (argc >= 7) for (long x : vf::parse_ints(argv[6])) skip.insert(x);
        if (type == "Array<int>") walk_kind<ArrayModel<int>>(g, "Array<int>", skip);
        else if (type == "Array<String>") walk_kind<ArrayModel<String<char>>>(g, "Array<String>", skip);
        else if (type == "String<char>") walk_kind<StringModel<char>>(g, "String<char>", skip);
        else if (type == "String<char16_t>") walk_kind<StringModel<char16_t>>(g, "String<char16_t>", skip);
        else if (type == "String<char32_t>") walk_kind<StringModel<char32_t>>(g, "String<char32_t>", skip);
        else if (type == "StringStream<char>") walk_kind<StreamModel<char>>(g, "StringStream<char>", skip);
        else if (type == "StringStream<char16_t>") walk_kind<StreamModel<char16_t>>(g, "StringStream<char16_t>", skip);
        else if (type == "StringStream<char32_t>") walk_kind<StreamModel<char32_t>>(g, "StringStream<char32_t>", skip);
        else if (type == "StringView<char>") walk_kind<ViewModel<char>>(g, "StringView<char>", skip);
        else if (type == "StringView<char32_t>") walk_kind<ViewModel<char32_t>>(g, "StringView<char32_t>", skip);
        else return 2;
        vf::Ledger &l = vf::ledger();
        printf("LEDGER allocs=%ld frees=%ld live=%zu badfree=%ld\n", l.allocs, l.frees, l.live.size(), l.bad_free);
        vf::end_cases();
        return 0;
    }
    if (mode == "record" && argc >= 6) {
        uint64_t seed = strtoull(argv[2], nullptr, 10);
        long     nh = atol(argv[3]), ns = atol(argv[4]);
        FILE    *out = fopen(argv[5], "w");
        vf::g_trace  = out;
        long case_no = 0;
        std::vector<const char *> aops = {"Copy", "SelfCopy", "Move", "AppendItem", "AppendItem", "AppendItem", "AppendSeq", "AppendMove", "Clear",
                                          "ReserveInit", "Resize", "ResizeInit", "Keep", "Drop"};
        std::vector<const char *> sops = {"Copy", "SelfCopy", "Move", "Assign", "AppendItem", "AppendItem", "AppendSeq", "AppendSeq", "AppendMove",
                                          "Clear", "Drop", "Reverse", "InsertAt", "Trim", "Plus"};
        std::vector<const char *> tops = {"Copy", "SelfCopy", "Move", "Assign", "AppendItem", "AppendItem", "AppendSeq", "AppendSeq", "Clear", "Keep",
                                          "Drop", "Reverse", "InsertAt", "SetLength", "Buffer", "GetString"};
        std::vector<const char *> vops = {"Copy", "SelfCopy", "Move", "Assign", "Clear"};
        record_kind<ArrayModel<int>>("Array<int>", aops, seed, nh, ns, out, case_no);
        record_kind<ArrayModel<String<char>>>("Array<String>", aops, seed + 1, nh, ns, out, case_no);
        record_kind<StringModel<char>>("String<char>", sops, seed + 2, nh, ns, out, case_no);
        record_kind<StringModel<char16_t>>("String<char16_t>", sops, seed + 3, nh / 2 + 1, ns, out, case_no);
        record_kind<StreamModel<char>>("StringStream<char>", tops, seed + 4, nh, ns, out, case_no);
        record_kind<StreamModel<char32_t>>("StringStream<char32_t>", tops, seed + 5, nh / 2 + 1, ns, out, case_no);
        record_kind<ViewModel<char>>("StringView<char>", vops, seed + 6, nh / 4 + 1, ns / 2, out, case_no);
        fclose(out);
        vf::g_trace = nullptr;
        vf::Ledger &l = vf::ledger();
        printf("LEDGER allocs=%ld frees=%ld live=%zu badfree=%ld\n", l.allocs, l.frees, l.live.size(), l.bad_free);
        vf::end_cases();
        return 0;
    }
    if (mode == "copy" && argc >= 5) {
        long  maxn = atol(argv[2]), al = atol(argv[3]);
        FILE *out = fopen(argv[4], "w");
        vf::g_trace = out;
        long  n = 0;
        const long PAD = 40;
        std::vector<unsigned char> src((size_t)(maxn + 2 * PAD + 64)), dst((size_t)(maxn + 2 * PAD + 64));
        for (long len = 0; len <= maxn; ++len)
            for (long so = 0; so < al; ++so)
                for (long dof = 0; dof < al; ++dof) {
                    vf::begin_case(n);
                    // exact-size heap blocks so that any access outside [0,len) hits an ASan redzone
                    unsigned char *sb = (unsigned char *)malloc((size_t)(len + so) ? (size_t)(len + so) : 1);
                    unsigned char *db = (unsigned char *)malloc((size_t)(len + dof) ? (size_t)(len + dof) : 1);
                    for (long i = 0; i < len + so; ++i) sb[i] = (unsigned char)(1 + (i * 7 + so) % 250);
                    for (long i = 0; i < len + dof; ++i) db[i] = 255;
                    Memory::Copy(db + dof, sb + so, (SizeT)len);
                    bool ok = true;
                    for (long i = 0; i < dof; ++i) ok = ok && db[i] == 255;
                    std::vector<long> got, want;
                    for (long i = 0; i < len; ++i) { got.push_back(db[dof + i]); want.push_back(sb[so + i]); }
                    Memory::SetToZero(db + dof, (SizeT)len);
                    bool zok = true;
                    for (long i = 0; i < dof; ++i) zok = zok && db[i] == 255;
                    long nz = 0;
                    for (long i = 0; i < len; ++i) nz += db[dof + i] != 0;
                    std::string g, w;
                    vf::json_ints(g, got);
                    vf::json_ints(w, want);
                    fprintf(out, "{\"n\":%ld,\"so\":%ld,\"do\":%ld,\"src\":%s,\"dst\":%s,\"guard\":%d,\"nonzero\":%ld,\"zguard\":%d}\n", len, so, dof, w.c_str(),
                            g.c_str(), ok, nz, zok);
                    free(sb);
                    free(db);
                    ++n;
                }
        fclose(out);
        vf::g_trace = nullptr;
        printf("EVENTS %ld\n", n);
        vf::end_cases();
        return 0;
    }
    return 2;
}
