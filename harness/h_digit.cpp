// Conformance harness for the number conversions: C09 (text -> number), C10 (number -> text), C11 (round trip).
//   parse     <infile> <out>          one numeral per line as csv of code units; StringToNumber on an exact-size buffer
//   format    <infile> <out>          lines: <kind> <value-hex> <fmt> <precision>; kind: f64 f32 f16 u8 i8 u16 i16 u32 i32 u64 i64
//   roundtrip <seed> <n> <out> <log>  doubles: format(17) -> parse; every event counted, every <log>-th event logged for the oracle
//   floats32  <from> <to> <step>      float round trip format(9) -> parse, in-harness bit comparison only
#include "common.hpp"
#include "StringStream.hpp"
#include "Digit.hpp"

using namespace Qentem;

static std::vector<long> bytes64(SizeT64 w) {
    std::vector<long> v;
    for (int k = 0; k < 8; ++k) v.push_back((long)((w >> (8 * k)) & 0xFF));
    return v;
}

template <typename Ch>
static void parse_one(const std::vector<long> &s, long &cls, long &consumed, SizeT64 &bits) {
    vf::Exact<Ch> buf(s.begin(), s.end());
    QNumber64     n;
    SizeT         off = 0;
    QNumberType   t   = Digit::StringToNumber(n, (const Ch *)buf.data(), off, (SizeT)buf.n);
    cls      = (long)t;
    consumed = (long)off;
    bits     = n.Natural;
}

static const char *fmt_name(int f) { return f == 0 ? "g" : (f == 1 ? "f" : "s"); }

template <typename T>
static std::vector<long> format_value(T value, int fmt, unsigned precision, bool &prefix_ok) {
    StringStream<char> ss;
    ss += '#';
    ss += '1';
    Digit::RealFormatInfo info{precision};
    info.Type = fmt == 0 ? Digit::RealFormatType::Default : (fmt == 1 ? Digit::RealFormatType::Fixed : Digit::RealFormatType::SemiFixed);
    Digit::NumberToString(ss, value, info);
    prefix_ok = ss.Length() >= 2 && ss.First()[0] == '#' && ss.First()[1] == '1';
    std::vector<long> o;
    for (SizeT i = 2; i < ss.Length(); ++i) o.push_back((long)(unsigned char)ss.First()[i]);
    // the same conversion into streams WITHOUT slack: a stream of a fixed capacity filled so that the number's digits end exactly at, just
    // before and just behind the capacity (ASan sees a store behind the block; a digit read behind the content shows as a different text,
    // because the earlier content of these streams - '9's, then cleared to the fill level - differs from a fresh stream's)
    const SizeT len = (SizeT)o.size();
    for (SizeT slack = 0; slack <= len + 2 && slack <= 24; ++slack) {
        StringStream<char> full(32);
        const SizeT cap = full.Capacity();
        if (cap < slack) break;
        for (SizeT i = 0; i < cap; ++i) full += '9';
        full.Clear();
        for (SizeT i = 0; i + slack < cap; ++i) full += 'P';
        const SizeT at = full.Length();
        Digit::NumberToString(full, value, info);
        bool same = (full.Length() == at + len);
        for (SizeT i = 0; same && i < len; ++i) same = ((long)(unsigned char)full.First()[at + i] == o[i]);
        for (SizeT i = 0; same && i < at; ++i) same = (full.First()[i] == 'P');
        if (!same) prefix_ok = false;
    }
    return o;
}
template <typename T, typename Ch>
static std::vector<long> format_wide(T value, int fmt, unsigned precision) {
    StringStream<Ch> ss;
    Digit::RealFormatInfo info{precision};
    info.Type = fmt == 0 ? Digit::RealFormatType::Default : (fmt == 1 ? Digit::RealFormatType::Fixed : Digit::RealFormatType::SemiFixed);
    Digit::NumberToString(ss, value, info);
    std::vector<long> o;
    for (SizeT i = 0; i < ss.Length(); ++i) o.push_back((long)(typename std::make_unsigned<Ch>::type)ss.First()[i]);
    return o;
}

int main(int argc, char **argv) {
    vf::install_handlers();
    if (argc < 2) return 2;
    std::string mode = argv[1];
    if (mode == "parse" && argc >= 4) {
        FILE *in = fopen(argv[2], "r"), *out = fopen(argv[3], "w");
        if (!in || !out) return 2;
        vf::g_trace = out;
        std::string line;
        long        n = 0, widthdiff = 0;
        while (vf::read_line(in, line)) {
            std::vector<long> s = vf::parse_ints(line.c_str());
            vf::begin_case(n++);
            snprintf(vf::g_desc, sizeof(vf::g_desc), "numeral=%s", line.substr(0, 900).c_str());
            long    cls, consumed, c2, k2, c3, k3;
            SizeT64 bits, b2, b3;
            parse_one<char>(s, cls, consumed, bits);
            parse_one<char16_t>(s, c2, k2, b2);
            parse_one<char32_t>(s, c3, k3, b3);
            std::string js, jb;
            vf::json_ints(js, s);
            vf::json_ints(jb, bytes64(bits));
            fprintf(out, "{\"w\":8,\"s\":%s,\"cls\":%ld,\"consumed\":%ld,\"bits\":%s}\n", js.c_str(), cls, consumed, jb.c_str());
            if (c2 != cls || k2 != consumed || b2 != bits) { vf::json_ints(jb = "", bytes64(b2)); fprintf(out, "{\"w\":16,\"s\":%s,\"cls\":%ld,\"consumed\":%ld,\"bits\":%s}\n", js.c_str(), c2, k2, jb.c_str()); ++widthdiff; }
            if (c3 != cls || k3 != consumed || b3 != bits) { vf::json_ints(jb = "", bytes64(b3)); fprintf(out, "{\"w\":32,\"s\":%s,\"cls\":%ld,\"consumed\":%ld,\"bits\":%s}\n", js.c_str(), c3, k3, jb.c_str()); ++widthdiff; }
        }
        fclose(out);
        vf::g_trace = nullptr;
        printf("NUMERALS %ld\nWIDTHDIFF %ld\n", n, widthdiff);
    } else if (mode == "format" && argc >= 4) {
        FILE *in = fopen(argv[2], "r"), *out = fopen(argv[3], "w");
        if (!in || !out) return 2;
        vf::g_trace = out;
        std::string line;
        long        n = 0, widthdiff = 0;
        while (vf::read_line(in, line)) {
            auto p = vf::split(line, ' ');
            if (p.size() < 4) continue;
            std::string kind = p[0];
            SizeT64     raw  = strtoull(p[1].c_str(), nullptr, 16);
            int         fmt  = atoi(p[2].c_str());
            unsigned    prec = (unsigned)atoi(p[3].c_str());
            vf::begin_case(n++);
            snprintf(vf::g_desc, sizeof(vf::g_desc), "format %s", line.c_str());
            bool              pok = true;
            std::vector<long> o, o16;
            if (kind == "f64") { double d; memcpy(&d, &raw, 8); o = format_value(d, fmt, prec, pok); o16 = format_wide<double, char16_t>(d, fmt, prec); }
            else if (kind == "f32") { float f; SizeT32 r = (SizeT32)raw; memcpy(&f, &r, 4); o = format_value(f, fmt, prec, pok); o16 = format_wide<float, char32_t>(f, fmt, prec); }
#if defined(QENTEM_ENABLE_FLOAT_16) && (QENTEM_ENABLE_FLOAT_16 == 1)
            else if (kind == "f16") { _Float16 h; SizeT16 r = (SizeT16)raw; memcpy(&h, &r, 2); o = format_value(h, fmt, prec, pok); o16 = o; }
#endif
            else if (kind == "u8") { o = format_value((SizeT8)raw, fmt, prec, pok); o16 = o; }
            else if (kind == "i8") { o = format_value((SizeT8I)raw, fmt, prec, pok); o16 = o; }
            else if (kind == "u16") { o = format_value((SizeT16)raw, fmt, prec, pok); o16 = o; }
            else if (kind == "i16") { o = format_value((SizeT16I)raw, fmt, prec, pok); o16 = o; }
            else if (kind == "u32") { o = format_value((SizeT32)raw, fmt, prec, pok); o16 = o; }
            else if (kind == "i32") { o = format_value((SizeT32I)raw, fmt, prec, pok); o16 = o; }
            else if (kind == "u64") { o = format_value((SizeT64)raw, fmt, prec, pok); o16 = format_wide<SizeT64, char16_t>((SizeT64)raw, fmt, prec); }
            else if (kind == "i64") { o = format_value((SizeT64I)raw, fmt, prec, pok); o16 = format_wide<SizeT64I, char32_t>((SizeT64I)raw, fmt, prec); }
            else continue;
            if (o16 != o) ++widthdiff;
            std::string jo, jb;
            vf::json_ints(jo, o);
            vf::json_ints(jb, bytes64(raw));
            fprintf(out, "{\"kind\":\"%s\",\"bits\":%s,\"fmt\":\"%s\",\"p\":%u,\"out\":%s,\"prefix\":%d,\"wsame\":%d}\n", kind.c_str(), jb.c_str(), fmt_name(fmt), prec, jo.c_str(),
                    pok ? 1 : 0, o16 == o ? 1 : 0);
        }
        fclose(out);
        vf::g_trace = nullptr;
        printf("VALUES %ld\nWIDTHDIFF %ld\n", n, widthdiff);
    } else if (mode == "roundtrip" && argc >= 6) {
        vf::Rng rng(strtoull(argv[2], nullptr, 10));
        long    n = atol(argv[3]), logevery = atol(argv[5]);
        FILE   *out = fopen(argv[4], "w");
        vf::g_trace = out;
        long bad = 0, logged = 0;
        for (long i = 0; i < n; ++i) {
            SizeT64 bits;
            switch (i % 8) {
                case 0: bits = rng.next(); break;                                                     // uniform bit patterns
                case 1: bits = (rng.next() & 0x000FFFFFFFFFFFFFULL) | ((SizeT64)rng.below(2047) << 52); break;   // uniform exponent
                case 2: bits = rng.next() & 0x000FFFFFFFFFFFFFULL; break;                               // subnormals
                case 3: bits = ((SizeT64)rng.below(2047) << 52) + (rng.below(3)) - 1; break;            // powers of two +-1 ulp
                case 4: { double d = 1.0; int e = (int)rng.below(617) - 308; for (int k = 0; k < (e < 0 ? -e : e); ++k) d = e < 0 ? d / 10 : d * 10; memcpy(&bits, &d, 8); bits += rng.below(5); bits -= 2; break; }   // powers of ten +-2 ulp
                case 5: bits = 0x7FEFFFFFFFFFFFFFULL - rng.below(4); break;                              // largest finite
                case 6: bits = (SizeT64)(rng.below(4)) | ((SizeT64)rng.below(2) << 63); break;           // zeros, smallest subnormals
                default: { double d = (double)(long)(rng.next() >> 20) / (double)(1 + rng.below(1000)); memcpy(&bits, &d, 8); }
            }
            if (((bits >> 52) & 0x7FF) == 0x7FF) continue;
            if (i % 3 == 0) bits |= 0x8000000000000000ULL;
            double d;
            memcpy(&d, &bits, 8);
            vf::begin_case(i);
            snprintf(vf::g_desc, sizeof(vf::g_desc), "roundtrip bits=%016llx", (unsigned long long)bits);
            StringStream<char> ss;
            Digit::RealFormatInfo info{17U};
            Digit::NumberToString(ss, d, info);
            vf::Exact<char> buf(ss.First(), ss.First() + ss.Length());
            QNumber64       q;
            SizeT           off = 0;
            QNumberType     t   = Digit::StringToNumber(q, (const char *)buf.data(), off, (SizeT)buf.n);
            SizeT64         back = q.Natural;
            if (t == QNumberType::Natural) { double x = (double)q.Natural; memcpy(&back, &x, 8); }
            else if (t == QNumberType::Integer) { double x = (double)q.Integer; memcpy(&back, &x, 8); }
            bool ok = (t != QNumberType::NotANumber) && (off == ss.Length()) && (back == bits);
            if (!ok) ++bad;
            if (!ok || (i % logevery) == 0) {
                std::vector<long> text(ss.First(), ss.First() + ss.Length());
                std::string js, jb, jk;
                vf::json_ints(js, text);
                vf::json_ints(jb, bytes64(bits));
                vf::json_ints(jk, bytes64(back));
                fprintf(out, "{\"bits\":%s,\"text\":%s,\"cls\":%d,\"consumed\":%u,\"raw\":%s,\"back\":%s,\"same\":%d}\n", jb.c_str(), js.c_str(), (int)t, off,
                        [&] { std::string r; vf::json_ints(r, bytes64(q.Natural)); return r; }().c_str(), jk.c_str(), ok ? 1 : 0);
                ++logged;
            }
        }
        fclose(out);
        vf::g_trace = nullptr;
        printf("VALUES %ld\nBAD %ld\nLOGGED %ld\n", n, bad, logged);
    } else if (mode == "floats32" && argc >= 5) {
        SizeT64 from = strtoull(argv[2], nullptr, 10), to = strtoull(argv[3], nullptr, 10), step = strtoull(argv[4], nullptr, 10);
        long    bad = 0, n = 0;
        for (SizeT64 r = from; r <= to; r += step) {
            SizeT32 b = (SizeT32)r;
            if (((b >> 23) & 0xFF) == 0xFF) continue;
            float f;
            memcpy(&f, &b, 4);
            StringStream<char> ss;
            Digit::RealFormatInfo info{9U};
            Digit::NumberToString(ss, f, info);
            QNumber64   q;
            SizeT       off = 0;
            QNumberType t   = Digit::StringToNumber(q, ss.First(), off, ss.Length());
            double      d   = (t == QNumberType::Real) ? q.Real : (t == QNumberType::Natural ? (double)q.Natural : (double)q.Integer);
            float       g   = (float)d;
            SizeT32     b2;
            memcpy(&b2, &g, 4);
            ++n;
            if (t == QNumberType::NotANumber || off != ss.Length() || b2 != b) {
                if (bad < 20) printf("FLOATBAD %08x -> %.*s -> %08x\n", b, (int)ss.Length(), ss.First(), b2);
                ++bad;
            }
        }
        printf("FLOATS %ld\nBAD %ld\n", n, bad);
    } else return 2;
    vf::end_cases();
    return 0;
}
