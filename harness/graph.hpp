// Generic spec -> code replay of a TLC state graph (E2).
// Graph file (written by lib/vf.py from `tlc -dump dot,actionlabels`):
//   I <node>                 initial node
//   N <node> <projection>    projection string of the specification state
//   E <src> <label> <dst>    labelled edge, label like Insert(1,2,1)
// The walker explores the graph along the choices the IMPLEMENTATION makes: for every
// specification state s it reaches and every action label a enabled in s it rebuilds the
// real object by replaying the path from the initial state, applies a and requires the
// projection of the real object to be the projection of one of the a-successors of s.
#ifndef VERIF_GRAPH_HPP
#define VERIF_GRAPH_HPP
#include "common.hpp"

namespace vf {

struct Graph {
    std::vector<std::string>                            proj;    // node -> projection
    std::vector<std::map<std::string, std::vector<int>>> out;    // node -> label -> dst nodes
    std::vector<int>                                    inits;
    std::unordered_map<std::string, int>                ids;
    int node(const std::string &name) {
        auto it = ids.find(name);
        if (it != ids.end()) return it->second;
        int id = (int)proj.size();
        ids.emplace(name, id);
        proj.emplace_back();
        out.emplace_back();
        return id;
    }
    bool load(const char *path) {
        FILE *f = fopen(path, "r");
        if (!f) return false;
        std::string line;
        while (read_line(f, line)) {
            if (line.size() < 3) continue;
            auto p = split(line, ' ');
            if (p[0] == "I" && p.size() >= 2) inits.push_back(node(p[1]));
            else if (p[0] == "N" && p.size() >= 2) proj[node(p[1])] = p.size() >= 3 ? p[2] : "";
            else if (p[0] == "E" && p.size() >= 4) {
                int s = node(p[1]);
                int d = node(p[3]);
                out[s][p[2]].push_back(d);
            }
        }
        fclose(f);
        return true;
    }
};

// label "Insert(1,2,1)" -> name "Insert", args {1,2,1}; TRUE/FALSE -> 1/0
inline void parse_label(const std::string &label, std::string &name, std::vector<long> &args) {
    args.clear();
    size_t p = label.find('(');
    if (p == std::string::npos) {
        name = label;
        return;
    }
    name          = label.substr(0, p);
    std::string a = label.substr(p + 1, label.size() - p - 2);
    for (auto &tok : split(a, ',')) {
        if (tok == "TRUE") args.push_back(1);
        else if (tok == "FALSE") args.push_back(0);
        else args.push_back(strtol(tok.c_str(), nullptr, 10));
    }
}

// Model concept:  void reset();  bool apply(name, args) (false = label not executable here);
//                 std::string project();  std::string selfcheck() ("" = ok);  bool beyond_bound()
template <typename Model>
struct Walker {
    Graph &g;
    std::set<long> skip;   // case numbers that crashed in an earlier run of the same walk
    long   pruned{0}, edges_run{0}, labels_run{0}, mismatches{0}, skipped{0}, states_reached{0}, distinct_edges{0};
    int                             cur_state{-1};
    const std::string              *cur_label{nullptr};
    const std::vector<std::string> *cur_path{nullptr};
    explicit Walker(Graph &gr) : g(gr) {}

    void run(const char *tag) {
        std::vector<char>                     seen(g.proj.size(), 0);
        std::vector<std::vector<std::string>> path(g.proj.size());
        std::vector<int>                      stack;
        std::set<std::pair<long, int>>        seen_edges;
        for (int i : g.inits) {
            seen[i] = 1;
            stack.push_back(i);
        }
        std::string        name;
        std::vector<long>  args;
        long               case_no = 0;
        size_t head = 0;
        while (head < stack.size()) {
            int s = stack[head++];  // breadth first: shortest replay paths
            ++states_reached;
            for (auto &kv : g.out[s]) {
                long cn = case_no++;
                if (skip.count(cn)) { ++skipped; continue; }
                begin_case(cn);
                {
                    std::string d = "path=";
                    for (auto &l : path[s]) d += l + ";";
                    d += " action=" + kv.first;
                    snprintf(g_desc, sizeof(g_desc), "%s", d.c_str());
                }
                cur_state = s;
                cur_label = &kv.first;
                cur_path  = &path[s];
                Model m;
                m.reset();
                bool ok = true;
                for (auto &l : path[s]) {
                    parse_label(l, name, args);
                    if (!m.apply(name, args)) { ok = false; break; }
                }
                if (!ok) { ++skipped; continue; }
                {
                    std::string pre = m.project();
                    if (pre != g.proj[s]) {  // the implementation is not deterministic along this path
                        printf("MISMATCH %s nondeterministic-replay path=", tag);
                        for (auto &l : path[s]) printf("%s;", l.c_str());
                        printf(" expected=%s observed=%s\n", g.proj[s].c_str(), pre.c_str());
                        ++mismatches;
                        continue;
                    }
                }
                parse_label(kv.first, name, args);
                if (!m.apply(name, args)) { ++skipped; continue; }
                ++labels_run;
                std::string obs = m.project();
                std::string sc  = m.selfcheck();
                int         hit = -1;
                for (int d : kv.second)
                    if (g.proj[d] == obs) { hit = d; break; }
                if (hit < 0 && sc.empty() && m.beyond_bound()) {  // successor pruned by the model's state constraint
                    ++pruned;
                    continue;
                }
                if (hit < 0 || !sc.empty()) {
                    ++mismatches;
                    printf("MISMATCH %s path=", tag);
                    for (auto &l : path[s]) printf("%s;", l.c_str());
                    printf(" action=%s from=%s expected=", kv.first.c_str(), g.proj[s].c_str());
                    for (int d : kv.second) printf("%s|", g.proj[d].c_str());
                    printf(" observed=%s selfcheck=%s\n", obs.c_str(), sc.c_str());
                    continue;
                }
                ++edges_run;
                if (seen_edges.insert({(long)s * 1000003L + (long)std::hash<std::string>()(kv.first) % 1000003L, hit}).second)
                    ++distinct_edges;
                if (!seen[hit]) {
                    seen[hit]  = 1;
                    path[hit]  = path[s];
                    path[hit].push_back(kv.first);
                    stack.push_back(hit);
                }
            }
        }
        alarm(0);
        printf("WALK %s states=%ld labels=%ld edges=%ld skipped=%ld pruned=%ld mismatches=%ld\n", tag, states_reached, labels_run,
               edges_run, skipped, pruned, mismatches);
    }
};
} // namespace vf
#endif
