// Conformance harness for HArray / HList (C13, also drives C16 ledger).
//   walk   <graph> <variant>            spec -> code: replay the TLC state graph of QHash
//   record <seed> <hist> <steps> <out>  code -> spec: random histories as ndjson for TraceQHash
#include "graph.hpp"
#include "HArray.hpp"
#include "HList.hpp"
#include "String.hpp"

using namespace Qentem;
using Str = String<char>;

// ---------------- key universes ------------------------------------------
static SizeT g_maxslots = 1000;
static std::vector<std::string> g_keys;  // id-1 -> bytes, sorted by unsigned lexicographic order

static bool lex_less(const std::string &a, const std::string &b) {
    size_t n = std::min(a.size(), b.size());
    for (size_t i = 0; i < n; ++i) {
        unsigned char x = (unsigned char)a[i], y = (unsigned char)b[i];
        if (x != y) return x < y;
    }
    return a.size() < b.size();
}

static SizeT real_hash(const std::string &s) { return StringUtils::Hash(s.data(), (SizeT)s.size()); }

// variant 0: n keys that all collide modulo 16 (same bucket at capacities 2..16)
// variant 1: first key empty, second contains an embedded NUL, rest collide with the empty key modulo 4
// variant 2: proper-prefix chain "a","ab","abc",...   (order by prefix)
// variant 3: keys in pairwise different buckets modulo 8
static void make_keys(int variant, size_t n, uint64_t seed) {
    vf::Rng rng(seed + 77 * (uint64_t)variant);
    g_keys.clear();
    std::set<std::string> chosen;
    auto                  rnd_key = [&](size_t maxlen) {
        std::string k;
        size_t      len = 1 + rng.below((uint32_t)maxlen);
        for (size_t i = 0; i < len; ++i) k.push_back((char)('a' + rng.below(26)));
        return k;
    };
    if (variant == 2) {
        std::string k;
        for (size_t i = 0; i < n; ++i) {
            k.push_back((char)('a' + (i % 3)));
            chosen.insert(k);
        }
    } else if (variant == 1) {
        chosen.insert(std::string());
        if (n > 1) chosen.insert(std::string("a\0b", 3));
        SizeT want = real_hash(std::string()) & 3U;
        while (chosen.size() < n) {
            std::string k = rnd_key(5);
            if ((real_hash(k) & 3U) == want) chosen.insert(k);
        }
    } else if (variant == 0) {
        std::string first = rnd_key(4);
        chosen.insert(first);
        SizeT want = real_hash(first) & 15U;
        while (chosen.size() < n) {
            std::string k = rnd_key(6);
            if ((real_hash(k) & 15U) == want) chosen.insert(k);
        }
    } else {
        std::set<SizeT> buckets;
        while (chosen.size() < n) {
            std::string k = rnd_key(4);
            SizeT       b = real_hash(k) & 7U;
            if (n <= 8 && buckets.count(b)) continue;
            if (chosen.insert(k).second) buckets.insert(b);
        }
    }
    g_keys.assign(chosen.begin(), chosen.end());
    std::sort(g_keys.begin(), g_keys.end(), lex_less);
}
static int key_id(const char *p, size_t n) {
    std::string k(p, n);
    for (size_t i = 0; i < g_keys.size(); ++i)
        if (g_keys[i] == k) return (int)i + 1;
    return -1;
}
static Str K(long id) {
    const std::string &s = g_keys[(size_t)id - 1];
    return Str((const char *)s.data(), (SizeT)s.size());
}

// ---------------- value adaptors ------------------------------------------
template <typename V>
struct Val;
template <>
struct Val<SizeT> {
    static SizeT make(long v) { return (SizeT)v; }
    static long  read(const SizeT &v) { return (long)v; }
};
template <>
struct Val<Str> {  // value v >= 1 is the string "v<v>" repeated to force heap storage; 0 is the empty string
    static Str make(long v) {
        if (v == 0) return Str();
        std::string s = "value-" + std::to_string(v);
        return Str((const char *)s.data(), (SizeT)s.size());
    }
    static long read(const Str &v) {
        if (v.Length() == 0) return 0;
        std::string s(v.First(), v.Length());
        if (s.rfind("value-", 0) != 0) return -7;
        return strtol(s.c_str() + 6, nullptr, 10);
    }
};

// ---------------- the model bound to a real table -------------------------
template <typename Table, typename V, bool IsList>
struct HModel {
    Table tb[2];

    bool beyond_bound() const { return tb[0].Size() > g_maxslots || tb[1].Size() > g_maxslots; }
    void reset() {
        tb[0].Reset();
        tb[1].Reset();
    }
    static void proj_one(const Table &t, std::string &o) {
        for (SizeT i = 0; i < t.Size(); ++i) {
            if (i) o.push_back(',');
            const Str *k = t.GetKey(i);
            if (k == nullptr) {
                o += "0:0:0";
                continue;
            }
            long v = 0;
            if constexpr (!IsList) {
                const V *pv = t.GetValue(i);
                v           = (pv == nullptr) ? -9 : Val<V>::read(*pv);
            }
            o += std::to_string(key_id(k->First(), k->Length())) + ":" + std::to_string(v) + ":1";
        }
    }
    std::string project(int ntables = 0) {
        std::string o;
        proj_one(tb[0], o);
        if (ntables != 1) {
            o.push_back('|');
            proj_one(tb[1], o);
        }
        return o;
    }
    // every key of the universe is probed through the lookup API and must agree with the positional view
    std::string selfcheck() {
        for (int t = 0; t < 2; ++t) {
            const Table &h = tb[t];
            if (h.Size() > h.Capacity()) return "size>capacity";
            SizeT live = 0;
            for (SizeT i = 0; i < h.Size(); ++i) live += (h.GetKey(i) != nullptr);
            if (live != h.ActualSize()) return "ActualSize";
            for (size_t id = 1; id <= g_keys.size(); ++id) {
                Str  k   = K((long)id);
                long pos = -1;
                for (SizeT i = 0; i < h.Size(); ++i) {
                    const Str *kk = h.GetKey(i);
                    if (kk != nullptr && kk->Length() == k.Length() && memcmp(kk->First(), k.First(), k.Length()) == 0) {
                        if (pos >= 0) return "duplicate-live-key";
                        pos = (long)i;
                    }
                }
                bool has = h.Has(k);
                if (has != (pos >= 0)) return "Has(" + std::to_string(id) + ")";
                if (h.Has(k.First(), k.Length()) != has) return "Has(ptr)";
                SizeT idx = 12345;
                bool  gi  = h.GetKeyIndex(idx, k);
                if (gi != (pos >= 0) || (gi && (long)idx != pos)) return "GetKeyIndex(" + std::to_string(id) + ")";
                const auto *it = h.GetItem(k);
                if ((it != nullptr) != (pos >= 0)) return "GetItem";
                if (it != nullptr && it != h.GetItem((SizeT)pos)) return "GetItem-pos";
                if constexpr (!IsList) {
                    const V *pv = h.GetValue(k);
                    if ((pv != nullptr) != (pos >= 0)) return "GetValue(key)";
                    if (pv != nullptr && pv != h.GetValue((SizeT)pos)) return "GetValue-pos";
                }
            }
            // iteration sees exactly Size() items
            SizeT n = 0;
            for (const auto &item : h) {
                (void)item;
                ++n;
            }
            if (n != h.Size()) return "iteration";
            if (h.GetKey(h.Size()) != nullptr) return "GetKey(Size)";
        }
        return "";
    }
    int overload{0};
    bool apply(const std::string &name, const std::vector<long> &a) {
        Table &t = tb[a.size() ? (a[0] - 1) & 1 : 0];
        ++overload;
        if (name == "Insert") {
            if constexpr (IsList) return false;
            else {
                switch (overload % 4) {
                    case 0: t.Insert(K(a[1]), Val<V>::make(a[2])); break;
                    case 1: { Str k = K(a[1]); V v = Val<V>::make(a[2]); t.Insert(k, v); break; }
                    case 2: { Str k = K(a[1]); t.Insert(k.First(), k.Length(), Val<V>::make(a[2])); break; }
                    default: { Str k = K(a[1]); t[k] = Val<V>::make(a[2]); break; }
                }
            }
        } else if (name == "GetOrCreate") {
            if constexpr (IsList) {
                Str k = K(a[1]);
                switch (overload % 3) {
                    case 0: t.Insert(k); break;
                    case 1: t.Insert(K(a[1])); break;
                    default: t.Insert(k.First(), k.Length()); break;
                }
            } else {
                Str k = K(a[1]);
                switch (overload % 3) {
                    case 0: (void)t[k]; break;
                    case 1: (void)t[K(a[1])]; break;
                    default: (void)t.Get(k.First(), k.Length()); break;
                }
            }
        } else if (name == "Remove") {
            Str k = K(a[1]);
            if (overload & 1) t.Remove(k);
            else t.Remove(k.First(), k.Length());
        } else if (name == "RemoveIndex") {
            t.RemoveIndex((SizeT)a[1]);
        } else if (name == "Rename") {
            if (overload & 1) t.Rename(K(a[1]), K(a[2]));
            else { Str to = K(a[2]); t.Rename(K(a[1]), to); }
        } else if (name == "Resize") {
            t.Resize((SizeT)a[1]);
        } else if (name == "Expect") {
            // (operations that leave the abstract map unchanged: a capacity hint, and merging the table into itself)
            Table *self = &t;
            switch (overload % 4) {
                case 0: t += *self; break;
                case 1: t += Memory::Move(*self); break;
                default: t.Expect((SizeT)(1 + overload % 5));
            }
        } else if (name == "Compress") {
            t.Compress();
        } else if (name == "Clear") {
            switch (overload % 3) {
                case 0: t.Clear(); break;
                case 1: t.Reset(); break;
                default: t.Reserve((SizeT)(overload % 7)); break;
            }
        } else if (name == "Sort") {
            t.Sort(a[1] != 0);
        } else if (name == "CopyFrom") {
            Table &u = tb[(a[1] - 1) & 1];
            if (overload & 1) t = u;
            else { Table c(u); t = Memory::Move(c); }
        } else if (name == "MoveFrom") {
            Table &u = tb[(a[1] - 1) & 1];
            if (overload & 1) t = Memory::Move(u);
            else { Table c(Memory::Move(u)); t = Memory::Move(c); }
        } else if (name == "MergeCopy") {
            Table &u = tb[(a[1] - 1) & 1];
            t += u;
        } else if (name == "MergeMove") {
            Table &u = tb[(a[1] - 1) & 1];
            t += Memory::Move(u);
        } else {
            return false;
        }
        return true;
    }
};

template <typename M>
static int do_walk(vf::Graph &g, const char *tag) {
    vf::Walker<M> w(g);
    w.run(tag);
    return 0;
}

// ---------------- code -> spec recorder ------------------------------------
template <typename M, bool IsList>
static void record(uint64_t seed, long nhist, long nsteps, FILE *out, const char *tag, size_t nkeys) {
    vf::Rng rng(seed);
    long    case_no = 0;
    for (long h = 0; h < nhist; ++h) {
        make_keys((int)(h % 4), nkeys, seed + (uint64_t)h);
        M m;
        m.reset();
        fprintf(out, "{\"op\":\"Reset\",\"tag\":\"%s\",\"p\":[[],[]]}\n", tag);
        for (long s = 0; s < nsteps; ++s) {
            vf::begin_case(case_no++);
            long        t = 1 + rng.below(4) / 3;  // table 1 three times as often
            long        u = 3 - t;
            long        k = 1 + rng.below((uint32_t)g_keys.size()), k2 = 1 + rng.below((uint32_t)g_keys.size());
            long        v = 1 + rng.below(5);
            long        i = rng.below(8);
            uint32_t    r = rng.below(100);
            std::string name;
            std::vector<long> a;
            std::string extra;
            if (r < 26) { name = IsList ? "GetOrCreate" : "Insert"; a = {t, k, v}; }
            else if (r < 36) { name = "GetOrCreate"; a = {t, k}; }
            else if (r < 50) { name = "Remove"; a = {t, k}; }
            else if (r < 56) { name = "RemoveIndex"; a = {t, i}; }
            else if (r < 64) { name = "Rename"; a = {t, k, k2}; }
            else if (r < 68) { name = "Resize"; a = {t, i}; }
            else if (r < 72) { name = "Expect"; a = {t}; }
            else if (r < 76) { name = "Compress"; a = {t}; }
            else if (r < 78) { name = "Clear"; a = {t}; }
            else if (r < 83) { name = "Sort"; a = {t, (long)rng.below(2)}; }
            else if (r < 86) { name = "CopyFrom"; a = {t, u}; }
            else if (r < 89) { name = "MoveFrom"; a = {t, u}; }
            else if (r < 93) { name = "MergeCopy"; a = {t, u}; }
            else if (r < 96) { name = "MergeMove"; a = {t, u}; }
            else { name = "Has"; a = {t, k}; }
            long ret = -1;
            if (name == "Has") {
                ret = m.tb[t - 1].Has(K(k)) ? 1 : 0;
            } else if (name == "Rename") {
                // return value is part of the contract
                Str to = K(k2);
                ret    = m.tb[t - 1].Rename(K(k), to) ? 1 : 0;
            } else {
                m.apply(name, a);
            }
            std::string sc = m.selfcheck();
            fprintf(out, "{\"op\":\"%s\",\"a\":", name.c_str());
            std::string js;
            vf::json_ints(js, a);
            fputs(js.c_str(), out);
            if (ret >= 0) fprintf(out, ",\"ret\":%ld", ret);
            fprintf(out, ",\"ok\":%d,\"p\":[", sc.empty() ? 1 : 0);
            for (int tt = 0; tt < 2; ++tt) {
                if (tt) fputc(',', out);
                fputc('[', out);
                const auto &tbl = m.tb[tt];
                for (SizeT x = 0; x < tbl.Size(); ++x) {
                    if (x) fputc(',', out);
                    const Str *kk = tbl.GetKey(x);
                    if (kk == nullptr) { fputs("[0,0,0]", out); continue; }
                    long vv = 0;
                    if constexpr (!IsList) {
                        auto *pv = tbl.GetValue(x);
                        vv       = pv ? Val<typename std::remove_pointer<decltype(pv)>::type>::read(*pv) : -9;
                    }
                    fprintf(out, "[%d,%ld,1]", key_id(kk->First(), kk->Length()), vv);
                }
                fputc(']', out);
            }
            fputs("]}\n", out);
            if (!sc.empty()) printf("SELFCHECK %s hist=%ld step=%ld %s\n", tag, h, s, sc.c_str());
        }
    }
}

int main(int argc, char **argv) {
    vf::install_handlers();
    vf::ledger_trace("h_hash", false);
    if (argc < 2) return 2;
    std::string mode = argv[1];
    if (mode == "walk" && argc >= 5) {
        vf::Graph g;
        if (!g.load(argv[2])) return 2;
        int    variant = atoi(argv[3]);
        size_t nkeys   = (size_t)atoi(argv[4]);
        if (argc >= 6) g_maxslots = (SizeT)atoi(argv[5]);
        make_keys(variant, nkeys, 5);
        std::string tag = std::string("v") + argv[3];
        printf("KEYS %s", tag.c_str());
        for (auto &k : g_keys) {
            printf(" [");
            for (unsigned char c : k) printf("%02x", c);
            printf("]");
        }
        printf("\n");
        do_walk<HModel<HArray<Str, SizeT>, SizeT, false>>(g, (tag + "/HArray<String,SizeT>").c_str());
        do_walk<HModel<HArray<Str, Str>, Str, false>>(g, (tag + "/HArray<String,String>").c_str());
        do_walk<HModel<HList<Str>, SizeT, true>>(g, (tag + "/HList<String>").c_str());
        vf::Ledger &l = vf::ledger();
        printf("LEDGER allocs=%ld frees=%ld live=%zu badfree=%ld\n", l.allocs, l.frees, l.live.size(), l.bad_free);
        vf::end_cases();
        return 0;
    }
    if (mode == "record" && argc >= 6) {
        uint64_t seed = strtoull(argv[2], nullptr, 10);
        long     nh = atol(argv[3]), ns = atol(argv[4]);
        FILE    *out = fopen(argv[5], "w");
        if (!out) return 2;
        vf::g_trace = out;
        record<HModel<HArray<Str, SizeT>, SizeT, false>, false>(seed, nh, ns, out, "HArray<String,SizeT>", 12);
        record<HModel<HArray<Str, Str>, Str, false>, false>(seed + 1, nh, ns, out, "HArray<String,String>", 12);
        record<HModel<HList<Str>, SizeT, true>, true>(seed + 2, nh / 2 + 1, ns, out, "HList<String>", 12);
        fclose(out);
        vf::g_trace = nullptr;
        vf::Ledger &l = vf::ledger();
        printf("LEDGER allocs=%ld frees=%ld live=%zu badfree=%ld\n", l.allocs, l.frees, l.live.size(), l.bad_free);
        vf::end_cases();
        return 0;
    }
    return 2;
}
