// Conformance harness for C03: StringUtils::EscapeHTMLSpecialChars on exact-size buffers.
//   enum   <maxlen> <alphabet csv of units> <out.ndjson>
//   random <seed> <count> <maxlen> <out.ndjson>
#include "common.hpp"
#include "StringStream.hpp"

using namespace Qentem;

template <typename Ch>
static std::vector<long> esc(const std::vector<long> &s) {
    vf::Exact<Ch>    buf(s.begin(), s.end());
    StringStream<Ch> ss;
    StringUtils::EscapeHTMLSpecialChars(ss, (const Ch *)buf.data(), (SizeT)buf.n);
    std::vector<long> o;
    for (SizeT i = 0; i < ss.Length(); ++i) o.push_back((long)(typename std::make_unsigned<Ch>::type)ss.First()[i]);
    return o;
}
template <typename Ch>
static std::vector<long> esc_into_nonempty(const std::vector<long> &s) {  // only appends to the caller's stream
    vf::Exact<Ch>    buf(s.begin(), s.end());
    StringStream<Ch> ss;
    ss += Ch('x');
    ss += Ch('&');
    StringUtils::EscapeHTMLSpecialChars(ss, (const Ch *)buf.data(), (SizeT)buf.n);
    std::vector<long> o;
    if (ss.Length() < 2 || ss.First()[0] != Ch('x') || ss.First()[1] != Ch('&')) return {-1};
    for (SizeT i = 2; i < ss.Length(); ++i) o.push_back((long)(typename std::make_unsigned<Ch>::type)ss.First()[i]);
    return o;
}
static long g_events = 0, g_width_diff = 0;
static void emit(FILE *f, const char *w, const std::vector<long> &s, const std::vector<long> &o, const std::vector<long> &oo) {
    std::string a, b, c;
    vf::json_ints(a, s);
    vf::json_ints(b, o);
    vf::json_ints(c, oo);
    fprintf(f, "{\"w\":\"%s\",\"esc\":%d,\"s\":%s,\"o\":%s,\"oo\":%s}\n", w, Config::AutoEscapeHTML ? 1 : 0, a.c_str(), b.c_str(), c.c_str());
    ++g_events;
}
// all widths; units must be < 128 for the cross-width comparison to be meaningful
static void one(FILE *f, const std::vector<long> &s, bool ascii) {
    auto o8 = esc<char>(s);
    emit(f, "char", s, o8, esc<char>(o8));
    if (esc_into_nonempty<char>(s) != o8) emit(f, "char-append", s, esc_into_nonempty<char>(s), esc<char>(o8));
    auto o16 = esc<char16_t>(s);
    auto o32 = esc<char32_t>(s);
    auto ow  = esc<wchar_t>(s);
    if (!ascii || o16 != o8) { emit(f, "char16_t", s, o16, esc<char16_t>(o16)); g_width_diff += ascii; }
    if (!ascii || o32 != o8) { emit(f, "char32_t", s, o32, esc<char32_t>(o32)); g_width_diff += ascii; }
    if (!ascii || ow != o8) { emit(f, "wchar_t", s, ow, esc<wchar_t>(ow)); g_width_diff += ascii; }
}

int main(int argc, char **argv) {
    vf::install_handlers();
    if (argc < 2) return 2;
    std::string mode = argv[1];
    if (mode == "enum" && argc >= 5) {
        int               maxlen = atoi(argv[2]);
        std::vector<long> alpha  = vf::parse_ints(argv[3]);
        FILE             *f      = fopen(argv[4], "w");
        vf::g_trace              = f;
        std::vector<long> s;
        long              n = 0;
        // odometer over all strings of length 0..maxlen
        for (int len = 0; len <= maxlen; ++len) {
            std::vector<size_t> idx((size_t)len, 0);
            while (true) {
                s.clear();
                for (size_t i : idx) s.push_back(alpha[i]);
                vf::begin_case(n++);
                one(f, s, true);
                int p = len - 1;
                while (p >= 0 && ++idx[(size_t)p] == alpha.size()) idx[(size_t)p--] = 0;
                if (p < 0) break;
            }
        }
        fclose(f);
        vf::g_trace = nullptr;
        printf("STRINGS %ld\nEVENTS %ld\nWIDTHDIFF %ld\n", n, g_events, g_width_diff);
    } else if (mode == "random" && argc >= 6) {
        vf::Rng rng(strtoull(argv[2], nullptr, 10));
        long    count = atol(argv[3]);
        int     maxlen = atoi(argv[4]);
        FILE   *f = fopen(argv[5], "w");
        vf::g_trace = f;
        static const char *frag[] = {"&", "&amp;", "&lt;", "&gt;", "&quot;", "&apos;", "&am", "&amp", "&l", "&lt", "&g", "&quo", "&quot", "&apo",
                                     "&apos", ";", "<", ">", "\"", "'", "&&", "&;", "&#38;", "amp;", "&AMP;", "&ltt;", "&gtx"};
        for (long n = 0; n < count; ++n) {
            std::vector<long> s;
            int               len = (int)rng.below((uint32_t)maxlen + 1);
            bool              ascii = rng.chance(1, 2);
            while ((int)s.size() < len) {
                uint32_t r = rng.below(10);
                if (r < 5) {
                    const char *fr = frag[rng.below(sizeof(frag) / sizeof(frag[0]))];
                    for (const char *p = fr; *p; ++p) s.push_back(*p);
                } else if (r < 8 || ascii) {
                    s.push_back(1 + rng.below(127));
                } else {
                    s.push_back(rng.below(2) ? rng.below(256) : 128 + rng.below(128));  // high half / NUL (8-bit representable)
                }
            }
            vf::begin_case(n);
            if (ascii) one(f, s, true);
            else {
                auto o8 = esc<char>(s);   // units 128..255 read back unsigned
                emit(f, "char", s, o8, esc<char>(o8));
                auto o16 = esc<char16_t>(s);
                emit(f, "char16_t", s, o16, esc<char16_t>(o16));
            }
        }
        fclose(f);
        vf::g_trace = nullptr;
        printf("STRINGS %ld\nEVENTS %ld\nWIDTHDIFF %ld\n", count, g_events, g_width_diff);
    } else {
        return 2;
    }
    vf::end_cases();
    return 0;
}
