// Conformance harness for the template engine: C04 (expressions), C02 (documented expansion), C01 (safety of any text),
// C03 (printing paths), C17 (purity / cached / concurrent renders).
//   expr   <infile> <out> [from]     lines: <expression units csv> TAB <tokens json>; evaluates and renders the three tag forms
//   render <infile> <out> [from]     lines: <template units csv> TAB <value json units csv> TAB <meta json>; renders in 4 widths
//   cache  <infile> <out> [from]     C16: lifetimes of the parsed tag array (copy, move, assign, clear, reuse, append, drop)
//   (both copy the json columns into the event unchanged; `from` = first case to run, for crash recovery)
//   parse  <infile> <out> [from]     (xasan build, hook H2) lines as for render; renders once in char and records the scanner's
//                                    state at every dispatched token: {"c":case,"i":step,"tok":id,"tree":..,"ps":[path..],"cur":path,
//                                    "lt":path,"ch":0/1}; a path is [record, sub-container, record, ...], [-1] = not inside the tree
#include "common.hpp"
#include <deque>
#ifdef QENTEM_VERIF
namespace vfp {
template <class Root, class Stack, class Cont, class Loop>
static void parse_event(unsigned tok, const Root &root, const Stack &ps, const Cont *cur, const Loop *ltag, bool child);
}
#define QENTEM_VERIF_PARSE_EVENT(tok, root, ps, cur, ltag, child) ::vfp::parse_event(tok, root, ps, cur, ltag, child)
#endif
#include "JSON.hpp"
#include "Template.hpp"

using namespace Qentem;

#ifdef QENTEM_VERIF
namespace vfp {
static bool g_on   = false;
static long g_case = 0, g_step = 0, g_len = 0;
using Qentem::Tags::TagBit;
using Qentem::Tags::TagType;

static void path_json(std::string &o, const std::vector<int> &p) {
    o += "[";
    for (size_t i = 0; i < p.size(); ++i) o += (i ? "," : "") + std::to_string(p[i]);
    o += "]";
}
// writes the tree below `c`; remembers the path of the container `want` and of the loop record `loop`
struct Dump {
    const void                   *want_loop;
    std::vector<const void *>     want_conts;
    std::vector<std::vector<int>> cont_paths;
    std::vector<int>              loop_path{-1};
    std::vector<int>              path;
    std::string                   out;
    void cont(const Array<TagBit> &c) {
        for (size_t w = 0; w < want_conts.size(); ++w)
            if (want_conts[w] == (const void *)&c) cont_paths[w] = path;
        out += "[";
        int i = 0;
        for (const TagBit *t = c.First(); t != c.End(); ++t) {
            if (i++) out += ",";
            path.push_back(i);
            const char *k = "none";
            int closed = 1, lv = 0;
            std::vector<const Array<TagBit> *> subs;
            switch (t->GetType()) {
                case TagType::Variable:
                case TagType::RawVariable: k = "var"; break;
                case TagType::Math: k = "math"; closed = t->GetMathTag().EndOffset != 0; break;
                case TagType::SuperVariable: k = "svar"; closed = t->GetSuperVariableTag().EndOffset != 0; subs.push_back(&t->GetSuperVariableTag().SubTags); break;
                case TagType::InLineIf: k = "iif"; closed = t->GetInLineIfTag().Length != 0; subs.push_back(&t->GetInLineIfTag().SubTags); break;
                case TagType::Loop:
                    k = "loop"; closed = t->GetLoopTag().EndOffset != 0; lv = t->GetLoopTag().Level; subs.push_back(&t->GetLoopTag().SubTags);
                    if ((const void *)&t->GetLoopTag() == want_loop) loop_path = path;
                    break;
                case TagType::If: {
                    k = "if"; closed = t->GetIfTag().EndOffset != 0;
                    for (const auto *cs = t->GetIfTag().Cases.First(); cs != t->GetIfTag().Cases.End(); ++cs) subs.push_back(&cs->SubTags);
                    break;
                }
                default: break;
            }
            out += std::string("{\"k\":\"") + k + "\",\"c\":" + std::to_string(closed) + ",\"lv\":" + std::to_string(lv) + ",\"s\":[";
            int j = 0;
            for (const auto *sc : subs) {
                if (j++) out += ",";
                path.push_back(j);
                cont(*sc);
                path.pop_back();
            }
            out += "]}";
            path.pop_back();
        }
        out += "]";
    }
};
// the finished tag tree with the text ranges the renderer will trust: every record [a, b) and, per container it owns, the
// range [lo, hi) in which that container's records must lie (spec/QTagTree.tla)
static long g_final_records = 0, g_final_depth = 0, g_final_maxdepth = 0;
static void final_cont(std::string &o, const Array<TagBit> &c) {
    if (++g_final_depth > g_final_maxdepth) g_final_maxdepth = g_final_depth;
    struct Leave { ~Leave() { --g_final_depth; } } leave;
    o += "[";
    int i = 0;
    for (const TagBit *t = c.First(); t != c.End(); ++t) {
        if (i++) o += ",";
        ++g_final_records;
        const char *k = "none";
        long        a = 0, b = 0;
        std::string subs;
        auto sub = [&](long lo, long hi, const Array<TagBit> &sc) {
            subs += (subs.empty() ? "" : ",");
            subs += "{\"lo\":" + std::to_string(lo) + ",\"hi\":" + std::to_string(hi) + ",\"t\":";
            final_cont(subs, sc);
            subs += "}";
        };
        switch (t->GetType()) {
            case TagType::Variable:
            case TagType::RawVariable: {
                const auto &v = t->GetVariableTag();
                k = "var"; a = (long)v.Offset - 5; b = a + (long)v.Length + 6;
                break;
            }
            case TagType::Math: k = "math"; a = (long)t->GetMathTag().Offset; b = (long)t->GetMathTag().EndOffset; break;
            case TagType::SuperVariable: {
                const auto &v = t->GetSuperVariableTag();
                k = "svar"; a = (long)v.Offset; b = (long)v.EndOffset;
                sub(a, b, v.SubTags);
                break;
            }
            case TagType::InLineIf: {
                const auto &v = t->GetInLineIfTag();
                k = "iif"; a = (long)v.Offset; b = a + (long)v.Length;
                sub(a, b, v.SubTags);
                break;
            }
            case TagType::Loop: {
                const auto &v = t->GetLoopTag();
                k = "loop"; a = (long)v.Offset; b = (long)v.EndOffset + 7;
                sub(a + (long)v.ContentOffset, (long)v.EndOffset, v.SubTags);
                break;
            }
            case TagType::If: {
                const auto &v = t->GetIfTag();
                k = "if"; a = (long)v.Offset; b = (long)v.EndOffset;
                for (const auto *cs = v.Cases.First(); cs != v.Cases.End(); ++cs) sub((long)cs->Offset, (long)cs->EndOffset, cs->SubTags);
                break;
            }
            default: break;
        }
        o += std::string("{\"k\":\"") + k + "\",\"a\":" + std::to_string(a) + ",\"b\":" + std::to_string(b) + ",\"s\":[" + subs + "]}";
    }
    o += "]";
}
template <class Root, class Stack, class Cont, class Loop>
static void parse_event(unsigned tok, const Root &root, const Stack &ps, const Cont *cur, const Loop *ltag, bool child) {
    if (g_on && vf::g_trace != nullptr && tok == ~0U) {   // the finished tree (always, unless it is huge)
        std::string o;
        g_final_records = g_final_depth = g_final_maxdepth = 0;
        final_cont(o, root);
        if (g_final_records <= 400 && g_final_maxdepth <= 40)   // (the JSON reader of the oracle nests at most 255 levels)
            fprintf(vf::g_trace, "{\"final\":1,\"c\":%ld,\"len\":%ld,\"tree\":%s}\n", g_case, g_len, o.c_str());
    }
    if (!g_on || vf::g_trace == nullptr || g_step > 200) return;   // long cases are not validated (the dump is quadratic); the check skips them
    Dump d;
    d.want_loop = (const void *)ltag;
    for (auto *const *p = ps.First(); p != ps.End(); ++p) d.want_conts.push_back((const void *)*p);
    d.want_conts.push_back((const void *)cur);
    d.cont_paths.assign(d.want_conts.size(), std::vector<int>{-1});
    d.cont(root);
    std::string o = "{\"c\":" + std::to_string(g_case) + ",\"i\":" + std::to_string(g_step++) + ",\"tok\":" + std::to_string(tok == ~0U ? 12 : (int)tok) + ",\"tree\":" + d.out + ",\"ps\":[";
    for (size_t w = 0; w + 1 < d.want_conts.size(); ++w) {
        if (w) o += ",";
        path_json(o, d.cont_paths[w]);
    }
    o += "],\"cur\":";
    path_json(o, d.cont_paths.back());
    o += ",\"lt\":";
    if (ltag == nullptr) o += "[]";
    else path_json(o, d.loop_path);
    o += ",\"ch\":" + std::to_string(child ? 1 : 0) + "}\n";
    fputs(o.c_str(), vf::g_trace);
}
}   // namespace vfp
#endif

template <typename Ch>
static std::vector<long> units_of(const StringStream<Ch> &ss, SizeT from = 0) {
    std::vector<long> v;
    for (SizeT i = from; i < ss.Length(); ++i) v.push_back((long)(typename std::make_unsigned<Ch>::type)ss.First()[i]);
    return v;
}

template <typename Ch>
static Value<Ch> parse_value(const std::vector<long> &json) {
    vf::Exact<Ch> buf(json.begin(), json.end());
    return JSON::Parse((const Ch *)buf.data(), (SizeT)buf.n);
}

// render from an exact-size, unterminated buffer into a stream that already holds content
template <typename Ch>
static std::vector<long> render(const std::vector<long> &tmpl, const Value<Ch> &value, bool &prefix_ok) {
    vf::Exact<Ch>    buf(tmpl.begin(), tmpl.end());
    StringStream<Ch> ss;
    ss += Ch('@');
    Template::Render((const Ch *)buf.data(), (SizeT)buf.n, value, ss);
    prefix_ok = ss.Length() >= 1 && ss.First()[0] == Ch('@');
    return units_of(ss, 1);
}

static const char *VARS_JSON =
    R"({"n0":0,"n1":1,"n2":2,"n3":3,"n7":7,"m2":-2,"h":0.5,"r":2.5,"s2":"2","s25":"2.5","t":true,"f":false,"nul":null,"txt":"abc","txt2":"abd","empty":"","sp":"12abc","sd":"2024-01-05","arr":[1],"obj":{"a":1}})";

// replaces every string inside the containers of v by a pointer-to-value entry whose target lives in `pool`
template <typename Ch>
static void ptrify(Value<Ch> &v, std::deque<Value<Ch>> &pool, bool containers = false) {
    if (!(v.IsArray() || v.IsObject())) return;
    for (SizeT i = 0; i < v.Size(); ++i) {
        Value<Ch> *e = v.GetValue(i);
        if (e == nullptr) continue;
        if (e->IsString()) {
            pool.emplace_back(Memory::Move(*e));
            e->SetPointerToValue(&pool.back());
        } else {
            ptrify(*e, pool, containers);
            if (containers && (e->IsArray() || e->IsObject())) {     // (children first: the moved container keeps its pointer entries)
                pool.emplace_back(Memory::Move(*e));
                e->SetPointerToValue(&pool.back());
            }
        }
    }
}
int main(int argc, char **argv) {
    vf::install_handlers();
    vf::ledger_trace("h_template", true);
    if (argc < 4) return 2;
    std::string mode = argv[1];
    FILE *in = fopen(argv[2], "r");
    if (!in) return 2;
    long  from = argc >= 5 ? atol(argv[4]) : 0;
    FILE *out  = fopen(argv[3], from > 0 ? "a" : "w");
    if (!out) return 2;
    vf::g_trace = out;
    std::string line;
    long        n = 0;
    if (mode == "exprparse") {
        // spec -> code (E2) for QExprParseImpl: every (expression, closing unit) of the model; the buffer is expression + closing unit, exact size,
        // parsed with length = the expression's; prints the accepted top-level operator list.   line: expression units \t closing unit
        static const char *OPN[] = {"NoOp", "||", "&&", "==", "!=", ">=", "<=", ">", "<", "|", "&", "+", "-", "*", "/", "%", "^", "Error"};
        long cases = 0;
        while (vf::read_line(in, line)) {
            long idx = n++;
            if (idx < from) continue;
            auto cols = vf::split(line, '\t');
            if (cols.size() < 2) continue;
            std::vector<long> e = vf::parse_ints(cols[0].c_str()), cl = vf::parse_ints(cols[1].c_str());
            vf::begin_case(idx, 20);
            snprintf(vf::g_desc, sizeof(vf::g_desc), "exprparse %s | %s", cols[0].c_str(), cols[1].c_str());
            char *buf = (char *)malloc(e.size() + 1);
            for (size_t i = 0; i < e.size(); ++i) buf[i] = (char)e[i];
            buf[e.size()] = (char)cl[0];
            {
                auto exprs = TemplateCore<char, Value<char>, StringStream<char>>::ParseExpressions(buf, (SizeT)e.size());
                std::string ops;
                for (SizeT i = 0; i < exprs.Size(); ++i) {
                    if (i) ops += ",";
                    ops += std::string("\"") + OPN[(int)exprs.First()[i].Operation] + "\"";
                }
                fprintf(out, "{\"e\":[%s],\"c\":%ld,\"n\":%ld,\"ops\":[%s]}\n", cols[0].c_str(), cl[0], (long)exprs.Size(), ops.c_str());
            }
            free(buf);
            ++cases;
        }
        printf("CASES %ld\n", cases);
    } else if (mode == "expr") {
        std::vector<long> vj(VARS_JSON, VARS_JSON + strlen(VARS_JSON));
        Value<char>       vars = parse_value<char>(vj);
        while (vf::read_line(in, line)) {
            long idx = n++;
            if (idx < from) continue;
            auto cols = vf::split(line, '\t');
            if (cols.size() < 2) continue;
            std::vector<long> ex = vf::parse_ints(cols[0].c_str());
            vf::begin_case(idx, 30);
            snprintf(vf::g_desc, sizeof(vf::g_desc), "expr=%s", std::string(ex.begin(), ex.end()).substr(0, 300).c_str());
            // (1) ParseExpressions + Evaluate on an exact-size buffer
            long ok = 0, exact = 0, n16 = 0, kind = 0;
            {
                vf::Exact<char> buf(ex.begin(), ex.end());
                using Core = TemplateCore<char, Value<char>, StringStream<char>>;
                auto        exprs = Core::ParseExpressions((const char *)buf.data(), (SizeT)buf.n);
                QExpression result;
                Core        core((const char *)buf.data(), (SizeT)buf.n);
                if (core.Evaluate(result, exprs, vars)) {
                    ok = 1;
                    double d = 0;
                    switch (result.Type) {
                        case QExpression::ExpressionType::NaturalNumber: d = (double)result.Value.Number.Natural; kind = 2; break;
                        case QExpression::ExpressionType::IntegerNumber: d = (double)result.Value.Number.Integer; kind = 3; break;
                        case QExpression::ExpressionType::RealNumber: d = result.Value.Number.Real; kind = 1; break;
                        default: ok = 0;
                    }
                    double s = d * 16.0;
                    if (ok && s == (double)(long long)s && s > -1e15 && s < 1e15) { exact = 1; n16 = (long)s; }
                }
            }
            // (2) the three tag forms
            auto wrap = [&](const char *pre, const char *post) {
                std::vector<long> t(pre, pre + strlen(pre));
                t.insert(t.end(), ex.begin(), ex.end());
                t.insert(t.end(), post, post + strlen(post));
                bool pok;
                return render<char>(t, vars, pok);
            };
            std::string jm, ji, jb, je;
            vf::json_ints(jm, wrap("{math:", "}"));
            vf::json_ints(ji, wrap("{if case=\"", "\" true=\"T\" false=\"F\"}"));
            vf::json_ints(jb, wrap("<if case=\"", "\">T<else />F</if>"));
            vf::json_ints(je, ex);
            fprintf(out, "{\"text\":%s,\"tokens\":%s,\"ok\":%ld,\"exact\":%ld,\"n\":%ld,\"kind\":%ld,\"math\":%s,\"iif\":%s,\"blk\":%s}\n", je.c_str(), cols[1].c_str(), ok, exact,
                    exact ? n16 : 0, kind, jm.c_str(), ji.c_str(), jb.c_str());
        }
    } else if (mode == "render") {
        while (vf::read_line(in, line)) {
            long idx = n++;
            if (idx < from) continue;
            auto cols = vf::split(line, '\t');
            if (cols.size() < 3) continue;
            std::vector<long> t = vf::parse_ints(cols[0].c_str()), vj = vf::parse_ints(cols[1].c_str());
            vf::begin_case(idx, 30);
            {
                std::string d = "template=";
                for (long u : t) d.push_back((u >= 32 && u < 127) ? (char)u : '?');
                snprintf(vf::g_desc, sizeof(vf::g_desc), "%s", d.substr(0, 900).c_str());
            }
            bool              p8 = true, p16 = true, p32 = true;
            Value<char>       v8  = parse_value<char>(vj);
            std::vector<long> o8  = render<char>(t, v8, p8);
            // the value must be untouched by rendering
            std::string before, after;
            {
                StringStream<char> s1;
                v8.Stringify(s1);
                std::vector<long> o8b = render<char>(t, v8, p8);   // second render: identical (C17)
                StringStream<char> s2;
                v8.Stringify(s2);
                before.assign(s1.First(), s1.Length());
                after.assign(s2.First(), s2.Length());
                if (o8b != o8) p8 = false;
            }
            // the 16-bit rendering reads every string of the value THROUGH A POINTER-TO-VALUE entry (the strings live in a side pool): a pointer
            // reads as its target, so the output must be the same (compared with the 8-bit rendering below for ASCII inputs: wsame)
            std::deque<Value<char16_t>> pool16;
            Value<char16_t>   v16 = parse_value<char16_t>(vj);
            ptrify(v16, pool16);
            std::vector<long> o16 = render<char16_t>(t, v16, p16);
            // the 32-bit rendering reads every nested array / object (and every string) through a pointer-to-value entry
            std::deque<Value<char32_t>> pool32;
            Value<char32_t>   v32 = parse_value<char32_t>(vj);
            ptrify(v32, pool32, true);
            std::vector<long> o32 = render<char32_t>(t, v32, p32);
            {
                bool              pw = true;
                Value<wchar_t>    vw = parse_value<wchar_t>(vj);
                std::vector<long> ow = render<wchar_t>(t, vw, pw);
                if (!pw || ow != o32) p32 = false;   // wchar_t is a 32-bit unit here: same units as char32_t
            }
            std::string jt, jo;
            vf::json_ints(jt, t);
            vf::json_ints(jo, o8);
            bool ascii = true;
            for (long u : t) ascii = ascii && u < 128;
            for (long u : vj) ascii = ascii && u < 128;
            // for ASCII-only inputs the three widths must print the same units
            int wsame = (!ascii) || (o16 == o8 && o32 == o8);
            fprintf(out, "{\"t\":%s,\"out\":%s,\"prefix\":%d,\"wsame\":%d,\"vsame\":%d,\"meta\":%s}\n", jt.c_str(), jo.c_str(), (p8 && p16 && p32) ? 1 : 0, wsame ? 1 : 0,
                    before == after ? 1 : 0, cols[2].c_str());
        }
    } else if (mode == "cache") {
        // C16: tag-cache lifetimes - parse, copy, move, assign, clear, reuse with another template, destroy in every order
        std::vector<long> prev, prev_vj;   // the previous case's template is only ever rendered with ITS value (a loop over the root with another value can be members^depth work)
        while (vf::read_line(in, line)) {
            long idx = n++;
            if (idx < from) continue;
            auto cols = vf::split(line, '\t');
            if (cols.size() < 3) continue;
            std::vector<long> t = vf::parse_ints(cols[0].c_str()), vj = vf::parse_ints(cols[1].c_str());
            vf::begin_case(idx, 30);
            {
                std::string d = "template=";
                for (long u : t) d.push_back((u >= 32 && u < 127) ? (char)u : '?');
                snprintf(vf::g_desc, sizeof(vf::g_desc), "%s", d.substr(0, 900).c_str());
            }
            int same = 1;
            {
                using Core = TemplateCore<char, Value<char>, StringStream<char>>;
                vf::Exact<char>     buf(t.begin(), t.end()), pbuf(prev.begin(), prev.end());
                Value<char>         v = parse_value<char>(vj), pv = parse_value<char>(prev_vj);
                Array<Tags::TagBit> cache;
                Core::Parse((const char *)buf.data(), (SizeT)buf.n, cache);
                Core               core((const char *)buf.data(), (SizeT)buf.n), pcore((const char *)pbuf.data(), (SizeT)pbuf.n);
                StringStream<char> fresh;
                core.Render(cache, v, fresh);
                auto same_as_fresh = [&](const Array<Tags::TagBit> &c) {
                    StringStream<char> ss;
                    core.Render(c, v, ss);
                    return ss == fresh;
                };
                Array<Tags::TagBit> copy(cache);                       // deep copy
                same &= same_as_fresh(copy);
                Array<Tags::TagBit> moved(Memory::Move(copy));         // move construction; `copy` is empty now
                same &= same_as_fresh(moved) && copy.IsEmpty();
                Array<Tags::TagBit> assigned;
                Core::Parse((const char *)pbuf.data(), (SizeT)pbuf.n, assigned);   // holds the previous template's tags ...
                assigned = cache;                                      // ... overwritten by copy assignment
                same &= same_as_fresh(assigned);
                assigned = Memory::Move(moved);                        // ... and by move assignment
                same &= same_as_fresh(assigned);
                assigned = assigned;                                   // self assignment
                same &= same_as_fresh(assigned);
                cache.Clear();                                         // clear and reuse for another template
                Core::Parse((const char *)pbuf.data(), (SizeT)pbuf.n, cache);
                StringStream<char> a, b;
                pcore.Render(cache, pv, a);
                Template::Render((const char *)pbuf.data(), (SizeT)pbuf.n, pv, b);
                same &= (a == b);
                cache += assigned;                                     // append a copy of one cache to another, then drop part of it
                cache.Drop(cache.Size() / 2);
                Array<Tags::TagBit> half(cache);
                half.Reset();
            }
            std::string jt;
            vf::json_ints(jt, t);
            fprintf(out, "{\"t\":%s,\"same\":%d}\n", jt.c_str(), same);
            prev    = t;
            prev_vj = vj;
        }
    } else if (mode == "parse") {
#ifdef QENTEM_VERIF
        while (vf::read_line(in, line)) {
            long idx = n++;
            if (idx < from) continue;
            auto cols = vf::split(line, '\t');
            if (cols.size() < 3) continue;
            std::vector<long> t = vf::parse_ints(cols[0].c_str()), vj = vf::parse_ints(cols[1].c_str());
            vf::begin_case(idx, 30);
            {
                std::string d = "template=";
                for (long u : t) d.push_back((u >= 32 && u < 127) ? (char)u : '?');
                snprintf(vf::g_desc, sizeof(vf::g_desc), "%s", d.substr(0, 900).c_str());
            }
            Value<char> v8 = parse_value<char>(vj);
            bool        p8 = true;
            vfp::g_case = idx;
            vfp::g_len  = (long)t.size();
            vfp::g_step = 0;
            vfp::g_on   = true;
            std::vector<long> o8 = render<char>(t, v8, p8);
            vfp::g_on = false;
            fflush(out);
        }
#else
        return 2;
#endif
    } else return 2;
    fclose(out);
    vf::g_trace = nullptr;
    printf("CASES %ld\n", n);
    vf::end_cases();
    return 0;
}
