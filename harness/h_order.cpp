// Conformance harness for C15 (comparisons and Sort).
//   pairs  <maxlen> <out.ndjson>      all pairs of strings over a 3-symbol alphabet, 3 widths, String/StringView/literal
//   values <universe-file> <out>      all pairs of a value universe (file written by checks/C15.py)
//   sorts  <seed> <nrandom> <out>     all arrays <= 5 over 4 strings + random arrays via Array/HArray/Value Sort
#include "common.hpp"
#include "Value.hpp"
#include "StringView.hpp"

using namespace Qentem;

template <typename Ch>
struct Units;
template <>
struct Units<char> {
    static constexpr unsigned v[4] = {0, 0x01, 0x61, 0x7F};
    static const char *name() { return "char"; }
};
template <>
struct Units<char16_t> {
    static constexpr unsigned v[4] = {0, 0x0001, 0x0080, 0xFFFF};
    static const char *name() { return "char16_t"; }
};
template <>
struct Units<char32_t> {
    static constexpr unsigned v[4] = {0, 0x00000001, 0x0000D800, 0x0010FFFF};
    static const char *name() { return "char32_t"; }
};
constexpr unsigned Units<char>::v[4];
constexpr unsigned Units<char16_t>::v[4];
constexpr unsigned Units<char32_t>::v[4];

static void all_strings(int maxlen, std::vector<std::vector<int>> &out) {
    out.clear();
    out.push_back({});
    size_t start = 0;
    for (int len = 1; len <= maxlen; ++len) {
        size_t end = out.size();
        for (size_t i = start; i < end; ++i)
            for (int s = 1; s <= 3; ++s) {
                auto v = out[i];
                v.push_back(s);
                out.push_back(v);
            }
        start = end;
    }
}

static void emit6(FILE *f, bool lt, bool le, bool gt, bool ge, bool eq, bool ne) {
    fprintf(f, "[%d,%d,%d,%d,%d,%d]", lt, le, gt, ge, eq, ne);
}

template <typename Ch>
static long pairs_for(int maxlen, FILE *f) {
    std::vector<std::vector<int>> strs;
    all_strings(maxlen, strs);
    std::vector<std::basic_string<Ch>> conc;
    for (auto &s : strs) {
        std::basic_string<Ch> c;
        for (int x : s) c.push_back((Ch)Units<Ch>::v[x]);
        conc.push_back(c);
    }
    long n = 0;
    for (size_t i = 0; i < strs.size(); ++i) {
        for (size_t j = 0; j < strs.size(); ++j) {
            vf::begin_case(n);
            std::string ja, jb;
            vf::json_ints(ja, strs[i]);
            vf::json_ints(jb, strs[j]);
            vf::Exact<Ch> ea(conc[i].begin(), conc[i].end()), eb(conc[j].begin(), conc[j].end());
            {
                String<Ch> a((const Ch *)ea.data(), (SizeT)ea.n), b((const Ch *)eb.data(), (SizeT)eb.n);
                fprintf(f, "{\"k\":\"str\",\"t\":\"String<%s>\",\"a\":%s,\"b\":%s,\"r\":", Units<Ch>::name(), ja.c_str(), jb.c_str());
                emit6(f, a < b, a <= b, a > b, a >= b, a == b, a != b);
                fputs("}\n", f);
                ++n;
                // literal on the right (NUL terminated by construction of String)
                if (b.First() != nullptr || true) {
                    const Ch  zero[1] = {0};
                    const Ch *lit     = (b.First() != nullptr) ? b.First() : zero;
                    if (a.Length() != 0 || true) {
                        fprintf(f, "{\"k\":\"str\",\"t\":\"String<%s>-literal\",\"a\":%s,\"b\":%s,\"r\":", Units<Ch>::name(), ja.c_str(),
                                jb.c_str());
                        emit6(f, a < lit, a <= lit, a > lit, a >= lit, a == lit, a != lit);
                        fputs("}\n", f);
                        ++n;
                    }
                }
                bool ie = a.IsEqual(b.First(), b.Length());
                if (ie != (conc[i] == conc[j])) printf("MISMATCH IsEqual %s %s %s\n", Units<Ch>::name(), ja.c_str(), jb.c_str());
            }
            {
                StringView<Ch> a((const Ch *)ea.data(), (SizeT)ea.n), b((const Ch *)eb.data(), (SizeT)eb.n);
                fprintf(f, "{\"k\":\"str\",\"t\":\"StringView<%s>\",\"a\":%s,\"b\":%s,\"r\":", Units<Ch>::name(), ja.c_str(), jb.c_str());
                emit6(f, a < b, a <= b, a > b, a >= b, a == b, a != b);
                fputs("}\n", f);
                ++n;
            }
            // two views into ONE buffer that start at the same unit (a view is a pointer and a length): a is a prefix of b
            if (conc[i].size() <= conc[j].size() && conc[j].compare(0, conc[i].size(), conc[i]) == 0) {
                StringView<Ch> a((const Ch *)eb.data(), (SizeT)ea.n), b((const Ch *)eb.data(), (SizeT)eb.n);
                fprintf(f, "{\"k\":\"str\",\"t\":\"StringView<%s>-shared\",\"a\":%s,\"b\":%s,\"r\":", Units<Ch>::name(), ja.c_str(), jb.c_str());
                emit6(f, a < b, a <= b, a > b, a >= b, a == b, a != b);
                fputs("}\n", f);
                ++n;
                fprintf(f, "{\"k\":\"str\",\"t\":\"StringView<%s>-shared\",\"a\":%s,\"b\":%s,\"r\":", Units<Ch>::name(), jb.c_str(), ja.c_str());
                emit6(f, b < a, b <= a, b > a, b >= a, b == a, b != a);
                fputs("}\n", f);
                ++n;
            }
        }
    }
    return n;
}

// ---------------- values ---------------------------------------------------
using V = Value<char>;
struct UItem {
    std::string kind;   // undef obj arr str u64 i64 real true false null ptr
    long        m{0};   // magnitude rank (numbers), size (containers)
    std::string text;   // numbers: exact literal; strings: bytes as hex
    long        target{-1};
};
static std::vector<UItem> g_u;
static std::vector<V *>   g_v;

static std::vector<int> hex_units(const std::string &h) {
    std::vector<int> u;
    for (size_t i = 0; i + 1 < h.size(); i += 2) u.push_back((int)strtol(h.substr(i, 2).c_str(), nullptr, 16));
    return u;
}
static void build_universe(const char *path) {
    FILE       *f = fopen(path, "r");
    std::string line;
    while (vf::read_line(f, line)) {
        auto  p = vf::split(line, ' ');
        UItem it;
        it.kind = p[0];
        it.m    = atol(p[1].c_str());
        it.text = p.size() > 2 ? p[2] : "";
        g_u.push_back(it);
    }
    fclose(f);
    for (auto &it : g_u) {
        V *v = new V();
        if (it.kind == "obj") {
            for (long i = 0; i < it.m; ++i) {
                std::string k = "k" + std::to_string(i);
                (*v)[k.c_str()] = (SizeT64)i;
            }
            if (it.m == 0) *v = V::ObjectT();
        } else if (it.kind == "arr") {
            *v = V::ArrayT();
            for (long i = 0; i < it.m; ++i) *v += (SizeT64)(i + 10);
        } else if (it.kind == "str") {
            auto        u = hex_units(it.text);
            std::string s(u.begin(), u.end());
            *v = String<char>((const char *)s.data(), (SizeT)s.size());
        } else if (it.kind == "u64") {
            *v = (SizeT64)strtoull(it.text.c_str(), nullptr, 10);
        } else if (it.kind == "i64") {
            *v = (SizeT64I)strtoll(it.text.c_str(), nullptr, 10);
        } else if (it.kind == "real") {
            *v = strtod(it.text.c_str(), nullptr);
        } else if (it.kind == "true") {
            *v = true;
        } else if (it.kind == "false") {
            *v = false;
        } else if (it.kind == "null") {
            *v = nullptr;
        } else if (it.kind == "ptr") {
            v->SetPointerToValue(g_v[(size_t)it.m]);
        }
        g_v.push_back(v);
    }
}
static void six(const V &a, const V &b, int *r) {
    r[0] = a < b;
    r[1] = a <= b;
    r[2] = a > b;
    r[3] = a >= b;
    r[4] = a == b;
    r[5] = !(a == b);  // Value has no operator!=; != is by definition the negation
}
static long do_values(FILE *f) {
    long   n = 0;
    size_t N = g_v.size();
    std::vector<std::vector<int>> lt(N, std::vector<int>(N)), eq(N, std::vector<int>(N));
    for (size_t i = 0; i < N; ++i)
        for (size_t j = 0; j < N; ++j) {
            vf::begin_case(n++);
            int rab[6], rba[6];
            six(*g_v[i], *g_v[j], rab);
            six(*g_v[j], *g_v[i], rba);
            lt[i][j] = rab[0];
            eq[i][j] = rab[4];
            // a pointer compares as its target: report the kind of the target
            size_t      ti = i, tj = j;
            while (g_u[ti].kind == "ptr") ti = (size_t)g_u[ti].m;
            while (g_u[tj].kind == "ptr") tj = (size_t)g_u[tj].m;
            std::string sa, sb;
            vf::json_ints(sa, hex_units(g_u[ti].kind == "str" ? g_u[ti].text : ""));
            vf::json_ints(sb, hex_units(g_u[tj].kind == "str" ? g_u[tj].text : ""));
            fprintf(f, "{\"k\":\"val\",\"i\":%zu,\"j\":%zu,\"ka\":\"%s\",\"kb\":\"%s\",\"ma\":%ld,\"mb\":%ld,\"sa\":%s,\"sb\":%s,\"pa\":%d,\"pb\":%d,",
                    i, j, g_u[ti].kind.c_str(), g_u[tj].kind.c_str(), g_u[ti].m, g_u[tj].m, sa.c_str(), sb.c_str(),
                    g_u[i].kind == "ptr", g_u[j].kind == "ptr");
            fprintf(f, "\"rab\":[%d,%d,%d,%d,%d,%d],\"rba\":[%d,%d,%d,%d,%d,%d]}\n", rab[0], rab[1], rab[2], rab[3], rab[4], rab[5],
                    rba[0], rba[1], rba[2], rba[3], rba[4], rba[5]);
        }
    fputs("{\"k\":\"table\",\"lt\":[", f);
    for (size_t i = 0; i < N; ++i) {
        std::string s;
        vf::json_ints(s, lt[i]);
        fprintf(f, "%s%s", i ? "," : "", s.c_str());
    }
    fputs("],\"eq\":[", f);
    for (size_t i = 0; i < N; ++i) {
        std::string s;
        vf::json_ints(s, eq[i]);
        fprintf(f, "%s%s", i ? "," : "", s.c_str());
    }
    fputs("]}\n", f);
    return n + 1;
}

// ---------------- sorts ------------------------------------------------------
static const char *POOL[6] = {"", "a", "ab", "b", "ba", "abc"};  // includes the empty string and proper prefixes
static void        emit_strs(FILE *f, const std::vector<std::string> &v) {
    fputc('[', f);
    for (size_t i = 0; i < v.size(); ++i) {
        std::string s;
        std::vector<int> u(v[i].begin(), v[i].end());
        vf::json_ints(s, u);
        fprintf(f, "%s%s", i ? "," : "", s.c_str());
    }
    fputc(']', f);
}
static void sort_event_strs(FILE *f, const char *via, const std::vector<std::string> &in, const std::vector<std::string> &out, bool asc) {
    fprintf(f, "{\"k\":\"sort\",\"via\":\"%s\",\"el\":\"str\",\"asc\":%d,\"in\":", via, asc);
    emit_strs(f, in);
    fputs(",\"out\":", f);
    emit_strs(f, out);
    fputs("}\n", f);
}
static void sort_event_nums(FILE *f, const char *via, const std::vector<long> &in, const std::vector<long> &out, bool asc) {
    std::string a, b;
    vf::json_ints(a, in);
    vf::json_ints(b, out);
    fprintf(f, "{\"k\":\"sort\",\"via\":\"%s\",\"el\":\"num\",\"asc\":%d,\"in\":%s,\"out\":%s}\n", via, asc, a.c_str(), b.c_str());
}
static long g_lookup_fail = 0;
static long sort_case(FILE *f, const std::vector<int> &idx, bool asc, int numkind) {
    long                     n = 0;
    std::vector<std::string> in;
    for (int i : idx) in.push_back(POOL[i]);
    {  // Array<String>
        Array<String<char>> a;
        for (auto &s : in) a += String<char>((const char *)s.data(), (SizeT)s.size());
        a.Sort(asc);
        std::vector<std::string> out;
        for (SizeT i = 0; i < a.Size(); ++i) out.emplace_back(a.First()[i].First(), a.First()[i].Length());
        sort_event_strs(f, "Array<String>", in, out, asc);
        ++n;
    }
    {  // Value array of strings
        V v;
        v = V::ArrayT();
        for (auto &s : in) v += String<char>((const char *)s.data(), (SizeT)s.size());
        v.Sort(asc);
        std::vector<std::string> out;
        for (SizeT i = 0; i < v.Size(); ++i) {
            const V *e = v.GetValue(i);
            const char *p; SizeT l;
            if (e != nullptr && e->SetCharAndLength(p, l)) out.emplace_back(p, l);
            else out.emplace_back("?");
        }
        sort_event_strs(f, "Value-array", in, out, asc);
        ++n;
    }
    {  // numbers of one kind
        std::vector<long> nin, nout;
        for (int i : idx) nin.push_back((long)i * 3 - 7);
        V v;
        v = V::ArrayT();
        for (long x : nin) {
            if (numkind == 0) v += (SizeT64)(x + 7);
            else if (numkind == 1) v += (SizeT64I)x;
            else v += (double)x / 2.0;
        }
        v.Sort(asc);
        for (SizeT i = 0; i < v.Size(); ++i) {
            const V *e = v.GetValue(i);
            if (numkind == 0) nout.push_back((long)e->GetUInt64() - 7);
            else if (numkind == 1) nout.push_back((long)e->GetInt64());
            else nout.push_back((long)(e->GetDouble() * 2.0));
        }
        sort_event_nums(f, numkind == 0 ? "Value-u64" : (numkind == 1 ? "Value-i64" : "Value-real"), nin, nout, asc);
        ++n;
        Array<long> ar;
        for (long x : nin) ar += x;
        ar.Sort(asc);
        nout.clear();
        for (SizeT i = 0; i < ar.Size(); ++i) nout.push_back(ar.First()[i]);
        sort_event_nums(f, "Array<long>", nin, nout, asc);
        ++n;
    }
    {  // object keys (distinct keys only): HArray::Sort through Value::Sort, lookups afterwards; one member removed
        std::vector<std::string> keys;
        for (auto &s : in)
            if (std::find(keys.begin(), keys.end(), s) == keys.end()) keys.push_back(s);
        for (int with_removed = 0; with_removed < 2; ++with_removed) {
            V v;
            v = V::ObjectT();
            long val = 1;
            for (auto &k : keys) v.Get(k.data(), (SizeT)k.size()) = (SizeT64)(val++);
            std::vector<std::string> live = keys;
            if (with_removed) {
                if (keys.size() < 2) continue;
                v.Remove(keys[1].data(), (SizeT)keys[1].size());
                live.erase(live.begin() + 1);
            }
            v.Sort(asc);
            std::vector<std::string> out;
            for (SizeT i = 0; i < v.Size(); ++i) {
                const String<char> *k = v.GetKey(i);
                if (k != nullptr) out.emplace_back(k->First(), k->Length());
            }
            sort_event_strs(f, with_removed ? "Value-object-removed" : "Value-object", live, out, asc);
            ++n;
            val = 1;
            for (auto &k : keys) {  // lookups still correct
                const V *e = v.GetValue(k.data(), (SizeT)k.size());
                bool     expect_live = std::find(live.begin(), live.end(), k) != live.end();
                if ((e != nullptr) != expect_live || (e != nullptr && e->GetUInt64() != (SizeT64)val)) {
                    ++g_lookup_fail;
                    printf("MISMATCH lookup-after-sort key=%s\n", k.c_str());
                }
                ++val;
            }
        }
    }
    return n;
}

int main(int argc, char **argv) {
    vf::install_handlers();
    if (argc < 2) return 2;
    std::string mode = argv[1];
    if (mode == "pairs" && argc >= 4) {
        FILE *f = fopen(argv[3], "w");
        vf::g_trace = f;
        int  ml = atoi(argv[2]);
        long n  = pairs_for<char>(ml, f) + pairs_for<char16_t>(ml, f) + pairs_for<char32_t>(ml, f);
        fclose(f);
        vf::g_trace = nullptr;
        printf("EVENTS %ld\n", n);
    } else if (mode == "values" && argc >= 4) {
        build_universe(argv[2]);
        FILE *f = fopen(argv[3], "w");
        vf::g_trace = f;
        long n = do_values(f);
        for (size_t i = g_v.size(); i-- > 0;) delete g_v[i];
        fclose(f);
        vf::g_trace = nullptr;
        printf("EVENTS %ld\n", n);
    } else if (mode == "sorts" && argc >= 5) {
        uint64_t seed = strtoull(argv[2], nullptr, 10);
        long     nr   = atol(argv[3]);
        FILE    *f    = fopen(argv[4], "w");
        vf::g_trace   = f;
        long n = 0, cases = 0;
        // all arrays of length <= 5 over the first 4 pool strings ("" "a" "ab" "b")
        for (int len = 0; len <= 5; ++len) {
            long total = 1;
            for (int i = 0; i < len; ++i) total *= 4;
            for (long code = 0; code < total; ++code) {
                std::vector<int> idx;
                long             c = code;
                for (int i = 0; i < len; ++i) {
                    idx.push_back((int)(c % 4));
                    c /= 4;
                }
                vf::begin_case(cases++);
                n += sort_case(f, idx, true, (int)(code % 3));
                n += sort_case(f, idx, false, (int)((code + 1) % 3));
            }
        }
        vf::Rng rng(seed);
        for (long r = 0; r < nr; ++r) {
            std::vector<int> idx;
            int              len = (int)rng.below(24);
            for (int i = 0; i < len; ++i) idx.push_back((int)rng.below(6));
            vf::begin_case(cases++);
            n += sort_case(f, idx, rng.below(2) != 0, (int)rng.below(3));
        }
        fclose(f);
        vf::g_trace = nullptr;
        printf("EVENTS %ld\nCASES %ld\nLOOKUPFAIL %ld\n", n, cases, g_lookup_fail);
    } else {
        return 2;
    }
    vf::end_cases();
    return 0;
}
