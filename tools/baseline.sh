#!/bin/bash
# Runs the repository's own test suite (guard OFF) on a scratch copy of /repo's
# working tree, outside /repo and /verif; removes the scratch directory afterwards.
# usage: baseline.sh [repo_dir]
set -u
REPO=${1:-/repo}
S=$(mktemp -d /tmp/qbase.XXXXXX)
trap 'rm -rf "$S"' EXIT
mkdir -p "$S/src"
rsync -a --exclude _build --exclude .git "$REPO/" "$S/src/"
cmake -G Ninja -S "$S/src" -B "$S/b" >"$S/cmake.log" 2>&1 || { cat "$S/cmake.log"; exit 2; }
cmake --build "$S/b" -j16 >"$S/build.log" 2>&1 || { tail -50 "$S/build.log"; echo "BASELINE BUILD FAILED"; exit 2; }
ctest --test-dir "$S/b" -j8 --timeout 900 2>&1 | tail -25
exit ${PIPESTATUS[0]}
