#!/usr/bin/env python3
"""Evaluate a seeded change produced by a sub-agent and file it under /verif/seeded/<id>/.
  seed_eval.py <src_dir with patch.diff demo.cpp notes.txt> <seed id e.g. C13-1> <property> <check> [<check>...] [--cxxflags "..."]
Steps: (1) demo on the unchanged tree must exit 0; (2) apply patch to /repo, suite must pass; (3) demo must fail;
(4) run the checks (quick) and record which report a violation; (5) restore /repo.  Writes meta.json."""
import sys, os, subprocess, json, shutil, tempfile
args = sys.argv[1:]
cxxflags = "-std=c++17 -march=native -DQENTEM_SSE2=1"
if "--cxxflags" in args:
    i = args.index("--cxxflags"); cxxflags = args[i + 1]; del args[i:i + 2]
src, sid, prop, checks = args[0], args[1], args[2], args[3:]
dst = "/verif/seeded/" + sid
os.makedirs(dst, exist_ok=True)
for f in ("patch.diff", "demo.cpp", "notes.txt"):
    if os.path.exists(os.path.join(src, f)) and os.path.abspath(src) != os.path.abspath(dst):
        shutil.copy(os.path.join(src, f), dst)
REPO = "/repo"
def sh(cmd, **kw):
    return subprocess.run(cmd, shell=True, capture_output=True, text=True, **kw)
assert sh("git -C /repo status --porcelain --untracked-files=no").stdout.strip() == "", "repo dirty"
tmp = tempfile.mkdtemp(prefix="/tmp/seedeval.")
def demo():
    r = sh("g++ %s -w -I/repo/Include %s/demo.cpp -o %s/demo" % (cxxflags, dst, tmp))
    if r.returncode: return "compile-failed: " + r.stderr[-300:]
    r = sh("timeout 120 %s/demo" % tmp)
    return r.returncode
meta = {"seed": sid, "property": prop, "cxxflags": cxxflags}
meta["demo_unpatched_rc"] = demo()
r = sh("git -C /repo apply %s/patch.diff" % dst)
meta["patch_applies"] = (r.returncode == 0)
try:
    if r.returncode == 0:
        b = sh("/verif/tools/baseline.sh")
        meta["suite_passes_with_patch"] = (b.returncode == 0)
        meta["demo_patched_rc"] = demo()
        meta["checks"] = {}
        for c in checks:
            t = sh("python3 /verif/checks/%s.py --tier quick" % c)
            v = [l for l in t.stdout.splitlines() if l.startswith("VIOLATION")]
            w = [l.strip() for l in t.stdout.splitlines() if l.startswith("  what:")]
            meta["checks"][c] = {"rc": t.returncode, "violations": len(v), "first": w[:3]}
finally:
    sh("git -C /repo checkout -- .")
    shutil.rmtree(tmp, ignore_errors=True)
meta["valid_seed"] = bool(meta.get("patch_applies") and meta.get("suite_passes_with_patch") and meta.get("demo_unpatched_rc") == 0 and meta.get("demo_patched_rc") not in (0, None))
meta["detected_by"] = [c for c, x in meta.get("checks", {}).items() if x["rc"] == 1]
json.dump(meta, open(dst + "/meta.json", "w"), indent=1)
print(json.dumps(meta, indent=1))
