#!/usr/bin/env python3
"""Evaluate a seeded change produced by a sub-agent and file it under /verif/seeded/<id>/.
  seed_eval.py <src_dir with patch.diff demo.cpp notes.txt> <seed id e.g. C13-1> <property> <check> [<check>...] [--cxxflags "..."] [--tier quick]
Works on a scratch COPY of /repo's working tree (outside /repo and /verif; removed afterwards), so it can run next to other
checks and several evaluations can run at once:
  (1) the demo on the unchanged copy must exit 0; (2) the patch must apply and the unedited test-suite must pass with it;
  (3) the demo must then fail; (4) the named checks run against the patched copy (QENTEM_REPO / QENTEM_BUILD / QENTEM_OUT /
  QENTEM_EVIDENCE point into the scratch directory) and the ones that exit 1 with a VIOLATION line are recorded.
Writes meta.json."""
import sys, os, subprocess, json, shutil, tempfile
args = sys.argv[1:]
cxxflags = "-std=c++17 -march=native -DQENTEM_SSE2=1"
tier = "quick"
if "--cxxflags" in args:
    i = args.index("--cxxflags"); cxxflags = args[i + 1]; del args[i:i + 2]
if "--tier" in args:
    i = args.index("--tier"); tier = args[i + 1]; del args[i:i + 2]
src, sid, prop, checks = args[0], args[1], args[2], args[3:]
dst = "/verif/seeded/" + sid
os.makedirs(dst, exist_ok=True)
for f in ("patch.diff", "demo.cpp", "notes.txt"):
    if os.path.exists(os.path.join(src, f)) and os.path.abspath(src) != os.path.abspath(dst):
        shutil.copy(os.path.join(src, f), dst)


def sh(cmd, **kw):
    return subprocess.run(cmd, shell=True, capture_output=True, text=True, **kw)


tmp = tempfile.mkdtemp(prefix="/tmp/seedeval.")
repo = os.path.join(tmp, "repo")
try:
    os.makedirs(repo)
    r = sh("rsync -a --exclude _build --exclude .git /repo/ %s/" % repo)
    assert r.returncode == 0, r.stderr

    def demo():
        r = sh("g++ %s -w -I%s/Include %s/demo.cpp -o %s/demo" % (cxxflags, repo, dst, tmp))
        if r.returncode:
            return "compile-failed: " + r.stderr[-300:]
        r = sh("timeout 180 %s/demo" % tmp)
        return r.returncode
    meta = {"seed": sid, "property": prop, "cxxflags": cxxflags, "tier": tier, "repo_head": sh("git -C /repo rev-parse --short HEAD").stdout.strip()}
    meta["demo_unpatched_rc"] = demo()
    r = sh("patch -p1 -s --no-backup-if-mismatch < %s/patch.diff" % dst, cwd=repo)
    meta["patch_applies"] = (r.returncode == 0)
    if r.returncode == 0:
        b = sh("/verif/tools/baseline.sh %s" % repo)
        meta["suite_passes_with_patch"] = (b.returncode == 0)
        meta["demo_patched_rc"] = demo()
        meta["checks"] = {}
        env = dict(os.environ, QENTEM_REPO=repo, QENTEM_BUILD=os.path.join(tmp, "build"), QENTEM_OUT=os.path.join(tmp, "out"), QENTEM_EVIDENCE=os.path.join(tmp, "evidence"))
        for c in checks:
            t = subprocess.run("timeout 7200 python3 /verif/checks/%s.py --tier %s" % (c, tier), shell=True, capture_output=True, text=True, env=env)
            v = [l for l in t.stdout.splitlines() if l.startswith("VIOLATION")]
            w = [l.strip().replace(tmp, "<scratch>") for l in t.stdout.splitlines() if l.startswith("  what:")]
            meta["checks"][c] = {"rc": t.returncode, "violations": len(v), "first": w[:3]}
            if t.returncode not in (0, 1):
                meta["checks"][c]["tail"] = t.stdout[-600:]
finally:
    shutil.rmtree(tmp, ignore_errors=True)
meta["valid_seed"] = bool(meta.get("patch_applies") and meta.get("suite_passes_with_patch") and meta.get("demo_unpatched_rc") == 0 and meta.get("demo_patched_rc") not in (0, None))
meta["detected_by"] = [c for c, x in meta.get("checks", {}).items() if x["rc"] == 1]
json.dump(meta, open(dst + "/meta.json", "w"), indent=1)
print(json.dumps(meta, indent=1))
