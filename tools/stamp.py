#!/usr/bin/env python3
# writes build/headers.sha exactly as lib/vf.py does (content hash of /repo/Include/*.hpp)
import sys, os
sys.path.insert(0, "/verif/lib")
import vf, hashlib
h = hashlib.sha1(vf.REPO.encode())
inc = os.path.join(vf.REPO, "Include")
for fn in sorted(os.listdir(inc)):
    if fn.endswith(".hpp"):
        h.update(fn.encode()); h.update(open(os.path.join(inc, fn), "rb").read())
os.makedirs(vf.BUILD, exist_ok=True)
p = os.path.join(vf.BUILD, "headers.sha")
if not os.path.exists(p) or open(p).read() != h.hexdigest():
    open(p, "w").write(h.hexdigest())
