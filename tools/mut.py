#!/usr/bin/env python3
"""Binding demonstration helper: apply a one-line mutation (or a patch) to /repo, show that the
repository's own suite still passes, run a check, and ALWAYS restore /repo afterwards.
  mut.py --file Include/X.hpp --old 'a' --new 'b' [--nth 1] --check C13 [--no-baseline] [--tier quick]
  mut.py --patch /verif/seeded/x/patch.diff --check C13
"""
import argparse, subprocess, sys, os
ap = argparse.ArgumentParser()
ap.add_argument("--file"); ap.add_argument("--old"); ap.add_argument("--new"); ap.add_argument("--nth", type=int, default=0)
ap.add_argument("--patch"); ap.add_argument("--check", action="append", default=[]); ap.add_argument("--no-baseline", action="store_true")
ap.add_argument("--tier", default="quick")
a = ap.parse_args()
REPO = "/repo"
st = subprocess.run(["git", "-C", REPO, "status", "--porcelain", "--untracked-files=no"], capture_output=True, text=True).stdout.strip()
if st:
    print("refusing: /repo has uncommitted changes:\n" + st); sys.exit(2)
try:
    if a.patch:
        r = subprocess.run(["git", "-C", REPO, "apply", a.patch])
        if r.returncode: sys.exit(2)
    else:
        p = os.path.join(REPO, a.file)
        s = open(p).read()
        n = s.count(a.old)
        if n == 0 or (n > 1 and not a.nth):
            print("old text occurs %d times" % n); sys.exit(2)
        if a.nth:
            idx = -1
            for _ in range(a.nth):
                idx = s.index(a.old, idx + 1)
            s = s[:idx] + a.new + s[idx + len(a.old):]
        else:
            s = s.replace(a.old, a.new)
        open(p, "w").write(s)
    print(subprocess.run(["git", "-C", REPO, "diff", "--stat"], capture_output=True, text=True).stdout)
    if not a.no_baseline:
        r = subprocess.run(["/verif/tools/baseline.sh"], capture_output=True, text=True)
        print("BASELINE rc=%d %s" % (r.returncode, r.stdout.strip().splitlines()[-3:] if r.stdout else ""))
    for c in a.check:
        r = subprocess.run([sys.executable, "/verif/checks/%s.py" % c, "--tier", a.tier], capture_output=True, text=True)
        lines = r.stdout.splitlines()
        v = [l for l in lines if l.startswith("VIOLATION") or l.startswith("  what")]
        print("CHECK %s rc=%d violations=%d" % (c, r.returncode, len(v) // 2))
        for l in v[:8]: print("   " + l[:260])
        if r.returncode == 2: print("\n".join(lines[-15:]))
finally:
    subprocess.run(["git", "-C", REPO, "checkout", "--", "."])
    print("restored /repo")
