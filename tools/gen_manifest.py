#!/usr/bin/env python3
"""Regenerates /verif/MANIFEST.json from the table below (single source of truth)."""
import json, os, subprocess
V = "/verif"
props = [json.loads(l) for l in open(V + "/properties.jsonl")]
CHECKS = {
 "C13": dict(
   text="TLC exhaustively checks the ordered-map property specification QHash (invariants + action properties) and that the "
        "transcription of HashTable.hpp (buckets, chains, tombstones; colliding hash constant) refines it; the complete labelled "
        "state graph of QHash is replayed edge by edge into the real HArray/HList (4 adversarial key universes, every key probed "
        "through the lookup API after every edge) and random histories recorded from the real tables are validated line by line "
        "by the trace specification TraceQHash. Bounded (3 keys, <=4 slots exhaustive; 12 keys sampled), hence model checking.",
   note="merging a table into itself (copy and move) is part of the histories as an operation that leaves the abstract map unchanged; TLC 1.8 + the mapping of abstract keys to real strings (order preserving); out-of-bounds accesses are sensed by ASan/UBSan "
        "in the same replays, not decided by TLC; capacity policy is deliberately nondeterministic in the specification (MaybeCompact).",
   technique="TLA+ spec QHash/QHashImpl checked by TLC; state-graph replay into the C++ tables; TLC trace validation of recorded histories",
   design="6 (C13), appendix E.1/F"),
 "C15": dict(
   text="TLC checks the order axioms (trichotomy, irreflexivity, transitivity, prefix-first, union laws) of the lexicographic-order "
        "specification over all triples of strings <= length 4 over 3 symbols, and that the transcription of Memory::Sort returns an "
        "ordered permutation for every array <= 6 over 4 values. Every comparison operator result of the real String / StringView / "
        "String-vs-literal (3 widths, all ordered pairs), of all ordered pairs of a value universe covering every kind (incl. pointer "
        "values) and every Sort result (all arrays <= 5 over {'',a,ab,b} + random; Array, Value arrays, numbers, object keys with a "
        "removed member) is recorded and evaluated by TLC against the specification (batch oracle).",
   note="exhaustive only within the stated universes; plain char restricted to 0x01..0x7F; numbers compare by value whatever their kinds (u64 / i64 / real, ranks of the "
        "values in the universe); other cross-kind and container comparisons are held to the order axioms only, as the property fixes no direction for them; <loop sort=> is exercised by the template checks.",
   technique="TLA+ order specification + Memory::Sort transcription checked by TLC; TLC batch oracle over recorded comparison and sort events",
   design="6 (C15)"),
 "C20": dict(
   text="The UTF-8/16/32 encoders and the JSON escape forms are an explicit TLA+ specification (QUnicode; its own round-trip and "
        "well-formedness are checked by TLC). For every Unicode scalar value (thorough: all 1,112,064; quick: a boundary-dense subset "
        "of ~8.5k) the output of Unicode::ToUTF for three widths and of JSON::Parse on the upper-hex, lower-hex and embedded escape "
        "(surrogate pairs above U+FFFF) is recorded from the real code (exact-size buffers, ASan) and each event is evaluated by TLC "
        "against the specification. The thorough tier is exhaustive over the property's quantifier. The encoders and the surrogate "
        "combination are also transcribed with the code's bit operations (QUnicodeImpl): TLC checks them against QUnicode at every "
        "boundary and plane, rejects five seeded / plausible variants, and the oracle reports drift of the transcription.",
   note="TLC as batch oracle (one initial state per event); JSON decodings that are unit-for-unit identical to the direct encoding "
        "are logged compressed, the direct encoding itself is always compared by TLC.",
   technique="TLA+ specification of UTF-8/16/32 and escape forms; TLC batch oracle over events recorded from Unicode::ToUTF and JSON::Parse",
   design="6 (C20)"),
 "C03": dict(
   text="HTML-safety is specified in TLA+ (QEscape: Safe, Decode, Escape and the laws Safe(Escape(s)), Decode(Escape(s)) = Decode(s), "
        "idempotence). TLC checks the laws, the equality of a line-by-line transcription of EscapeHTMLSpecialChars (QEscapeImpl) with "
        "Escape, and that every read of the transcription is in bounds, for all strings <= 7 (thorough) / 5 (quick) over a 9-symbol "
        "alphabet containing every prefix and overlap of the five entities and <= 4 over 17 symbols. The real escaper is run on the "
        "same enumerated strings and on random long strings (4 widths, exact-size buffers under ASan, appending to a non-empty stream, "
        "auto-escape on and off) and TLC judges every recorded (input, output, output-of-output) event against the laws.",
   note="bounded enumeration + sampling; out-of-bounds reads in the real code are sensed by ASan; the template printing paths "
        "({var}, loop key, svar phrase, echo, {raw}) are bound by the C02 Render oracle which places Escape on exactly those paths.",
   technique="TLA+ specification of HTML escaping + transcription of the escaper checked by TLC; TLC batch oracle over recorded escaper outputs",
   design="6 (C03)"),
 "C14": dict(
   text="The four containers are specified as plain sequences (QSeq: two objects, every operation of Array / String / StringStream / "
        "StringView; action properties 'appends keep the prefix', 'a step changes only its operands'); TLC explores the specification "
        "exhaustively (items {1,2,3}, length <= 3; thorough <= 4) and every (state, action) edge of the resulting graphs is replayed into "
        "10 real instantiations (Array<int>, Array<String>, String/StringStream for char, char16_t, char32_t, StringView) under "
        "ASan/UBSan in SSE2, scalar and AVX2 builds and with the exact-fit growth hook, with NUL terminator, Length<=Capacity, "
        "First/Last/End and ==/!= checked after each edge. Random histories are validated line by line by TraceQSeq. The SIMD block "
        "loop + scalar tail of Memory::Copy/SetToZero is a TLA+ transcription (QCopyImpl: exact result, no stray write, reads in "
        "bounds, termination under fairness) and the real primitives are run for every length x misalignment in three SIMD builds "
        "with TLC judging every recorded event.",
   note="the histories append an array's own item, assign a string from its own storage and append a string to itself by move (same abstract operations: the model has no addresses); bounded exhaustive + sampled histories; accesses beyond the logical size are sensed by ASan with exact-size blocks and hook H1; "
        "thorough copy grid is 0..96 x 32x32 (the 0..4096 sweep of the statement is not done through TLC).",
   technique="TLA+ sequence specification checked by TLC; state-graph replay into the C++ containers; TLC trace validation; TLC batch oracle for Memory::Copy",
   design="6 (C14)"),
 "C12": dict(
   text="Documents are TLA+ values (QValue: undefined/null/bools/closed-domain numbers/strings/arrays with undefined holes/objects as "
        "ordered maps); writes auto-vivify along a path (=, += value, += array, Merge copy/move, Remove, RemoveIndex, Reset), Compress, "
        "deep copy and move between two roots, non-vivifying reads and the numeric/boolean coercions are explicit operators. TLC "
        "explores the specification exhaustively under a weight bound (invariants: well-formed, no duplicate keys; action properties: "
        "copies independent, moved-from Undefined); every (state, action) edge of that graph is replayed into two real Value<char> "
        "roots under ASan with the overloads rotated, and random histories (3-step paths, all literal kinds, typed getters) recorded "
        "from the real code are validated line by line by TraceQValue. A pointer-to-value must read as its target (document view, typed "
        "getters judged with the specification's coercion rules, size, ==): OraclePtr over generated targets.",
   note="stage 'alias' (OracleAlias): the source of an assignment / append / merge lives inside the target, values constructed over dirty memory, kind changes by tag, a null pointer-to-value; bounded exhaustive (weight <= 3 quick / 4 thorough, depth <= 2) + sampled histories; positional access into objects with "
        "removed entries and key lookups in arrays are not generated (outside the contract); Value<char> only.",
   technique="TLA+ document specification checked by TLC; state-graph replay into Value; TLC trace validation of recorded histories",
   design="6 (C12), appendix E.3"),
 "C18": dict(
   text="GroupBy is an explicit TLA+ operator (QValue.GroupBy: names = distinct textual key values in first-appearance order, items = "
        "the input objects in order minus the key) whose partition property TLC checks on every generated array. Value::GroupBy is "
        "run on every 1- and 2-object array over group value x key position x key-value kind x with/without a removed member and on "
        "random arrays of 1..5 objects; each (input, result, source-unchanged) event is evaluated by TLC against the operator. The walk of "
        "Value::GroupBy over the slot representation is transcribed (QGroupImpl): TLC checks it against the operator for every array of "
        "<= 2 (thorough 3) records over 196 slot layouts, rejects three seeded / earlier variants, and the oracle demands that the engine's "
        "result is the transcription's result on the logged slot layout (model drift otherwise).",
   note="TLC as batch oracle over recorded events; real-valued grouping keys are not generated; <loop group=> is bound by the template checks.",
   technique="TLA+ GroupBy operator + partition invariant; TLC batch oracle over recorded Value::GroupBy events",
   design="6 (C18)"),
 "C19": dict(
   text="The value of a BigInt is a mathematical integer in the property specification QBigInt. QBigIntImpl transcribes BigInt.hpp with "
        "the word width as a constant (limbs, index, carry/borrow loops, multi-word shifts, bit scans, wide-operand overloads, copy "
        "assignment, every limb access recorded) and runs in lock step with the mathematical value: TLC checks exactness, normalised "
        "index, exact returned remainders/bit indices and in-bounds limb access for every reachable state and operand at 3-bit x 3 and "
        "4-bit x 2 words; QDivImpl does the same for the half-word double-word divide/multiply helper for every operand triple at 4/6 "
        "(8 thorough) bit words. Every edge of the QBigInt graph (24 bits, boundary operands, depth 4/5) is replayed into the real "
        "BigInt<SizeT8,24> under ASan/UBSan, and random histories on 9 instantiations (8/16/32/64-bit words, 24..2048 bits) plus the "
        "helper grids are logged as bytes and verified relationally by TLC (q*d+r=v, r<d, shifts, bit scans, Index(), IsZero()).",
   note="exhaustive only at small word widths (transcription) and depth-bounded at 8-bit words (graph); wide instantiations are sampled "
        "with boundary-biased operands; results that do not fit the width are outside the property.",
   technique="TLA+ transcription of BigInt refined against the mathematical integer (TLC exhaustive); state-graph replay; TLC relational batch oracle on byte-level naturals",
   design="6 (C19), appendix A.3"),
 "C05": dict(
   text="The cursor machine of JSON.hpp / UnEscape is transcribed into TLA+ (QJsonImpl) with every content[offset] read recorded; TLC "
        "decides ReadInBounds (and AllOrNothing / Complete / SameValue against the grammar specification) for every text of length <= 6 "
        "(quick, 1.1M texts) / 7 (thorough, 11M) over 10 symbol classes. The same enumerated texts (<= 5 / 6) and random documents with "
        "every proper prefix, 11 one-unit suffixes and every structural bracket swapped / dropped are parsed by the real code from "
        "exact-size unterminated heap buffers in three character widths under ASan+UBSan with a per-case alarm; TLC judges each recorded "
        "result (Undefined or a complete value). Nesting of 512 / 513 / 2000 levels is parsed with the default stack.",
   note="memory errors and termination in the real code are sensed by ASan/UBSan/alarm on spec-generated inputs, decided by TLC only "
        "on the transcription; wchar_t and the SIMD variants are not part of the quick tier.",
   technique="TLA+ transcription of the JSON cursor machine checked by TLC (ReadInBounds); sanitizer runs on enumerated / mutated inputs; TLC batch oracle",
   design="6 (C05), appendix A.1"),
 "C06": dict(
   text="RFC 8259 is an explicit TLA+ recognizer with denotation (QJsonGrammar: whitespace, all escapes incl. surrogate pairs decoded through "
        "QUnicode for the target width, numerals with exact small values, duplicate keys = last value at the first position). TLC checks "
        "Complete / SameValue of the parser transcription for every text <= 6/7 over 10 symbols, and judges every parse result recorded "
        "from the real code on random documents x spellings x UTF-8/16/32 and on the enumerated texts: every document of the grammar is "
        "accepted and yields the denoted value.",
   note="sampled documents (depth <= 3); numbers that are not small exact values are marked approx and left to C09; lone surrogates not generated.",
   technique="TLA+ JSON grammar with denotation; TLC batch oracle over recorded parse results; TLC-checked parser transcription",
   design="6 (C06)"),
 "C07": dict(
   text="The property's quantifier is first made a TLC-checked fact about the grammar specification (no proper prefix of a container "
        "document, no document plus a non-whitespace unit, no document with a structural closing bracket swapped or removed is a "
        "document; every text <= 6/7). AllOrNothing is checked on the parser transcription for the same texts. The real parser is then "
        "run on every enumerated text and, for random documents, on all |D| cuts, suffixes and bracket mutations; TLC judges that anything "
        "accepted is a document of the grammar and contains no Undefined.",
   note="three recorded findings, each with its own event family: hexadecimal numbers and capital \\U (pinned by the repository's tests), '+1' / '.5' / '5.' (number grammar not checked before Digit::StringToNumber); families nulit / ctrl / hisur / hexbad cover the repaired leniencies; bounded enumeration + sampled documents; leniencies outside the listed families (raw control characters in strings, \\U, hex numerals) are not generated.",
   technique="TLC-checked grammar facts + parser transcription (AllOrNothing); TLC batch oracle over cuts / suffixes / bracket mutations of generated documents",
   design="6 (C07)"),
 "C08": dict(
   text="Random trees built through the public Value API (removed members, Undefined slots and members, empty containers, strings and keys "
        "with NUL / controls / quote / backslash / slash / DEL / non-ASCII, 64-bit extremes, reals k/2) are stringified with precision 17 "
        "into a non-empty stream, parsed back and stringified again in three character widths. TLC, with the independent TLA+ grammar as "
        "the reader of the text, judges every event: the text is a document, denotes Norm(tree), the library reads it back to the same "
        "tree, the second stringification is identical, and only the tail of the caller's stream changed. The writers are transcribed "
        "on the representation (QStringifyImpl: dead slots, Undefined elements, pointers also to Undefined, the last-comma patch): TLC checks "
        "every container of <= 3 (thorough 4) entries against the canonical text, rejects three variants, and every exported state is "
        "rebuilt through the public API and must stringify to the model's tokens.",
   note="sampled trees (depth <= 3); number formatting itself belongs to C10/C11; values are compared as JSON numbers (3.0 may come back as 3).",
   technique="TLA+ JSON grammar as independent reader; TLC batch oracle over recorded stringify/parse/stringify events; TLC-checked writer transcription replayed state by state",
   design="6 (C08)"),
 "C09": dict(
   text="The numeral grammar, the exact value D*10^k and the admissible results are an explicit TLA+ specification (QDigitParse on "
        "base-10^4 naturals): consumed length, malformed shapes, exact Natural / Integer when the integer fits, otherwise sign and "
        "|D*10^k - m*2^e| <= 1.5 ulp verified relationally (only small multiplications, subtraction, comparison), infinity / rejection "
        "only beyond the largest finite double. Digit::StringToNumber is run (exact-size buffers, ASan, 3 widths) on every string "
        "<= 5/6 over {+ - 0 1 9 . e} (all paths of the numeral automaton), the 2^53/2^63/2^64 boundaries, exact halfway points between "
        "adjacent doubles in ~200 binades (up to ~1100 digits), the DBL_MAX and subnormal neighbourhoods, 17..800-digit mantissas, random "
        "and terminated numerals, malformed shapes; TLC judges every event.",
   note="sampled + small-alphabet exhaustive; candidate numerals come from Python integers, every judgement is TLC's; '1.', '.5', a dot "
        "after the exponent and hex numerals are under-specified and accepted either way; one known finding (underflow reported as NaN).",
   technique="TLA+ numeral specification with big-natural arithmetic; TLC relational batch oracle over recorded conversions",
   design="6 (C09), appendix A.4"),
 "C10": dict(
   text="The reference text is an explicit TLA+ specification (QDigitFormat): exact decimal expansion of m*2^e on base-10^4 naturals, "
        "%.{p}f / trimmed %.{p}f / %.{p}g with half-even rounding on the exact digits, inf/nan, exact integers. Digit::NumberToString "
        "is run into a non-empty stream for the _Float16 instantiation of the same template (every finite value in the thorough tier, "
        "every 13th in quick, x 3 formats x precisions), for doubles/floats at binade edges, powers of ten +-1 ulp, exact ties, problem "
        "values and random patterns x (format, precision 0..20, 40), and for integers of all widths incl. minimum values; TLC judges "
        "every event and itself classifies mismatches into the three recorded root-cause classes (precision 0; cut rounded in the wrong "
        "direction; lost integer zeros) - anything else is a violation.",
   note="every conversion is repeated into streams without slack at every fill level (the carry digit of a rounding is stored behind the digits); all 2^32 floats / 2^64 doubles are out of reach of TLC (exhaustive only for the 16-bit instantiation); three known-finding "
        "classes are recorded rather than repaired (approximate formatter, DigitTest pins its outputs).",
   technique="TLA+ exact-expansion formatting specification; TLC batch oracle with spec-side defect classification",
   design="6 (C10)"),
 "C11": dict(
   text="Doubles from 8 generators (uniform bit patterns, uniform exponents, subnormals, powers of two/ten +-ulps, range ends, zeros) go "
        "through NumberToString(17) -> StringToNumber on exact-size buffers under ASan; every value is compared bit for bit, and every "
        "k-th event plus every failure is explained by TLC with the two specifications (the text is the reference 17-digit expansion - "
        "QDigitFormat; the parse result is admissible for that text - QDigitParse), so that a failure is attributed to the formatter, "
        "the parser or their combination. Floats: 9 digits over a sweep of bit patterns.",
   note="the bulk comparison (200k / 2M doubles, 1M / 16M floats) is a harness bit comparison; TLC validates the sampled events (800 / 5000).",
   technique="round-trip recorded from the code; TLC explains sampled events with the formatting and parsing specifications",
   design="6 (C11)"),
 "C04": dict(
   text="Expression semantics is an explicit TLA+ specification (QExpr): operands (literals, variables of every kind with the document value "
        "they resolve to, text next to ==/!=, parenthesised sub-expressions), exact dyadic arithmetic with the documented typing rules, "
        "and Admissible(e) = the results of all parse trees consistent with the documented precedence groups (left association inside "
        "* / and + -, every shape inside the groups the documentation leaves open). All 1- and 2-operand expressions over 31 operands x "
        "16 operators, 25k sampled (thorough: all 655k) 3-operand expressions and random 4..6-operand expressions with parentheses are "
        "run through ParseExpressions + Evaluate and through {math:}, {if case=}, <if case=> from exact-size buffers under ASan/UBSan "
        "(a trap is a crash is a violation); TLC judges every event. The precedence walk of TemplateCore::evaluate is transcribed "
        "(QExprImpl): TLC checks every sequence of <= 4 (thorough 5) of the 16 operators against Admissible and rejects two earlier / "
        "seeded variants; the oracle demands that the engine's value is the transcription's value on every event (model drift otherwise). "
        "The expression parser is transcribed at code-unit level (QExprParseImpl): for every text <= 4 (thorough 5) units and every kind of "
        "closing unit TLC checks that accepted lists end in an item without operator and that nothing behind the expression is read, "
        "rejects the parser before 47b169e, and every state is replayed through ParseExpressions under ASan.",
   note="values outside the exact dyadic domain are unjudged; non-integral operands of ^ are specified as 'no value'; one known "
        "finding (sign of negative base ^ negative even exponent, pinned by EvaluateTest) is classified by the oracle itself.",
   technique="TLA+ expression semantics with all documented parse trees; TLC batch oracle over recorded evaluations; sanitizers for traps",
   design="6 (C04), appendix E.5"),
 "C02": dict(
   text="The documented expansion is an explicit TLA+ specification (QTemplate.Render over an AST and a document, written from "
        "Documentation/Template.md; it uses QExpr for math / conditions, QEscape for {var:}, GroupBy / Sort for loops). Random ASTs over "
        "the documented grammar (paths with keys, indices and loop variables at every nesting level, raw, math, super variables with "
        "sub-tags, inline if in both attribute orders / quote kinds, if / else-if / else in all documented spellings, loops with set / "
        "value / group / sort, nesting <= 3) are unparsed to text and rendered by the real engine from exact-size buffers into a non-empty "
        "stream, twice, in three character widths under ASan/UBSan; TLC judges every event: output = Render(ast, doc), value untouched, "
        "only the stream's tail changed, widths agree; a node the specification does not judge stands for any text at its place (wildcard "
        "matching), a canary event must be reported. The binding of a reference to an enclosing loop is a specification of its own "
        "(QLoopVar: the scanner's outward walk = the innermost loop of that name on delimited references; two earlier / seeded scanner "
        "behaviours rejected by TLC) and its whole domain (7,200 loop stacks x references) is rendered by the real engine (OracleLoopVar).",
   note="sampled ASTs (6k quick / 24k thorough); documentation-silent situations are not generated (listed in the evidence assumptions); "
        "expressions outside QExpr's exact domain make an event unjudged.",
   technique="TLA+ reference interpreter of the template language; TLC batch oracle over recorded renders of generated ASTs",
   design="6 (C02), appendix E.4/G"),
 "C01": dict(
   text="The tag scanner TemplateCore::parse is an explicit TLA+ state machine (QTemplateParseImpl: tag tree with destruction and "
        "relocation of containers, container stack, current container, innermost-loop pointer, is_child; one action per case of the "
        "scanner's switch, text-dependent outcomes nondeterministic). TLC decides for every token sequence up to length 6 (thorough 8): "
        "no null tag dereferenced, storage / stack entries live, loop_tag and its Parent chain live, every surviving record closed, "
        "levels only copied from enclosing loops; the scanner's two earlier behaviours are rejected by the same invariants. Through hook "
        "H2 the real scanner reports its complete state before every token and TLC (TraceQTemplateParse) accepts a step only if the "
        "model has that transition (code -> spec, every recorded state also checked against the invariants). The same generated texts "
        "(token-class sequences in several spellings, cuts / deletions / duplications / delimiter swaps of well-formed templates, quotes "
        "and brackets in attributes, nests 300 and 600 deep) are rendered from exact-size unterminated buffers in 4 character widths, in "
        "SSE2 / scalar / AVX2 / auto-escape-off builds under ASan+UBSan with a per-case alarm; tag-free texts must render to themselves (TLC).",
   note="families added after the hunting round: any unit as attribute quote x operator tails (optail), loops at nesting depth 254..512 under an outer loop (level256), reals whose rounding carries out of the top digit at every stream fill level (carry), entity look-alikes at the end of the buffer (echo); the model is exhaustive only up to the token bound; out-of-bounds accesses, traps and hangs of the renderer are sensed "
        "(sanitizers, alarm) on generated inputs, not proved; one recorded finding: recursion depth is proportional to nesting depth.",
   technique="TLA+ state machine of the tag scanner checked by TLC + trace validation of hook-recorded scanner states; sanitizer-sensed rendering of generated malformed texts",
   design="0.2 / 0.4 (as built), 6 (C01)"),
 "C17": dict(
   text="Renders through one shared parsed tag array are specified as interleaved steps (QRender: one step = one expanded tag, reads what "
        "is shared, appends to its own stream); TLC explores every interleaving of 2 renders x 4 steps and 3 x 3 steps (thorough: 2x6, 3x4) "
        "with PureShared / AppendOnly / OneWriter (action properties) and SoloEqual / Sound (invariants); the impure designs named by the "
        "property (static scratch buffer, patched tag record, static loop context) are variants of the same spec and are rejected. Every "
        "path of the TLC state graph is a schedule that is forced on real threads through hook H3 (yield point before every tag) for "
        "generated templates of every tag kind through one shared tag array and a shared value object; after every step, with all threads "
        "parked, every field of every tag record, the Stringify of the values and the template bytes are compared with their snapshot. TLC "
        "(TraceQRender) replays the recorded steps: shared state unchanged, only the running render's stream grew, every stream a prefix of "
        "and finally equal to the solo render; the same trace spec validates cache-reuse histories (one cache, six renders, two values, "
        "fresh and growing streams). Free-running threads (8) run under ThreadSanitizer.",
   note="schedules are exhaustive at the granularity of K steps per render (which yield points separate the steps is sampled per schedule); "
        "races inside a step are left to TSan on free-running threads; templates are sampled.",
   technique="TLA+ interleaving specification; every TLC-generated schedule forced on real threads via a yield hook; trace validation of recorded steps; TSan",
   design="0.2 / 0.4 (as built), 6 (C17)"),
 "C16": dict(
   text="The allocation ledger is an explicit TLA+ specification (QMem / QMemDefs: set of live block instances, +b / -b / 0 events, transition "
        "function Apply; ExactlyOnce, NetZero); TLC checks the disciplined client and rejects the double-release and the leaking client. Through "
        "the library's own accounting seam (Memory::Allocate / Deallocate -> MemoryRecord) the harnesses of C01 / C05 / C12 / C13 / C14 record the "
        "exact order of allocations and releases per scope - every malformed / truncated / mutated / deep template rendered in 4 widths, tag-cache "
        "lifetimes (copy, move, copy- / move- / self-assignment, clear and reuse, append, drop, reset), every JSON text up to length 5 (6) and "
        "random documents with their rejected mutations, random operation histories of Value / HArray / HList / Array / String / StringStream - and "
        "TLC (OracleMem) folds Apply over every recorded scope: no release of a block that is not live, exactly the blocks live before the scope "
        "are live after it. The same runs are ASan runs (use after release, double free, foreign free abort the case).",
   note="use after release is sensed (ASan), not modelled; scopes are sampled inputs / histories, not all of them.",
   technique="TLA+ ledger specification; TLC batch oracle folding the ledger transition over allocation traces recorded through the library's accounting seam; ASan",
   design="0.2 / 0.4 (as built), 6 (C16)"),
}
PENDING = "not yet claimed in this revision: its specification and conformance harness are still being built (DESIGN.md section 6 describes the plan)"
m = {
 "version": 1,
 "setup_cmd": "make -s -C /verif -j16 setup",
 "hooks": {
   "guard": "QENTEM_VERIF",
   "enable": "harnesses are compiled by /verif/Makefile from /repo/Include with -DQENTEM_VERIF=1 (header-only library; no build of /repo itself is needed)",
   "baseline_off_cmd": "/verif/tools/baseline.sh /repo",
   "source_commits": [],
   "add_only": True,
 },
 "engines": [
   {"name": "tlc-runner", "path": "lib/vf.py", "serves_properties": sorted(CHECKS), "kind_free_text": "runs TLC on spec/*.tla (exhaustive, simulation, graph dump, trace validation, batch oracle), builds harnesses from /repo's working tree, filters known findings, writes evidence"},
   {"name": "graph-walker", "path": "harness/graph.hpp", "serves_properties": ["C12", "C13", "C14", "C19"], "kind_free_text": "spec -> code: replays every (state, action) edge of a TLC state graph into the real object and compares projections"},
 ],
 "checks": [],
 "not_applicable": [],
 "notes": "Every check: python3 checks/<id>.py --tier quick|thorough; exit 0 held, 1 VIOLATION, 2 machinery failure. Known findings: /verif/known_findings.txt.",
}
for p in props:
    pid = p["id"]
    if pid in CHECKS and os.path.exists("%s/checks/%s.py" % (V, pid)):
        c = CHECKS[pid]
        m["checks"].append({
          "property_id": pid,
          "quick_cmd": "python3 checks/%s.py --tier quick" % pid,
          "thorough_cmd": "python3 checks/%s.py --tier thorough" % pid,
          "evidence_file": "/verif/evidence/%s.json" % pid,
          "replay_cmd_template": "python3 checks/%s.py --replay {path}" % pid,
          "engine": "tlc-runner",
          "level_claimed": {"category": c.get("level", "model_checking"), "text": c["text"], "design_ref": "DESIGN.md section " + c["design"]},
          "level_note": c["note"],
          "technique": c["technique"],
        })
    else:
        m["not_applicable"].append({"property_id": pid, "reason": PENDING})
hooks = V + "/hooks.txt"
if os.path.exists(hooks):
    m["hooks"]["source_commits"] = [l.split()[0] for l in open(hooks) if l.strip() and not l.startswith("#")]
json.dump(m, open(V + "/MANIFEST.json", "w"), indent=1)
print("checks:", [c["property_id"] for c in m["checks"]], "n/a:", len(m["not_applicable"]))
