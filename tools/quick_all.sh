#!/bin/bash
# Runs every registered check once (quick tier by default) in scratch output directories, one after the other, and prints one line per
# check; used to look for false alarms under another VERIF_SEED:   VERIF_SEED=2 tools/quick_all.sh [tier] [checks...]
# (the registered commands write to /verif/out and /verif/evidence; this script does not touch them)
TIER=${1:-quick}; shift
S=$(mktemp -d /tmp/qall.XXXXXX)
trap 'rm -rf "$S"' EXIT
CHECKS=${@:-C01 C02 C03 C04 C05 C06 C07 C08 C09 C10 C11 C12 C13 C14 C15 C16 C17 C18 C19 C20}
rc_all=0
for c in $CHECKS; do
  QENTEM_OUT=$S/out QENTEM_EVIDENCE=$S/ev timeout 7200 python3 /verif/checks/$c.py --tier $TIER > $S/$c.log 2>&1
  rc=$?
  echo "$c rc=$rc $(grep -c '^VIOLATION' $S/$c.log) violations; $(tail -1 $S/$c.log | cut -c1-160)"
  if [ $rc -ne 0 ]; then rc_all=1; grep -A1 '^VIOLATION' $S/$c.log | head -12; fi
done
exit $rc_all
