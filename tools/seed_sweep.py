#!/usr/bin/env python3
"""Re-evaluate every seeded change under /verif/seeded against the current checks (quick tier, scratch copies; /repo is not touched).
  seed_sweep.py [-j N] [--seed S] [seed ...]
For each seed the checks named in its meta.json (detected_by; else the check of its property) are run again by seed_eval.py; the
sweep reports the seeds that are no longer valid (patch does not apply, suite fails) or no longer detected."""
import sys, os, json, subprocess, concurrent.futures as cf
args = sys.argv[1:]
jobs = 4
if "-j" in args:
    i = args.index("-j"); jobs = int(args[i + 1]); del args[i:i + 2]
root = "/verif/seeded"
alt = None
if "--seed" in args:       # another VERIF_SEED: shows detections that depend on the luck of one random stream; meta.json is left as it was
    i = args.index("--seed"); alt = args[i + 1]; del args[i:i + 2]
seeds = args or sorted(os.listdir(root))


def one(s):
    d = os.path.join(root, s)
    m = json.load(open(os.path.join(d, "meta.json")))
    checks = m.get("detected_by") or [m["property"]]
    cmd = ["python3", "/verif/tools/seed_eval.py", d, s, m["property"]] + checks
    if m.get("cxxflags"):
        cmd += ["--cxxflags", m["cxxflags"]]
    if m.get("tier"):
        cmd += ["--tier", m["tier"]]
    keep = open(os.path.join(d, "meta.json")).read()
    env = dict(os.environ)
    if alt is not None:
        env["VERIF_SEED"] = alt
    subprocess.run(cmd, capture_output=True, text=True, env=env)
    n = json.load(open(os.path.join(d, "meta.json")))
    if alt is not None:
        open(os.path.join(d, "meta.json"), "w").write(keep)
    return s, n.get("valid_seed"), n.get("detected_by"), checks


bad = 0
with cf.ThreadPoolExecutor(jobs) as ex:
    for s, valid, det, checks in ex.map(one, seeds):
        ok = valid and det
        bad += 0 if ok else 1
        print("%-8s valid=%s detected_by=%s%s" % (s, valid, det, "" if ok else "   <-- REGRESSION (was %s)" % checks), flush=True)
print("SWEEP: %d seeds, %d regressions" % (len(seeds), bad))
sys.exit(1 if bad else 0)
