"""Common runner library for the Qentem model-based checks.

Every check script (checks/Cxx.py) builds a `Check`, runs TLC on the explicit
specifications in /verif/spec, builds C++ conformance harnesses from /repo's
working tree, pushes specification behaviours into the code and code traces into
TLC, and finally writes /verif/evidence/<id>.json.

Exit codes: 0 = held on everything explored (known findings are printed),
1 = VIOLATION, 2 = machinery failure (never prints VIOLATION).
"""
import json, os, re, shutil, subprocess, sys, time, hashlib

VERIF = os.path.dirname(os.path.dirname(os.path.abspath(__file__)))
REPO = os.environ.get("QENTEM_REPO", "/repo")
SPEC = os.path.join(VERIF, "spec")
# (seed evaluation runs the same checks against a scratch copy of the repository: tools/seed_eval.py sets these)
BUILD = os.environ.get("QENTEM_BUILD") or os.path.join(VERIF, "build")
OUT = os.environ.get("QENTEM_OUT") or os.path.join(VERIF, "out")
EVIDENCE = os.environ.get("QENTEM_EVIDENCE") or os.path.join(VERIF, "evidence")
TLA_JAR = "/opt/veriftools/tla/tla2tools.jar:/opt/veriftools/tla/CommunityModules-deps.jar"


class MachineryError(Exception):
    pass


# --------------------------------------------------------------------------
# TLA+ value parser (for states printed in `-dump dot` labels and TLC errors)
# --------------------------------------------------------------------------
class _P:
    def __init__(self, s):
        self.s = s
        self.i = 0

    def ws(self):
        while self.i < len(self.s) and self.s[self.i] in " \n\t\r":
            self.i += 1

    def peek(self, t):
        self.ws()
        return self.s.startswith(t, self.i)

    def eat(self, t):
        self.ws()
        if not self.s.startswith(t, self.i):
            raise ValueError("expected %r at %d in %r" % (t, self.i, self.s[max(0, self.i - 20):self.i + 20]))
        self.i += len(t)

    def value(self):
        self.ws()
        s = self.s
        if self.peek("<<"):
            self.eat("<<")
            out = []
            if self.peek(">>"):
                self.eat(">>")
                return out
            while True:
                out.append(self.value())
                if self.peek(","):
                    self.eat(",")
                else:
                    break
            self.eat(">>")
            return out
        if self.peek("["):
            self.eat("[")
            d = {}
            while True:
                self.ws()
                m = re.compile(r"[A-Za-z_][A-Za-z0-9_]*").match(s, self.i)
                k = m.group(0)
                self.i = m.end()
                self.eat("|->")
                d[k] = self.value()
                if self.peek(","):
                    self.eat(",")
                else:
                    break
            self.eat("]")
            return d
        if self.peek("{"):
            self.eat("{")
            out = []
            if self.peek("}"):
                self.eat("}")
                return {"__set__": out}
            while True:
                out.append(self.value())
                if self.peek(","):
                    self.eat(",")
                else:
                    break
            self.eat("}")
            return {"__set__": out}
        if self.peek("("):
            # function  (a :> b @@ c :> d)
            self.eat("(")
            d = {}
            while True:
                k = self.value()
                self.eat(":>")
                d[json.dumps(k) if not isinstance(k, (str, int)) else k] = self.value()
                if self.peek("@@"):
                    self.eat("@@")
                else:
                    break
            self.eat(")")
            return d
        if self.peek('"'):
            self.i += 1
            j = self.i
            buf = []
            while s[j] != '"':
                if s[j] == "\\":
                    j += 1
                buf.append(s[j])
                j += 1
            self.i = j + 1
            return "".join(buf)
        m = re.compile(r"-?[0-9]+").match(s, self.i)
        if m:
            self.i = m.end()
            return int(m.group(0))
        m = re.compile(r"[A-Za-z_][A-Za-z0-9_]*").match(s, self.i)
        if m:
            self.i = m.end()
            w = m.group(0)
            if w == "TRUE":
                return True
            if w == "FALSE":
                return False
            return w  # model value
        raise ValueError("cannot parse at %d: %r" % (self.i, s[self.i:self.i + 30]))


def parse_tla_value(text):
    p = _P(text)
    v = p.value()
    return v


def parse_tla_state(text):
    """'/\\ a = 1\n/\\ b = <<>>' -> {'a': 1, 'b': []}"""
    st = {}
    if not text.lstrip().startswith("/\\"):
        text = "/\\ " + text.lstrip()
    parts = re.split(r"(?:^|\n)\s*/\\ ", "\n" + text)
    for part in parts:
        part = part.strip()
        if not part:
            continue
        m = re.match(r"([A-Za-z_][A-Za-z0-9_]*) = ", part)
        if not m:
            raise ValueError("bad state conjunct %r" % part)
        st[m.group(1)] = parse_tla_value(part[m.end():])
    return st


def parse_dot(path):
    """returns (nodes: id -> state dict, edges: list of (src, label, dst), init ids)"""
    nodes, edges, inits = {}, [], []
    node_re = re.compile(r'^(-?\d+) \[label="((?:[^"\\]|\\.)*)"(.*)\];?$')
    edge_re = re.compile(r'^(-?\d+) -> (-?\d+) \[label="((?:[^"\\]|\\.)*)"')
    with open(path) as f:
        for line in f:
            line = line.rstrip("\n")
            m = edge_re.match(line)
            if m:
                edges.append((m.group(1), m.group(3), m.group(2)))
                continue
            m = node_re.match(line)
            if m:
                lab = m.group(2).replace("\\n", "\n").replace('\\"', '"').replace("\\\\", "\\")
                nodes[m.group(1)] = parse_tla_state(lab)
                if "style = filled" in m.group(3):
                    inits.append(m.group(1))
    return nodes, edges, inits


def collect_prints(text):
    """values printed by PrintT in a TLC log, one string per value.  TLC pretty-prints a value that does not fit a line over
    several lines (`<< "TAG",` then one element per line): they are joined until the brackets balance and the opening is
    normalised to `<<"TAG"`, so that TlcResult.tuples() finds them (losing them once hid real mismatches, DESIGN 0.6)."""
    prints, pending = [], None
    for ln in text.splitlines():
        if pending is not None:
            pending += " " + ln.strip()
            if pending.count("<<") <= pending.count(">>"):
                prints.append(re.sub(r"^<<\s+", "<<", pending))
                pending = None
            continue
        if ln.startswith("<<") and ln.count("<<") > ln.count(">>"):
            pending = ln.strip()
            continue
        if ln.startswith('"') or ln.startswith("<<"):
            prints.append(re.sub(r"^<<\s+", "<<", ln))
    return prints


def _selftest():
    sample = '<<"A", 1>>\n<< "MISMATCH",\n   7,\n   << 58,\n      39 >> >>\nother line\n<< "PARTIAL", 3 >>\n"text"\n'
    got = collect_prints(sample)
    assert got[0] == '<<"A", 1>>' and got[1].startswith('<<"MISMATCH"') and parse_tla_value(got[1]) == ["MISMATCH", 7, [58, 39]] and got[2].startswith('<<"PARTIAL"') and got[3] == '"text"', got


# --------------------------------------------------------------------------
class TlcResult:
    def __init__(self):
        self.rc = None
        self.out = ""
        self.generated = 0
        self.distinct = 0
        self.violated = []       # invariant / property names
        self.deadlock = False
        self.error_text = ""
        self.wall = 0.0
        self.prints = []         # values printed via PrintT (raw lines)
        self.last_state = None
        self.coverage = {}

    def ok(self):
        return self.rc == 0

    def vecs(self, tag):
        """lines printed as PrintT(tag \\o " " \\o ToJson(x)) -> list of python objects"""
        res = []
        pre = '"' + tag + " "
        for ln in self.prints:
            if ln.startswith(pre):
                try:
                    s = json.loads(ln)
                except Exception:
                    continue
                res.append(json.loads(s[len(tag) + 1:]))
        return res

    def tuples(self, tag):
        """lines printed as PrintT(<<"TAG", ...>>) -> list of parsed tuples"""
        res = []
        pre = '<<"' + tag + '"'
        for ln in self.prints:
            if ln.startswith(pre):
                try:
                    res.append(parse_tla_value(ln))
                except Exception:
                    pass
        return res


class Check:
    def __init__(self, pid, level="model_checking"):
        import argparse
        ap = argparse.ArgumentParser()
        ap.add_argument("--tier", default=os.environ.get("VERIF_TIER", "quick"))
        ap.add_argument("--replay", default=None)
        a, _ = ap.parse_known_args()
        self.pid = pid
        self.level = level
        self.tier = a.tier if a.tier in ("quick", "thorough") else "quick"
        self.replay_path = a.replay
        try:
            self.seed = int(os.environ.get("VERIF_SEED", "1"))
        except ValueError:
            self.seed = 1
        # --replay <file>: re-run the check with the seed and tier recorded in a replay file and say whether the recorded violation recurs
        self.replaying = None
        if self.replay_path:
            try:
                rep = json.load(open(self.replay_path))
            except Exception as ex:
                print("cannot read replay file %s: %s" % (self.replay_path, ex))
                sys.exit(2)
            self.replaying = rep.get("signature", "")
            self.seed = int(rep.get("seed", self.seed))
            self.tier = rep.get("tier", self.tier)
            print("REPLAY property=%s seed=%s tier=%s\n  recorded: %s" % (pid, self.seed, self.tier, self.replaying[:300]), flush=True)
            print("  input / history: " + json.dumps(rep.get("replay"))[:1500], flush=True)
        self.replay_hit = False
        self.t0 = time.time()
        self.out = os.path.join(OUT, pid)
        shutil.rmtree(self.out, ignore_errors=True)
        os.makedirs(self.out, exist_ok=True)
        self.replays = os.path.join(OUT, "replays", pid)
        shutil.rmtree(self.replays, ignore_errors=True)
        os.makedirs(self.replays, exist_ok=True)
        self.cov = {"states": 0, "transitions": 0, "traces_validated_against_impl": 0,
                    "evaluations": 0, "distinct_nontrivial": 0, "samples": [], "rule": "",
                    "tlc_runs": [], "stages": {}}
        self._distinct = set()
        self.assumptions = []
        self.violations = 0
        self.known_hits = {}
        self.findings = load_findings(pid)
        self.drift = []
        self.thorough = self.tier == "thorough"

    # ---------------- logging
    def log(self, *a):
        print("[%s %6.1fs]" % (self.pid, time.time() - self.t0), *a, flush=True)

    # ---------------- builds
    def build(self, *targets):
        t = time.time()
        # content hash of the headers: a restored file with an old mtime must still trigger a rebuild
        h = hashlib.sha1(REPO.encode())
        inc = os.path.join(REPO, "Include")
        for fn in sorted(os.listdir(inc)):
            if fn.endswith(".hpp"):
                h.update(fn.encode())
                h.update(open(os.path.join(inc, fn), "rb").read())
        os.makedirs(BUILD, exist_ok=True)
        stamp = os.path.join(BUILD, "headers.sha")
        old = open(stamp).read() if os.path.exists(stamp) else ""
        if old != h.hexdigest():
            with open(stamp, "w") as f:
                f.write(h.hexdigest())
        cmd = ["make", "-s", "-C", VERIF, "-j16", "REPO=" + REPO, "B=" + BUILD] + [os.path.join(BUILD, x) for x in targets]
        r = subprocess.run(cmd, stdout=subprocess.PIPE, stderr=subprocess.STDOUT, text=True)
        if r.returncode != 0:
            print(r.stdout[-6000:])
            raise MachineryError("harness build failed: " + " ".join(targets))
        self.log("built %s in %.1fs" % (",".join(targets), time.time() - t))
        return [os.path.join(BUILD, x) for x in targets]

    def run(self, argv, timeout=600, env=None, stdin=None, cwd=None):
        e = dict(os.environ)
        e.setdefault("ASAN_OPTIONS", "detect_leaks=1:abort_on_error=0:exitcode=99:allocator_may_return_null=1")
        e.setdefault("UBSAN_OPTIONS", "print_stacktrace=1:halt_on_error=1:exitcode=98")
        if env:
            e.update(env)
        try:
            r = subprocess.run(argv, stdout=subprocess.PIPE, stderr=subprocess.PIPE, text=True, errors="replace",
                               timeout=timeout, env=e, input=stdin, cwd=cwd)
            return r.returncode, r.stdout, r.stderr
        except subprocess.TimeoutExpired as ex:
            so = ex.stdout.decode(errors="replace") if isinstance(ex.stdout, bytes) else (ex.stdout or "")
            se = ex.stderr.decode(errors="replace") if isinstance(ex.stderr, bytes) else (ex.stderr or "")
            return -999, so, se + "\nTIMEOUT"

    # ---------------- TLC
    def tlc(self, module, cfg=None, env=None, workers=16, simulate=None, depth=None, dump=None,
            timeout=900, xmx="8g", xss="64m", name=None, deadlock=None, coverage=False, expect_fail=False,
            extra=None, quiet=False):
        """Run TLC on spec/<module>.tla with spec/<cfg>.cfg.  Returns TlcResult.
        A parse error / java exception raises MachineryError."""
        name = name or (cfg or module)
        md = os.path.join(self.out, "tlc_" + name)
        shutil.rmtree(md, ignore_errors=True)
        os.makedirs(md, exist_ok=True)
        cfgp = os.path.join(SPEC, (cfg or module) + ".cfg")
        argv = ["java", "-XX:+UseParallelGC", "-Xmx" + xmx, "-Xss" + xss, "-cp", TLA_JAR, "tlc2.TLC",
                "-workers", str(workers), "-metadir", md, "-config", cfgp, "-noGenerateSpecTE"]
        if simulate:
            argv += ["-simulate", "num=%d" % simulate, "-seed", str(self.seed)]
        if depth:
            argv += ["-depth", str(depth)]
        if dump:
            argv += ["-dump", "dot,actionlabels", dump]
        if deadlock is False:
            argv += ["-deadlock"]
        if coverage:
            argv += ["-coverage", "1"]
        if extra:
            argv += extra
        argv += [os.path.join(SPEC, module + ".tla")]
        e = dict(os.environ)
        e.pop("JAVA_TOOL_OPTIONS", None)
        if env:
            e.update({k: str(v) for k, v in env.items()})
        t = time.time()
        res = TlcResult()
        try:
            r = subprocess.run(argv, stdout=subprocess.PIPE, stderr=subprocess.STDOUT, text=True, errors="replace",
                               timeout=timeout, env=e, cwd=SPEC)
            res.rc, res.out = r.returncode, r.stdout
        except subprocess.TimeoutExpired as ex:
            o = ex.stdout.decode(errors="replace") if isinstance(ex.stdout, bytes) else (ex.stdout or "")
            res.rc, res.out = -999, o
        res.wall = time.time() - t
        shutil.rmtree(md, ignore_errors=True)
        with open(os.path.join(self.out, "tlc_" + name + ".log"), "w") as f:
            f.write(res.out)
        res.prints = collect_prints(res.out)
        for ln in res.out.splitlines():
            m = re.match(r"(\d+) states generated, (\d+) distinct states found", ln)
            if m:
                res.generated, res.distinct = int(m.group(1)), int(m.group(2))
            m = re.match(r"Error: Invariant (\S+) is violated", ln)
            if m:
                res.violated.append(m.group(1))
            m = re.match(r"Error: Action property (\S+) is violated", ln)
            if m:
                res.violated.append(m.group(1))
            if "Temporal properties were violated" in ln:
                res.violated.append("TEMPORAL")
            if ln.startswith("Error: Deadlock reached"):
                res.deadlock = True
            if simulate:
                m = re.match(r"The number of states generated: (\d+)", ln)
                if m:
                    res.generated = res.distinct = int(m.group(1))
        # last state of an error trace
        m = list(re.finditer(r"State \d+: <[^\n]*>\n((?:/\\ [^\n]*\n|[ ]+[^\n]*\n)+)", res.out))
        if m:
            try:
                res.last_state = parse_tla_state(m[-1].group(1))
            except Exception:
                res.last_state = None
        fatal = None
        if res.rc == -999:
            fatal = "TLC timed out after %ds" % timeout
        elif res.rc not in (0, 10, 11, 12, 13):
            fatal = "TLC failed rc=%s" % res.rc
        elif res.rc != 0 and not (res.violated or res.deadlock):
            fatal = "TLC rc=%s without a recognised violation" % res.rc
        if fatal:
            print(res.out[-5000:])
            raise MachineryError("%s (%s)" % (fatal, name))
        self.cov["states"] += res.distinct
        self.cov["transitions"] += res.generated
        self.cov["tlc_runs"].append({"name": name, "module": module, "cfg": cfg or module, "distinct": res.distinct,
                                     "generated": res.generated, "wall_s": round(res.wall, 1),
                                     "mode": "simulate" if simulate else "bfs",
                                     "result": "ok" if res.rc == 0 else ("violated:" + ",".join(res.violated) if res.violated else "deadlock")})
        if not quiet:
            self.log("TLC %-28s %9d generated %9d distinct  %.1fs  %s" % (name, res.generated, res.distinct, res.wall,
                                                                             "ok" if res.rc == 0 else "VIOLATED " + ",".join(res.violated)))
        if coverage:
            for m in re.finditer(r"<(\w+) line \d+, col \d+ to line \d+, col \d+ of module (\w+)>: (\d+):(\d+)", res.out):
                res.coverage[m.group(1)] = res.coverage.get(m.group(1), 0) + int(m.group(4))
        return res

    def oracle(self, module, trace, name, sigfn, timeout=1800, xmx="16g", xss="64m", max_report=300, cfg=None, workers=16, tags=None):
        """E5 batch oracle: TLC evaluates every event of `trace` with `module`; lines printed as
        <<"MISMATCH", l>> become violations (signature by sigfn(event)); <<"DRIFT", l>> is model drift only.
        returns (number of events, mismatching lines, drift lines)"""
        r = self.tlc(module, cfg=cfg, env={"TRACE": trace}, name=name, timeout=timeout, xmx=xmx, xss=xss, workers=workers)
        bad = sorted(set(t[1] for t in r.tuples("MISMATCH")))
        drift = sorted(set(t[1] for t in r.tuples("DRIFT")))
        n = max(0, r.distinct - 65)   # minus the root and the 64 block states
        tagged = {}
        for tag in (tags or {}):
            tagged[tag] = sorted(set(t[1] for t in r.tuples(tag)))
        if bad or drift or any(tagged.values()):
            evs = read_ndjson(trace)
            for tag, lines in tagged.items():      # violations of a class the oracle itself identifies (e.g. a known finding)
                for l in lines[:max_report]:
                    self.violation(tags[tag](evs[l - 1]), {"kind": "oracle", "oracle": module, "class": tag, "event": evs[l - 1], "line": l})
                bad = bad  # tagged lines are counted separately
            for l in bad[:max_report]:
                e = evs[l - 1]
                self.violation(sigfn(e), {"kind": "oracle", "oracle": module, "event": e, "line": l})
            if len(bad) > max_report:
                self.log("... %d further mismatches not reported individually" % (len(bad) - max_report))
            for l in drift[:5]:
                self.drift.append({"oracle": module, "event": evs[l - 1]})
        self.count(n_eval=n, validated=n - len(bad))
        self.stage(name, events=n, mismatches=len(bad), drift=len(drift))
        return n, bad, drift

    def harness_ok(self, what, rc, out, err, replay=None):
        """common crash protocol: the last stdout line must be DONE"""
        lines = out.strip().splitlines()
        if lines and lines[-1] == "DONE":
            return True
        tail = " ".join(lines[-2:])[-120:] if lines else ""
        san = ""
        m = re.search(r"(AddressSanitizer|UndefinedBehaviorSanitizer|runtime error|LeakSanitizer|ThreadSanitizer)[^\n]*", err or "")
        if m:
            san = m.group(0)[:160]
        rep = {"kind": "crash", "what": what, "rc": rc, "stdout_tail": lines[-5:], "stderr": (err or "")[-4000:]}
        if replay:
            rep.update(replay)
        self.violation("%s crash/hang: %s %s" % (what, tail, san), rep)
        return False

    def expect_holds(self, res, what):
        """a TLC run on the specification itself must pass; otherwise it is a spec-level violation"""
        if not res.ok():
            self.violation("spec:" + what, {"kind": "spec", "what": what, "violated": res.violated,
                                            "deadlock": res.deadlock, "tail": res.out[-3000:]})
            return False
        return True

    # ---------------- accounting
    def count(self, n_eval=0, distinct_keys=None, validated=0):
        self.cov["evaluations"] += n_eval
        self.cov["traces_validated_against_impl"] += validated
        if distinct_keys:
            for k in distinct_keys:
                if len(self._distinct) < 2000000:
                    self._distinct.add(hashlib.blake2b(repr(k).encode(), digest_size=8).digest())

    def sample(self, x):
        if len(self.cov["samples"]) < 12:
            self.cov["samples"].append(x)

    def stage(self, name, **kw):
        self.cov["stages"].setdefault(name, {}).update(kw)

    # ---------------- violations / findings
    def violation(self, sig, replay):
        if self.replaying is not None and sig == self.replaying:
            self.replay_hit = True
        """sig: a stable signature string of what fails (used for known-findings matching)."""
        for f in self.findings:
            if f["re"].search(sig):
                if f["id"] not in self.known_hits:
                    self.known_hits[f["id"]] = 0
                    print("KNOWN-FINDING: property=%s %s [%s] e.g. %s" % (self.pid, f["what"], f["id"], sig[:160]), flush=True)
                self.known_hits[f["id"]] += 1
                return False
        self.violations += 1
        n = self.violations
        with open(os.path.join(self.out, "violations.txt"), "a") as fh:
            fh.write(sig.replace("\n", " ") + "\n")
        if n <= 25:
            path = os.path.join(self.replays, "%d.json" % n)
            with open(path, "w") as fh:
                json.dump({"property": self.pid, "signature": sig, "seed": self.seed, "tier": self.tier, "replay": replay},
                          fh, indent=1, default=str)
            print("VIOLATION property=%s replay=%s" % (self.pid, path), flush=True)
            print("  what: %s" % sig[:400], flush=True)
        return True

    def finish(self, rule, assumptions=None, exhaustive=False):
        self.cov["rule"] = rule
        self.cov["distinct_nontrivial"] = len(self._distinct)
        self.cov["exhaustive"] = bool(exhaustive)
        self.cov["known_findings_hit"] = self.known_hits
        self.cov["model_drift"] = self.drift[:20]
        if not self.cov["samples"]:
            self.cov["samples"] = ["(no sample recorded)"]
        if self.cov["states"] < 1 or self.cov["transitions"] < 1:
            # level's own keys would be invalid; fall back to the generic keys
            pass
        ev = {"property_id": self.pid, "tier": self.tier, "seed": self.seed, "level": self.level,
              "coverage": self.cov, "assumptions": (assumptions or []) + self.assumptions,
              "wall_s": round(time.time() - self.t0, 1), "violations": self.violations}
        os.makedirs(EVIDENCE, exist_ok=True)
        with open(os.path.join(EVIDENCE, self.pid + ".json"), "w") as f:
            json.dump(ev, f, indent=1, default=str)
        self.log("done: evaluations=%d distinct=%d states=%d validated=%d violations=%d known=%s wall=%.1fs" % (
            self.cov["evaluations"], self.cov["distinct_nontrivial"], self.cov["states"],
            self.cov["traces_validated_against_impl"], self.violations, dict(self.known_hits), time.time() - self.t0))
        if self.replaying is not None:
            print("REPLAY %s: the recorded violation %s" % (self.pid, "recurred" if self.replay_hit else "did NOT recur (it may depend on the repository state it was recorded on)"), flush=True)
        sys.exit(1 if self.violations else 0)


def load_findings(pid):
    res = []
    p = os.path.join(VERIF, "known_findings.txt")
    if not os.path.exists(p):
        return res
    for ln in open(p):
        ln = ln.strip()
        if not ln.startswith("finding:"):
            continue
        m = re.match(r"finding: property=(\S+) id=(\S+) match=/(.*?)/ what=(.*)$", ln)
        if not m:
            continue
        if m.group(1) != pid:
            continue
        res.append({"id": m.group(2), "re": re.compile(m.group(3)), "what": m.group(4)})
    return res


def main_wrap(fn):
    try:
        fn()
    except MachineryError as e:
        print("MACHINERY-FAILURE: %s" % e, flush=True)
        sys.exit(2)
    except SystemExit:
        raise
    except BaseException:          # a bug of the check itself is a machinery failure (exit 2), never a verdict
        import traceback
        traceback.print_exc()
        print("MACHINERY-FAILURE: unexpected exception in the check script", flush=True)
        sys.exit(2)


def write_ndjson(path, events):
    with open(path, "w") as f:
        for e in events:
            f.write(json.dumps(e, separators=(",", ":")) + "\n")


def read_ndjson(path):
    out = []
    with open(path, errors="replace") as f:
        for ln in f:
            ln = ln.strip()
            if ln:
                out.append(json.loads(ln))
    return out


def units(s):
    """python str -> list of code points (small ints)"""
    return [ord(c) for c in s]


def text(us):
    return "".join(chr(u) if 32 <= u < 127 else "\\x%02x" % u for u in us)


_selftest()
