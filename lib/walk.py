"""spec -> code helper: run a graph walker binary with crash recovery (skip list) and report results."""
import os, re


def run_walker(c, argv_fn, what, max_restarts=12, timeout=1500):
    """argv_fn(skip_csv) -> argv.  Returns dict of WALK counters (summed over tags)."""
    skip = []
    totals = {}
    for attempt in range(max_restarts + 1):
        argv = argv_fn(",".join(str(x) for x in skip) if skip else "-")
        rc, out, err = c.run(argv, timeout=timeout)
        lines = out.strip().splitlines()
        done = bool(lines) and lines[-1] == "DONE"
        if done or attempt == max_restarts:
            for ln in lines:
                if ln.startswith("MISMATCH"):
                    m = re.search(r"action=(\S+)", ln)
                    c.violation("%s %s" % (what, ln[:400]), {"kind": "graph-edge", "argv": argv, "line": ln})
                elif ln.startswith("WALK"):
                    kv = dict(x.split("=") for x in ln.split()[2:])
                    for k, v in kv.items():
                        totals[k] = totals.get(k, 0) + int(v)
                    c.count(n_eval=int(kv["labels"]), validated=int(kv["edges"]))
                    c.stage("walk:%s:%s" % (what, ln.split()[1]), **{k: int(v) for k, v in kv.items()})
                elif ln.startswith("LEDGER"):
                    kv = dict(x.split("=") for x in ln.split()[1:])
                    if int(kv["live"]) != 0 or int(kv["badfree"]) != 0:
                        c.violation("%s ledger %s" % (what, ln), {"kind": "ledger", "line": ln, "argv": argv})
            if not done:
                c.harness_ok(what, rc, out, err, {"argv": argv})
            return totals
        # crashed / hung in one case: record it, skip it, run again
        m = None
        for ln in reversed(lines):
            m = re.match(r"(CRASH|HANG) (-?\d+) (-?\d+) ?(.*)", ln)
            if m:
                break
        if not m:
            c.harness_ok(what, rc, out, err, {"argv": argv})
            return totals
        san = re.search(r"(AddressSanitizer|UndefinedBehaviorSanitizer|runtime error|LeakSanitizer)[^\n]*", err or "")
        c.violation("%s %s %s %s" % (what, m.group(1), m.group(4)[:300], san.group(0)[:120] if san else "signal %s" % m.group(3)),
                    {"kind": "crash", "argv": argv, "case": int(m.group(2)), "desc": m.group(4), "stderr": (err or "")[-3000:]})
        skip.append(int(m.group(2)))
    return totals


def run_cases(c, binary, mode, infile, outfile, what, max_restarts=40, timeout=1800, extra=None):
    """file-driven harness mode with crash recovery: '<binary> <mode> <infile> <outfile> <from>'.
    Every crashing / hanging case becomes a violation (signature: what + sanitizer summary + case description)
    and the run resumes at the next case.  Returns the number of crashes."""
    start = 0
    crashes = 0
    if os.path.exists(outfile):
        os.remove(outfile)
    for attempt in range(max_restarts + 1):
        argv = [binary, mode, infile, outfile, str(start)] + (extra or [])
        rc, out, err = c.run(argv, timeout=timeout)
        lines = out.strip().splitlines()
        if lines and lines[-1] == "DONE":
            return crashes
        m = None
        for ln in reversed(lines):
            m = re.match(r"(CRASH|HANG) (-?\d+) (-?\d+) ?(.*)", ln)
            if m:
                break
        if not m:
            c.harness_ok(what, rc, out, err, {"argv": argv})
            return crashes + 1
        san = re.search(r"(AddressSanitizer|UndefinedBehaviorSanitizer|runtime error|LeakSanitizer)[^\n]*", err or "")
        kind = "HANG" if m.group(1) == "HANG" else (re.sub(r"0x[0-9a-f]+", "0x", san.group(0))[:110] if san else "signal %s" % m.group(3))
        c.violation("%s %s: %s | %s" % (what, m.group(1), kind, m.group(4)[:300]),
                    {"kind": "crash", "argv": argv, "case": int(m.group(2)), "desc": m.group(4), "stderr": (err or "")[-3000:]})
        crashes += 1
        start = int(m.group(2)) + 1
    return crashes
