SPECIFICATION Spec
CONSTANTS
  MaxEntries = 2
  Variant = "current"
INVARIANT Export
CHECK_DEADLOCK FALSE
