SPECIFICATION Spec
CONSTANTS
  MaxLen = 4
  WithOpening = FALSE
  Variant = "current"
INVARIANTS EvaluatorSafe StaysInside
CHECK_DEADLOCK FALSE
