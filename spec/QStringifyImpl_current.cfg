SPECIFICATION Spec
CONSTANTS
  MaxEntries = 3
  Variant = "current"
INVARIANT Agree
CHECK_DEADLOCK FALSE
