INIT TInit
NEXT TNext
CONSTANTS MaxLen = 1000000
          Fuel = 40
          Variant = "current"
INVARIANTS NoBad PsLive ChainLive AllClosedAtEnd LoopsEnclose LevelIsDepth Accepted
CHECK_DEADLOCK TRUE
