SPECIFICATION Spec
CONSTANTS Variant = "current"
          MaxLoops = 3
          MaxName = 2
          MaxRef = 4
INVARIANTS CaptureExists
CHECK_DEADLOCK FALSE
