------------------------------ MODULE OracleJson ------------------------------
(* code -> spec batch oracle (E5) for C05-C08.  Events recorded by            *)
(* harness/h_json.cpp:                                                        *)
(*  {w, fam, s, undef, doc}: JSON::Parse of text s (width w) gave Undefined    *)
(*      (undef = 1) or the document doc.  Expected: accepted exactly when s    *)
(*      is a document of the grammar (C07: nothing else is accepted; C06:      *)
(*      every document is accepted) and doc is the denoted value.              *)
(*  {w, fam = "stringify", tree, s, back, fixed, prefix}: tree (built through  *)
(*      the Value API) stringified to s, s parsed back to back (C08).          *)
EXTENDS QJsonGrammar, Json, IOUtils
Tr == ndJsonDeserialize(IOEnv.TRACE)
VARIABLE l

\* omitted in JSON text: Undefined array elements and members whose value is Undefined
RECURSIVE Norm(_)
Norm(d) == IF d.t = "A" THEN A([i \in 1..Len(SelectSeq(d.e, LAMBDA x : x.t # "U")) |-> Norm(SelectSeq(d.e, LAMBDA x : x.t # "U")[i])])
           ELSE IF d.t = "O" THEN O([i \in 1..Len(SelectSeq(d.m, LAMBDA x : x.v.t # "U")) |->
                                        [k |-> SelectSeq(d.m, LAMBDA x : x.v.t # "U")[i].k, v |-> Norm(SelectSeq(d.m, LAMBDA x : x.v.t # "U")[i].v)]])
           ELSE d
\* JSON has one number type: stringify / parse must preserve the value (3.0 may come back as the integer 3)
RECURSIVE SameDoc(_, _)
SameDoc(x, y) ==
    IF x.t # y.t THEN FALSE
    ELSE IF x.t = "N" THEN (IF x.k = "big" THEN (y.k = "big" /\ y.neg = x.neg /\ y.d = x.d)            \* a 64-bit integer survives exactly
                            ELSE (x.k = "approx" \/ y.k \in {"approx", "big"} \/ x.m = y.m))
    ELSE IF x.t = "S" THEN x.s = y.s
    ELSE IF x.t = "A" THEN Len(x.e) = Len(y.e) /\ \A i \in 1..Len(x.e) : SameDoc(x.e[i], y.e[i])
    ELSE IF x.t = "O" THEN Len(x.m) = Len(y.m) /\ \A i \in 1..Len(x.m) : x.m[i].k = y.m[i].k /\ SameDoc(x.m[i].v, y.m[i].v)
    ELSE TRUE

\* JMODE selects the part of the judgement that belongs to the property being checked:
\*   safety   (C05)  the result is Undefined or a complete value (no Undefined inside)
\*   strict   (C07)  anything accepted is a document of the grammar and carries no partial tree
\*   complete (C06)  every document of the grammar is accepted and yields the denoted value
Mode == IOEnv.JMODE
RECURSIVE HasUndef(_)
HasUndef(d) == IF d.t = "U" THEN TRUE
               ELSE IF d.t = "A" THEN \E i \in 1..Len(d.e) : HasUndef(d.e[i])
               ELSE IF d.t = "O" THEN \E i \in 1..Len(d.m) : HasUndef(d.m[i].v)
               ELSE FALSE
ParseOK(e) == LET r == Parse(e.s, e.w) IN
              CASE Mode = "safety"   -> (e.undef = 1) \/ ~HasUndef(e.doc)
                [] Mode = "strict"   -> (e.undef = 0) => (r.ok /\ ~HasUndef(e.doc))
                [] Mode = "complete" -> r.ok => (e.undef = 0 /\ DocMatch(r.v, e.doc))
                [] OTHER -> ((e.undef = 1) = ~r.ok) /\ (r.ok => DocMatch(r.v, e.doc))
StringifyOK(e) == LET r == Parse(e.s, e.w)  n == Norm(e.tree) IN
                  /\ r.ok                                   \* the text is valid JSON
                  /\ SameDoc(r.v, n)                        \* and denotes the tree
                  /\ SameDoc(n, e.back)                     \* the library's own parser reads it back to the same tree
                  /\ e.fixed = 1 /\ e.prefix = 1            \* stringify(parse(stringify)) is a fixed point; the stream is only appended to
EventOK(e) == IF e.fam = "stringify" THEN StringifyOK(e) ELSE ParseOK(e)
NB == 64
BSize == (Len(Tr) + NB - 1) \div NB
OInit == l = 0
ONext == \/ l = 0 /\ l' \in {0 - b : b \in 1..NB}
         \/ l < 0 /\ l' \in {i \in (((0 - l) - 1) * BSize + 1)..((0 - l) * BSize) : i <= Len(Tr)}
Check == l <= 0 \/ EventOK(Tr[l]) \/ PrintT(<<"MISMATCH", l>>)
=============================================================================
