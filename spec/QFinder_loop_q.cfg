SPECIFICATION Spec
CONSTANTS Alphabet = {60,47,108,111,112,62}
          MaxLen = 7
INVARIANTS InBounds Agrees
PROPERTIES BackOnlyToStart
CHECK_DEADLOCK FALSE
