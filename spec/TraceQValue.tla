----------------------------- MODULE TraceQValue -----------------------------
(* code -> spec (E4): random histories of public Value operations recorded   *)
(* by harness/h_value.cpp, validated against the actions of QValue.          *)
EXTENDS QValue, Json, IOUtils
Tr == ndJsonDeserialize(IOEnv.TRACE)
VARIABLE l
Ev == Tr[l]
Operand == IF Ev.src # 0 THEN (IF Ev.mv = 1 THEN doc[Ev.src] ELSE CopyDoc(doc[Ev.src])) ELSE Unstrip(Ev.x)
Arg == IF Ev.op \in {"remove", "removeindex"} THEN Ev.n ELSE Operand
NewDoc == LET w == WriteAt(doc[Ev.r], Ev.path, Ev.op, Arg) IN
          IF Ev.src # 0 /\ Ev.mv = 1 THEN [doc EXCEPT ![Ev.r] = w, ![Ev.src] = U] ELSE [doc EXCEPT ![Ev.r] = w]
Matches(d) == \A r \in Roots : Strip(d[r]) = Ev.docs[r]
\* The recorder only generates positional access into objects that currently hold no removed slot (it can see the real
\* slots), so the conservative `dirty` flag is dropped by adopting the logged (equal modulo dirty) documents.
Adopt == [r \in Roots |-> Unstrip(Ev.docs[r])]
TInit == doc = [r \in Roots |-> U] /\ l = 1
TNext ==
  \/ /\ l <= Len(Tr)
     /\ \/ /\ Ev.op = "init" /\ doc' = [r \in Roots |-> U] /\ l' = l + 1
        \/ /\ Ev.op \in {"assign", "appendval", "appendarr", "merge", "remove", "removeindex", "reset"}
           /\ Matches(NewDoc) /\ doc' = Adopt /\ Ev.ok = 1 /\ l' = l + 1
        \/ /\ Ev.op = "compress"
           /\ Matches([doc EXCEPT ![Ev.r] = CompressDoc(doc[Ev.r])]) /\ doc' = Adopt /\ Ev.ok = 1 /\ l' = l + 1
        \/ /\ Ev.op = "get"
           /\ LET v == Defined(Lookup(doc[Ev.r], Ev.path)) IN
              /\ Strip(v) = Ev.ret
              /\ v.t # "none" => /\ Ev.gi = GetInt(v) /\ Ev.gd = GetDouble2(v) /\ Ev.gb = BoolOf(v) /\ Ev.nt \in NumKind(v)
           /\ UNCHANGED doc /\ l' = l + 1
  \/ /\ l = Len(Tr) + 1 /\ UNCHANGED <<doc, l>>
=============================================================================
