SPECIFICATION Spec
CONSTANTS Alphabet = {123,125,60,62,47,105,102}
          MaxLen = 7
INVARIANTS InBounds Agrees
PROPERTIES BackOnlyToStart
CHECK_DEADLOCK FALSE
