---------------------------- MODULE QExprImplDefs ----------------------------
(* The operator-precedence walk of TemplateCore::evaluate (Template.hpp) as a *)
(* pure operator on the token list of an expression (operands at the odd,     *)
(* operators at the even positions; a parenthesised operand carries its own   *)
(* token list).  See QExprImpl.tla.  Shared by the model (QExprImpl) and by   *)
(* the batch oracle (OracleExpr: the real engine must produce the value of    *)
(* this walk - drift of the transcription is reported, not a violation).      *)
EXTENDS QExpr

OpNames == <<"||", "&&", "==", "!=", ">=", "<=", ">", "<", "|", "&", "+", "-", "*", "/", "%", "^">>     \* index = rank (QOperation)
Rank(op) == CHOOSE r \in 1..16 : OpNames[r] = op

Pick(S) == CHOOSE y \in S : TRUE          \* binds a value once: Pick({Body(x) : x \in {expr}})
RECURSIVE ImplWalk(_, _, _)
\* descriptor of item i (GetExpressionValue): a literal, a variable, text, or the value of a parenthesised sub-expression
ImplItem(l, i, a) == LET tok == l[2 * i - 1] IN
    IF tok.t = "sub" THEN Final(ImplWalk(tok.e, a.pin, a.variant))
    ELSE IF tok.t = "lit" THEN Num(tok.n)
    ELSE IF tok.t = "var" THEN [t |-> "var", d |-> tok.d]
    ELSE [t |-> "text", s |-> tok.s]
ImplOpAfter(l, i) == IF 2 * i < Len(l) THEN Rank(l[2 * i]) ELSE 0

RECURSIVE ImplLoop(_, _, _, _, _, _)
\* evaluate(left, expr = item i, previous = prev): [v |-> value descriptor, i |-> item where the walk stopped]
ImplEval(l, i, prev, fuel, a) == ImplLoop(l, ImplItem(l, i, a), i, prev, fuel, a)
ImplLoop(l, left, i, prev, fuel, a) ==
    IF ImplOpAfter(l, i) = 0 \/ fuel = 0 THEN [v |-> left, i |-> i]
    ELSE LET op == l[2 * i]  j == i + 1 IN
         IF ImplOpAfter(l, i) >= ImplOpAfter(l, j)
         THEN Pick({IF prev < ImplOpAfter(l, j) THEN ImplLoop(l, l2, j, prev, fuel - 1, a) ELSE [v |-> l2, i |-> j] :
                    l2 \in {Apply(op, left, ImplItem(l, j, a), a.pin)}})
         ELSE Pick({Pick({IF (CASE a.variant = "leq-after-nested" -> prev <= ImplOpAfter(l, r.i)
                               [] a.variant = "always-continue" -> TRUE
                               [] OTHER -> prev < ImplOpAfter(l, r.i))
                          THEN ImplLoop(l, l2, r.i, prev, fuel - 1, a) ELSE [v |-> l2, i |-> r.i] :
                          l2 \in {Apply(op, left, r.v, a.pin)}}) :
                    r \in {ImplEval(l, j, ImplOpAfter(l, i), fuel - 1, a)}})
ImplRun(l, pin, variant) == ImplEval(l, 1, 0, Len(l) + 2, [pin |-> pin, variant |-> variant])
ImplWalk(l, pin, variant) == ImplRun(l, pin, variant).v
ImplValueOf(l, pin, variant) == Final(ImplWalk(l, pin, variant))
=============================================================================
