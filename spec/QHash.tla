------------------------------- MODULE QHash -------------------------------
(* Property specification (P) of the insertion-ordered hash array           *)
(* (HArray / HList / HashTable).  Written from the contract a user relies   *)
(* on (C13), not from the code: a table is a sequence of slots; a slot is   *)
(* live (key, value) or dead (a removed entry that still occupies its       *)
(* position until the table is reorganised).  WHEN dead slots disappear is  *)
(* a capacity-policy matter and therefore nondeterministic (MaybeCompact).  *)
(* Keys are naturals ordered as the real keys are ordered (C15).            *)
EXTENDS Naturals, Sequences, FiniteSets, TLC

CONSTANTS Keys,      \* set of naturals >= 1
          Vals,      \* set of naturals >= 1 (0 = default constructed value)
          Tables,    \* set of table names
          MaxSlots   \* bound on Len of every table (state constraint only)

VARIABLE tb          \* tb[t] \in Seq([k, v, live])

Slot(k, v) == [k |-> k, v |-> v, live |-> TRUE]
Dead       == [k |-> 0, v |-> 0, live |-> FALSE]

LiveIdx(s) == {i \in 1..Len(s) : s[i].live}
Find(s, k) == {i \in LiveIdx(s) : s[i].k = k}
Pos(s, k)  == CHOOSE i \in Find(s, k) : TRUE
HasKey(s, k) == Find(s, k) # {}

RECURSIVE Compact(_)
Compact(s) == IF s = <<>> THEN <<>>
              ELSE IF Head(s).live THEN <<Head(s)>> \o Compact(Tail(s))
              ELSE Compact(Tail(s))

MaybeCompact(s) == {s, Compact(s)}

InsertIn(s, k, v) == IF HasKey(s, k) THEN [s EXCEPT ![Pos(s, k)].v = v] ELSE Append(s, Slot(k, v))
GetIn(s, k)       == IF HasKey(s, k) THEN s ELSE Append(s, Slot(k, 0))

RECURSIVE MergeIn(_, _)
\* every live (k,v) of o, in order, replace-or-append into s
MergeIn(s, o) == IF o = <<>> THEN s
                 ELSE IF Head(o).live THEN MergeIn(InsertIn(s, Head(o).k, Head(o).v), Tail(o))
                 ELSE MergeIn(s, Tail(o))

\* ---------- sorting: the live entries ordered by key; dead slots may stay anywhere or vanish
RECURSIVE InsertSorted(_, _, _)
InsertSorted(x, s, asc) ==
    IF s = <<>> THEN <<x>>
    ELSE IF (asc /\ x.k < Head(s).k) \/ (~asc /\ x.k > Head(s).k) THEN <<x>> \o s
    ELSE <<Head(s)>> \o InsertSorted(x, Tail(s), asc)
RECURSIVE OrdSeq(_, _)
OrdSeq(s, asc) == IF s = <<>> THEN <<>> ELSE InsertSorted(Head(s), OrdSeq(Tail(s), asc), asc)
SortedLive(s, asc) == OrdSeq(Compact(s), asc)
\* predicate form (used by trace validation): r is an admissible result of sorting s
IsSortResult(s, r, asc) == /\ Compact(r) = SortedLive(s, asc)
                           /\ Len(r) <= Len(s)
                           /\ \A i \in 1..Len(r) : ~r[i].live => r[i] = Dead
\* generator form (used by the exhaustive model)
RECURSIVE Weave(_, _)
\* all sequences obtained from live sequence L by inserting at most d Dead slots
Weave(L, d) == IF d = 0 THEN {L}
               ELSE Weave(L, d - 1) \cup
                    UNION {{SubSeq(r, 1, p) \o <<Dead>> \o SubSeq(r, p + 1, Len(r)) : p \in 0..Len(r)} : r \in Weave(L, d - 1)}
SortResults(s, asc) == Weave(SortedLive(s, asc), Len(s) - Len(Compact(s)))

\* ------------------------------- actions --------------------------------
Init == tb = [t \in Tables |-> <<>>]

Upd(t, s) == [tb EXCEPT ![t] = s]

Insert(t, k, v)   == \E s \in MaybeCompact(tb[t]) : tb' = Upd(t, InsertIn(s, k, v))
GetOrCreate(t, k) == \E s \in MaybeCompact(tb[t]) : tb' = Upd(t, GetIn(s, k))
Remove(t, k)      == tb' = Upd(t, IF HasKey(tb[t], k) THEN [tb[t] EXCEPT ![Pos(tb[t], k)] = Dead] ELSE tb[t])
RemoveIndex(t, i) == tb' = Upd(t, IF (i + 1) \in LiveIdx(tb[t]) THEN [tb[t] EXCEPT ![i + 1] = Dead] ELSE tb[t])
RenameOK(s, a, b) == HasKey(s, a) /\ ~HasKey(s, b)
Rename(t, a, b)   == tb' = Upd(t, IF RenameOK(tb[t], a, b) THEN [tb[t] EXCEPT ![Pos(tb[t], a)].k = b] ELSE tb[t])
Min(a, b) == IF a < b THEN a ELSE b
Resize(t, n)      == tb' = Upd(t, IF n = 0 THEN <<>> ELSE Compact(SubSeq(tb[t], 1, Min(n, Len(tb[t])))))
Expect(t)         == \E s \in MaybeCompact(tb[t]) : tb' = Upd(t, s)
Compress(t)       == tb' = Upd(t, Compact(tb[t]))
Clear(t)          == tb' = Upd(t, <<>>)      \* Clear, Reset and Reserve(n) all empty the table
Sort(t, asc)      == \E r \in SortResults(tb[t], asc) : tb' = Upd(t, r)
CopyFrom(t, u)    == t # u /\ tb' = Upd(t, Compact(tb[u]))                       \* t = u (copy assignment / construction)
MoveFrom(t, u)    == t # u /\ tb' = [tb EXCEPT ![t] = tb[u], ![u] = <<>>]   \* t = move(u); storage is adopted as is
MergeCopy(t, u)   == t # u /\ \E s \in MaybeCompact(tb[t]) : tb' = Upd(t, MergeIn(s, tb[u]))
MergeMove(t, u)   == t # u /\ \E s \in MaybeCompact(tb[t]) : tb' = [tb EXCEPT ![t] = MergeIn(s, tb[u]), ![u] = <<>>]

Next == \E t \in Tables :
          \/ \E k \in Keys, v \in Vals : Insert(t, k, v)
          \/ \E k \in Keys : GetOrCreate(t, k) \/ Remove(t, k)
          \/ \E i \in 0..MaxSlots : RemoveIndex(t, i) \/ Resize(t, i)
          \/ \E a, b \in Keys : Rename(t, a, b)
          \/ Expect(t) \/ Compress(t) \/ Clear(t)
          \/ \E asc \in BOOLEAN : Sort(t, asc)
          \/ \E u \in Tables : CopyFrom(t, u) \/ MoveFrom(t, u) \/ MergeCopy(t, u) \/ MergeMove(t, u)

Spec == Init /\ [][Next]_tb

Bound == \A t \in Tables : Len(tb[t]) <= MaxSlots

\* ------------------------ what users rely on (C13) ----------------------
NoDupLiveKeys == \A t \in Tables : \A i, j \in LiveIdx(tb[t]) : tb[t][i].k = tb[t][j].k => i = j
DeadAreBlank  == \A t \in Tables : \A i \in 1..Len(tb[t]) : ~tb[t][i].live => tb[t][i] = Dead
TypeOK        == \A t \in Tables : \A i \in LiveIdx(tb[t]) : tb[t][i].k \in Keys /\ tb[t][i].v \in Vals \cup {0}

LiveKeys(s) == [i \in 1..Len(Compact(s)) |-> Compact(s)[i].k]
KeySet(s)   == {s[i].k : i \in LiveIdx(s)}
ValueOf(s, k) == s[Pos(s, k)].v
IsSubseq(a, b) == \* a is a subsequence of b (order preserved)
    \E f \in [1..Len(a) -> 1..Len(b)] : (\A i \in 1..Len(a) : a[i] = b[f[i]]) /\ (\A i, j \in 1..Len(a) : i < j => f[i] < f[j])

\* Action properties: order is first-insertion order; removal affects only its key;
\* the value seen for a key is the last one stored.
OrderStable ==       \* keys surviving a step keep their relative order, unless the step is a Sort
  [][\A t \in Tables :
       LET old == LiveKeys(tb[t])  new == LiveKeys(tb'[t])
           keep == {k \in Keys : HasKey(tb[t], k) /\ HasKey(tb'[t], k)}
           Restrict(sq) == SelectSeq(sq, LAMBDA k : k \in keep)
       IN  (Restrict(old) = Restrict(new))
           \/ (\E asc \in BOOLEAN : tb'[t] \in SortResults(tb[t], asc))
           \/ (\E a, b \in Keys : RenameOK(tb[t], a, b) /\ tb'[t] = [tb[t] EXCEPT ![Pos(tb[t], a)].k = b])
           \/ (\E u \in Tables : u # t /\ (tb'[t] = Compact(tb[u]) \/ tb'[t] = tb[u]))]_tb

NewKeysAtEnd ==      \* a key that appears in a step (not by rename/copy/move/sort) is placed after all old keys
  [][\A t \in Tables :
       LET old == LiveKeys(tb[t])  new == LiveKeys(tb'[t]) IN
       (\A i \in 1..Len(new) : (~HasKey(tb[t], new[i])) =>
            \A j \in 1..Len(new) : HasKey(tb[t], new[j]) => j < i)
       \/ (\E a, b \in Keys : RenameOK(tb[t], a, b) /\ tb'[t] = [tb[t] EXCEPT ![Pos(tb[t], a)].k = b])
       \/ (\E u \in Tables : u # t /\ (tb'[t] = Compact(tb[u]) \/ tb'[t] = tb[u]))
       \/ (\E asc \in BOOLEAN : tb'[t] \in SortResults(tb[t], asc))]_tb
=============================================================================
