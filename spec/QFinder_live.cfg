SPECIFICATION Spec
CONSTANTS Alphabet = {123, 125, 60, 47, 105, 102}
          MaxLen = 4
PROPERTIES CallReturns
CHECK_DEADLOCK FALSE
