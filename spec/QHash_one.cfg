SPECIFICATION Spec
CONSTANTS
  Keys = {1,2,3}
  Vals = {1,2}
  Tables = {1}
  MaxSlots = 4
CONSTRAINT Bound
INVARIANTS NoDupLiveKeys DeadAreBlank TypeOK
PROPERTIES OrderStable NewKeysAtEnd
CHECK_DEADLOCK FALSE
