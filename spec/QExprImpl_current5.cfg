SPECIFICATION Spec
CONSTANTS MaxOps = 5
          Variant = "current"
INVARIANTS Agree Consumes
CHECK_DEADLOCK FALSE
