----------------------------- MODULE QGroupImpl -----------------------------
(* Implementation specification (I) for C18: TLC builds EVERY array of up to *)
(* MaxRecs records over a universe of slot layouts (the grouping key first,  *)
(* in the middle or last; dead slots before / after it; group values that    *)
(* are prefixes of one another, empty, or coincide across kinds) and checks  *)
(* that the walk of Value::GroupBy over the representation (QGroupImplDefs)  *)
(* returns the groups of the specification (QValue.GroupBy) of the abstract  *)
(* array - and that the seeded / earlier variants do not.                    *)
EXTENDS QGroupImplDefs
CONSTANTS MaxRecs, Variant
VARIABLE arr
G == 1
GV == <<S(<<49>>), S(<<49, 48>>), S(<<>>), N("u64", 1), N("u64", 10), T, S(<<116>>)>>        \* "1" "10" "" 1 10 true "t"
Others == {<<>>, <<"A">>, <<"B">>, <<"R">>, <<"A", "B">>, <<"B", "A">>, <<"A", "R">>, <<"R", "A">>, <<"B", "R">>, <<"R", "B">>, <<"R", "R">>}
Mk(x) == CASE x = "A" -> Slot(2, N("u64", 7)) [] x = "B" -> Slot(4, S(<<120>>)) [] OTHER -> Dead
\* a record: the other slots with the grouping member inserted at position p
Rec(o, p, gi) == [i \in 1..(Len(o) + 1) |-> IF i < p THEN Mk(o[i]) ELSE IF i = p THEN Slot(G, GV[gi]) ELSE Mk(o[i - 1])]
GInit == arr = <<>> /\ doc = [r \in Roots |-> U]
GNext == Len(arr) < MaxRecs /\ UNCHANGED doc /\ \E o \in Others : \E p \in 1..(Len(o) + 1) : \E gi \in 1..Len(GV) : arr' = Append(arr, Rec(o, p, gi))
GSpec == GInit /\ [][GNext]_<<arr, doc>>

Agree == LET r == ImplGroupBy(arr, G, Variant) IN r.ok /\ r.groups = GroupBy(AbsArray(arr), G)          \* (also for the empty array)
\* the specification's own properties hold on every generated array
Partition == arr = <<>> \/ (Groupable(AbsArray(arr), G) /\ GroupPartition(AbsArray(arr), G))
=============================================================================
