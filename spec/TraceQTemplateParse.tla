-------------------------- MODULE TraceQTemplateParse --------------------------
(* code -> spec (E4): the states the real tag scanner reports through hook   *)
(* H2 (harness/h_template.cpp, mode `parse`) before every dispatched token   *)
(* validated against QTemplateParseImpl.  Every event carries the complete   *)
(* projected state (tag tree with kinds / closed flags / loop levels, the    *)
(* container stack, the current container, the innermost loop, is_child), so *)
(* a step is accepted only if the model has a transition for the token from  *)
(* the logged state to the state logged by the NEXT event.  A case that the  *)
(* model cannot follow is reported (MISMATCH) and skipped; the invariants of *)
(* QTemplateParseImpl are evaluated in every state of every recorded case.   *)
EXTENDS QTemplateParseImpl, Json, IOUtils, Integers
Tr == ndJsonDeserialize(IOEnv.TRACE)
VARIABLE l
tvars == <<conts, ps, cur, child, ltag, nid, bad, phase, n, hist, l>>

TokName(i) == CASE i = 1 -> "CLOSE" [] i = 2 -> "VAR" [] i = 3 -> "RAW" [] i = 4 -> "MATH" [] i = 5 -> "SVAR" [] i = 6 -> "IIF"
                [] i = 7 -> "LOOP" [] i = 8 -> "LOOPEND" [] i = 9 -> "IF" [] i = 10 -> "IFEND" [] i = 11 -> "ELSE"

\* ---- projection of the model state onto what the hook logs ----
RECURSIVE TreeOf(_, _)
TreeOf(cs, c) == [i \in 1..Len(cs[c]) |-> LET r == cs[c][i] IN
                [k |-> r.k, c |-> IF r.closed THEN 1 ELSE 0, lv |-> r.level, s |-> [j \in 1..Len(r.subs) |-> TreeOf(cs, r.subs[j])]]]
RECURSIVE ContPaths(_, _, _, _)
ContPaths(cs, c, prefix, fuel) == {<<c, prefix>>} \cup (IF fuel = 0 THEN {} ELSE
    UNION {UNION {ContPaths(cs, cs[c][i].subs[j], prefix \o <<i, j>>, fuel - 1) : j \in 1..Len(cs[c][i].subs)} : i \in 1..Len(cs[c])})
RECURSIVE RecPaths(_, _, _, _)
RecPaths(cs, c, prefix, fuel) == {<<cs[c][i].id, prefix \o <<i>>>> : i \in 1..Len(cs[c])} \cup (IF fuel = 0 THEN {} ELSE
    UNION {UNION {RecPaths(cs, cs[c][i].subs[j], prefix \o <<i, j>>, fuel - 1) : j \in 1..Len(cs[c][i].subs)} : i \in 1..Len(cs[c])})
PathOf(P, x) == IF \E p \in P : p[1] = x THEN (CHOOSE p \in P : p[1] = x)[2] ELSE <<-1>>
\* (the state is passed explicitly: TLC does not evaluate a primed operator application inside ENABLED)
MatchesS(e, cs, st, cu, lt, ch) == LET CP == ContPaths(cs, 1, <<>>, Fuel) IN
    /\ TreeOf(cs, 1) = e.tree
    /\ [i \in 1..Len(st) |-> PathOf(CP, st[i])] = e.ps
    /\ PathOf(CP, cu) = e.cur
    /\ (IF lt = 0 THEN <<>> ELSE PathOf(RecPaths(cs, 1, <<>>, Fuel), lt)) = e.lt
    /\ (IF ch THEN 1 ELSE 0) = e.ch
Matches(e) == MatchesS(e, conts, ps, cur, ltag, child)

Reset == /\ conts' = << <<>> >> /\ ps' = <<>> /\ cur' = 1 /\ child' = FALSE /\ ltag' = 0 /\ nid' = 1 /\ bad' = "" /\ phase' = "scan" /\ n' = 0 /\ hist' = <<>>
Ev == Tr[l]
LastOfCase == l = Len(Tr) \/ Tr[l + 1].i = 0
\* the step the event asks for, accepted when it leads to the state the next event logged
Good == /\ ~LastOfCase
        /\ \/ /\ Ev.tok \in 1..11 /\ Token(TokName(Ev.tok)) /\ UNCHANGED <<phase, n, hist>>
           \/ /\ Ev.tok = 0 /\ End
        /\ l' = l + 1
        /\ MatchesS(Tr[l + 1], conts', ps', cur', ltag', child')
\* next case: the index of the next event with i = 0
RECURSIVE NextCase(_)
NextCase(i) == IF i > Len(Tr) \/ Tr[i].i = 0 THEN i ELSE NextCase(i + 1)
TInit == /\ conts = << <<>> >> /\ ps = <<>> /\ cur = 1 /\ child = FALSE /\ ltag = 0 /\ nid = 1 /\ bad = "" /\ phase = "scan" /\ n = 0 /\ hist = <<>> /\ l = 1
TNext ==
  \/ /\ l <= Len(Tr)
     /\ IF LastOfCase
        THEN /\ (IF Ev.tok = 12 /\ Matches(Ev) THEN TRUE ELSE PrintT(<<IF Ev.tok = 12 THEN "MISMATCH" ELSE "TRUNCATED", Ev.c, Ev.i>>))   \* (a crash cuts the case short; the harness reports it)
             /\ Reset /\ l' = l + 1
        ELSE IF ~Matches(Ev) \/ ~ENABLED Good
        THEN /\ PrintT(<<"MISMATCH", Ev.c, Ev.i, IF Matches(Ev) THEN "no transition to the next logged state" ELSE "state differs from the logged state">>)
             /\ Reset /\ l' = NextCase(l + 1)
        ELSE Good
  \/ /\ l = Len(Tr) + 1 /\ UNCHANGED tvars
Accepted == l = Len(Tr) + 1 => PrintT(<<"TRACE-END", Len(Tr)>>)
=============================================================================
