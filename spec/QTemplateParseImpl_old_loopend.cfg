SPECIFICATION Spec
CONSTANTS MaxLen = 5
          Fuel = 7
          Variant = "loopend-any-kind"
INVARIANTS NoBad PsLive ChainLive AllClosedAtEnd LoopsEnclose LevelIsDepth
CHECK_DEADLOCK FALSE
VIEW View
