SPECIFICATION Spec
CONSTANTS
  B = 8
  MaxN = 31
  Pad = 8
INVARIANTS Exact NoStrayWrite ReadInBounds
PROPERTY Terminates
