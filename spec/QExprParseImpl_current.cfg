SPECIFICATION Spec
CONSTANTS
  MaxLen = 4
  WithOpening = TRUE
  Variant = "current"
INVARIANTS EvaluatorSafe StaysInside
CHECK_DEADLOCK FALSE
