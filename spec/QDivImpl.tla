------------------------------ MODULE QDivImpl ------------------------------
(* Implementation specification (I): DoubleSize<Number_T, 64>::Divide and    *)
(* ::Multiply (BigInt.hpp), the half-word algorithms that emulate a          *)
(* double-word divide / multiply, transcribed with the word width WB as a    *)
(* constant (all Number_T arithmetic wraps modulo 2^WB).  TLC checks, for    *)
(* every hi < d, lo, d (d # 0), that Divide returns the exact quotient       *)
(* (modulo 2^WB) and remainder of hi * 2^WB + lo, and that Multiply returns  *)
(* the exact double-word product.                                            *)
EXTENDS Integers, TLC
CONSTANT WB
RECURSIVE Pow2(_)
Pow2(n) == IF n = 0 THEN 1 ELSE 2 * Pow2(n - 1)
M == Pow2(WB)
H == WB \div 2
HM == Pow2(H)
Wrap(x) == x % M                 \* Number_T arithmetic (x >= 0)
SubW(a, c) == (a + M - c) % M    \* a - c on Number_T
RECURSIVE HighBit(_)
HighBit(a) == IF a < 2 THEN 0 ELSE 1 + HighBit(a \div 2)

\* one half-word step: returns [q, dh]
HalfStep(dh0, dlow, dhigh, dsh) ==
    LET q0  == dh0 \div dlow
        dh1 == dh0 % dlow
        rem0 == Wrap(q0 * dhigh)
        dh2 == Wrap(dh1 * HM)
    IN IF dh2 < rem0
       THEN LET q1 == SubW(q0, 1) IN
            IF SubW(rem0, dh2) > dsh
            THEN [q |-> SubW(q1, 1), dh |-> SubW(dh2, SubW(SubW(rem0, dsh), dsh))]
            ELSE [q |-> q1, dh |-> SubW(dh2, SubW(rem0, dsh))]
       ELSE [q |-> q0, dh |-> SubW(dh2, rem0)]

Divide(hi, lo, d) ==
    LET shift == (WB - 1) - HighBit(d)                       \* initial_shift
        carry == lo % d
        lo1   == lo \div d
        dsh   == Wrap(d * Pow2(shift))
        dlow  == dsh \div HM                                 \* (sic) the high half of the shifted divisor
        dhigh == dsh % HM
        dh0   == Wrap(hi * Pow2(shift))
        s1    == HalfStep(dh0, dlow, dhigh, dsh)
        lo2   == Wrap(lo1 + Wrap(s1.q * HM))
        s2    == HalfStep(s1.dh, dlow, dhigh, dsh)
        lo3   == Wrap(lo2 + s2.q)
        dh3   == s2.dh \div Pow2(shift)
        dh4   == Wrap(dh3 + carry)
        ovf   == dh3 > dh4
        dh5   == IF ovf THEN SubW(dh4, d) ELSE dh4           \* the repaired overflow branch: wrapped sum minus the divisor
        lo4   == IF ovf THEN Wrap(lo3 + 1) ELSE lo3
    IN IF dh5 >= d THEN [rem |-> SubW(dh5, d), q |-> Wrap(lo4 + 1)] ELSE [rem |-> dh5, q |-> lo4]

Multiply(n, m) ==
    LET nlow == n % HM
        nhigh0 == n \div HM
        mlow0 == m % HM
        num0 == Wrap(nlow * mlow0)
        mlow1 == Wrap(Wrap(mlow0 * nhigh0) + (num0 \div HM))
        num1 == num0 % HM
        mhigh == m \div HM
        nhigh1 == Wrap(Wrap(nhigh0 * mhigh) + (mlow1 \div HM))
        mlow2 == Wrap((mlow1 % HM) + Wrap(nlow * mhigh))
        num2 == num1 + Wrap((mlow2 % HM) * HM)               \* number |= (multiplier_low << shift_)
        nhigh2 == Wrap(nhigh1 + (mlow2 \div HM))
    IN [lo |-> num2, hi |-> nhigh2]

VARIABLES hi, lo, d
Init == d \in 1..(M - 1) /\ lo = 0 /\ hi = 0
Next == \/ /\ lo < M - 1 /\ lo' = lo + 1 /\ UNCHANGED <<hi, d>>
        \/ /\ lo = 0 /\ hi < d - 1 /\ hi' = hi + 1 /\ UNCHANGED <<lo, d>>
\* (states are enumerated as (d, hi, 0) -> (d, hi, lo) so that TLC's workers share the grid)
DivExact == LET V == hi * M + lo  r == Divide(hi, lo, d) IN r.rem = V % d /\ r.q = (V \div d) % M
MulExact == LET r == Multiply(lo, d) IN r.hi * M + r.lo = lo * d
=============================================================================
