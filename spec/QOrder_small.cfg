INIT Init
NEXT Next
CONSTANTS
  Alphabet = {1,2,3}
  MaxLen = 3
INVARIANTS Trichotomy Irreflexive Transitive PrefixFirst UnionLaws FirstDiffDecides
CHECK_DEADLOCK FALSE
