SPECIFICATION Spec
CONSTANT MaxLen = 6
INVARIANTS NoBad OwnerOnTop LoopTagLive AllClosedAtEnd
CHECK_DEADLOCK FALSE
