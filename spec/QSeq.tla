-------------------------------- MODULE QSeq --------------------------------
(* Property specification (P) for C14: Array, String, StringStream and      *)
(* StringView are plain sequences.  Two objects of one container kind;      *)
(* capacity is not part of the abstract state.  Ops selects the operations  *)
(* the container kind offers.  Items are naturals; for strings item WS is   *)
(* the white-space unit removed by Trim; 0 is the default-constructed item. *)
EXTENDS Naturals, Sequences, FiniteSets, TLC
CONSTANTS Items, Objs, MaxLen, Ops, WS

VARIABLE obj        \* obj[o] \in Seq(Items \cup {0})

Init == obj = [o \in Objs |-> <<>>]
Upd(o, s) == [obj EXCEPT ![o] = s]
Min(a, b) == IF a < b THEN a ELSE b
Zeros(n) == [i \in 1..n |-> 0]
Rev(s) == [i \in 1..Len(s) |-> s[Len(s) + 1 - i]]
RECURSIVE TrimL(_)
TrimL(s) == IF s # <<>> /\ Head(s) = WS THEN TrimL(Tail(s)) ELSE s
TrimBoth(s) == Rev(TrimL(Rev(TrimL(s))))
IsPrefix(a, b) == Len(a) <= Len(b) /\ SubSeq(b, 1, Len(a)) = a

On(op) == op \in Ops

Copy(o, u)        == On("Copy") /\ o # u /\ obj' = Upd(o, obj[u])
SelfCopy(o)       == On("Copy") /\ obj' = obj                                   \* o = o
Move(o, u)        == On("Move") /\ o # u /\ obj' = [obj EXCEPT ![o] = obj[u], ![u] = <<>>]
AppendItem(o, x)  == On("AppendItem") /\ obj' = Upd(o, Append(obj[o], x))
AppendSeq(o, u)   == On("AppendSeq") /\ obj' = Upd(o, obj[o] \o obj[u])        \* u = o: self append
AppendMove(o, u)  == On("AppendMove") /\ o # u /\ obj' = [obj EXCEPT ![o] = obj[o] \o obj[u], ![u] = <<>>]
Clear(o)          == On("Clear") /\ obj' = Upd(o, <<>>)                        \* Clear / Reset / Reserve(n) / Detach
ReserveInit(o, n) == On("ReserveInit") /\ obj' = Upd(o, Zeros(n))
Resize(o, n)      == On("Resize") /\ obj' = Upd(o, SubSeq(obj[o], 1, Min(n, Len(obj[o]))))
ResizeInit(o, n)  == On("ResizeInit") /\ obj' = Upd(o, SubSeq(obj[o], 1, Min(n, Len(obj[o]))) \o Zeros(n - Min(n, Len(obj[o]))))
Keep(o)           == On("Keep") /\ obj' = obj                                   \* Expect / Compress / InsertNull: capacity only
Drop(o, n)        == On("Drop") /\ obj' = Upd(o, IF n <= Len(obj[o]) THEN SubSeq(obj[o], 1, Len(obj[o]) - n) ELSE obj[o])
Reverse(o, i)     == On("Reverse") /\ obj' = Upd(o, IF i < Len(obj[o]) THEN SubSeq(obj[o], 1, i) \o Rev(SubSeq(obj[o], i + 1, Len(obj[o]))) ELSE obj[o])
InsertAt(o, x, i) == On("InsertAt") /\ obj' = Upd(o, IF i < Len(obj[o]) THEN SubSeq(obj[o], 1, i) \o <<x>> \o SubSeq(obj[o], i + 1, Len(obj[o])) ELSE obj[o])
Trim(o, u)        == On("Trim") /\ o # u /\ obj' = Upd(o, TrimBoth(obj[u]))      \* o = String::Trim(u)
Plus(o, u)        == On("Plus") /\ obj' = Upd(o, obj[o] \o obj[u])               \* o = o + u (new object)
SetLength(o, n)   == On("SetLength") /\ n <= Len(obj[o]) /\ obj' = Upd(o, SubSeq(obj[o], 1, n))
Buffer(o, n, x)   == On("Buffer") /\ obj' = Upd(o, obj[o] \o [i \in 1..n |-> x])  \* window of n units handed out and filled with x
Lit(n) == CASE n = 0 -> <<>> [] n = 1 -> <<1>> [] n = 2 -> <<2, 1>> [] OTHER -> <<WS, 1, WS>>
Assign(o, n)      == On("Assign") /\ obj' = Upd(o, Lit(n))                        \* o = literal / view bound to a literal
GetString(o)      == On("GetString") /\ obj' = Upd(o, <<>>)                      \* content returned (compared by the harness), stream empty

Next == \E o \in Objs :
          \/ \E u \in Objs : Copy(o, u) \/ Move(o, u) \/ AppendSeq(o, u) \/ AppendMove(o, u) \/ Trim(o, u) \/ Plus(o, u)
          \/ SelfCopy(o)
          \/ \E x \in Items : AppendItem(o, x)
          \/ Clear(o) \/ Keep(o) \/ GetString(o)
          \/ \E n \in 0..MaxLen : ReserveInit(o, n) \/ Resize(o, n) \/ ResizeInit(o, n) \/ Drop(o, n) \/ Reverse(o, n) \/ SetLength(o, n)
          \/ \E n \in 0..MaxLen, x \in Items : InsertAt(o, x, n)
          \/ \E n \in 0..2, x \in Items : Buffer(o, n, x)
          \/ \E n \in 0..3 : Assign(o, n)
Spec == Init /\ [][Next]_obj
Bound == \A o \in Objs : Len(obj[o]) <= MaxLen

\* ----------------------------- what users rely on -------------------------
TypeOK == \A o \in Objs : \A i \in 1..Len(obj[o]) : obj[o][i] \in Items \cup {0}
\* appends never disturb earlier elements
AppendsKeepPrefix == [][\A o \in Objs : (Len(obj'[o]) > Len(obj[o]) /\ ~On("InsertAt") /\ ~On("Copy") /\ ~On("Move") /\ ~On("Trim") /\ ~On("ReserveInit") /\ ~On("Assign")) => IsPrefix(obj[o], obj'[o])]_obj
\* a step changes at most the target and (for moves) the emptied source
OthersUntouched == [][\A o, u \in Objs : (o # u /\ obj'[o] # obj[o] /\ obj'[u] # obj[u]) => (obj'[o] = <<>> \/ obj'[u] = <<>>)]_obj
=============================================================================
