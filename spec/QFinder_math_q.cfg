SPECIFICATION Spec
CONSTANTS Alphabet = {123,109,97,116,104,58,114,119}
          MaxLen = 6
INVARIANTS InBounds Agrees
PROPERTIES BackOnlyToStart
CHECK_DEADLOCK FALSE
