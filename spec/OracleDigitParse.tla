--------------------------- MODULE OracleDigitParse ---------------------------
(* code -> spec batch oracle (E5) for C09: {s (text units), cls, consumed, bits (8 bytes, little endian)} *)
EXTENDS QDigitParse, Json, IOUtils
Tr == ndJsonDeserialize(IOEnv.TRACE)
VARIABLE l
EventOK(e) == Judge(e.s, e.cls, e.consumed, e.bits)
\* a rejected numeral whose value is so small that zero is an admissible result (classified separately: known finding)
TinyRejected(e) == LET sc == Scan(e.s) IN
                   /\ e.cls = 0 /\ sc.ok /\ sc.eabs <= 100000
                   /\ LET D == FromDigits(sc.ids \o sc.fds)  k == (IF sc.eneg THEN 0 - sc.eabs ELSE sc.eabs) - Len(sc.fds) IN
                      D # <<>> /\ k < 0 /\ Within(D, k, <<>>, -1074)
NB == 64
BSize == (Len(Tr) + NB - 1) \div NB
OInit == l = 0
ONext == \/ l = 0 /\ l' \in {0 - b : b \in 1..NB}
         \/ l < 0 /\ l' \in {i \in (((0 - l) - 1) * BSize + 1)..((0 - l) * BSize) : i <= Len(Tr)}
Check == l <= 0 \/ EventOK(Tr[l]) \/ (IF TinyRejected(Tr[l]) THEN PrintT(<<"UNDERFLOW", l>>) ELSE PrintT(<<"MISMATCH", l>>))
=============================================================================
