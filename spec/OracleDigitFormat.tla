-------------------------- MODULE OracleDigitFormat --------------------------
(* code -> spec batch oracle (E5) for C10 / C11.                              *)
(*  {kind, bits, fmt, p, out, prefix, wsame}: Digit::NumberToString of the     *)
(*      value (bits = its bytes) in format fmt (g / f / s) with precision p    *)
(*      appended `out` to a non-empty stream (prefix = 1: the stream's old     *)
(*      content is intact; wsame = 1: a wider character type gave the same).   *)
(*  {bits, text, cls, consumed, raw, back, same} (C11): format(17) then parse. *)
EXTENDS QDigitFormat, QDigitParse, Json, IOUtils
Tr == ndJsonDeserialize(IOEnv.TRACE)
VARIABLE l
IsReal(k) == k \in {"f64", "f32", "f16"}
Expected(e) == IF IsReal(e.kind) THEN RealText(e.kind, e.bits, e.fmt, e.p) ELSE IntText(e.kind, e.bits)
FormatOK(e) == e.out = Expected(e) /\ e.prefix = 1 /\ e.wsame = 1
\* C11: the text is the correctly rounded 17-digit general format of the value (so a correct parser must return it),
\* the parser's result is admissible for that text, and the bits came back unchanged
RoundTripOK(e) == e.same = 1 /\ e.back = e.bits
\* explanation of a recorded round trip by the two specifications (evidence / attribution, not the verdict):
TextIsReference(e) == e.text = RealText("f64", e.bits, "g", 17)        \* C10: then a correct parser must return the value
ParseAdmissible(e) == Judge(e.text, e.cls, e.consumed, e.raw)           \* C09
\* ---- classes of the recorded (not repaired) formatter defects, identified by the oracle itself
\*  P0     real number formatted with precision 0 (every format is wrong there)
\*  ROUND  the text is the reference text with the cut rounded in the other direction (lost sticky bit / ties forced up)
\*  ZEROS  the non-zero digits are right but zeros of the integer part were lost / the point is missing, for a value whose integer part
\*         has more digits than the library's estimate (LibDigits: the digits of 2^exponent) - the recorded mechanism, nothing wider
Skeleton(t) == SelectSeq(t, LAMBDA c : c # 48 /\ c # 46)          \* the text without zeros and point
RECURSIVE IntDigitsFrom(_, _)
IntDigitsFrom(t, i) == IF i > Len(t) \/ t[i] = 46 THEN 0 ELSE (IF t[i] >= 48 /\ t[i] <= 57 THEN 1 ELSE 0) + IntDigitsFrom(t, i + 1)
IntDigits(t) == IntDigitsFrom(t, 1)                              \* digits before the point
NoExp(t) == \A i \in 1..Len(t) : t[i] # 101
DefectClass(e) ==
    IF ~IsReal(e.kind) THEN "MISMATCH"
    ELSE IF e.p = 0 THEN "P0"                  \* (reads / writes beside the digit buffer: the text, and whether the widths agree, vary from run to run)
    ELSE IF e.prefix # 1 \/ e.wsame # 1 THEN "MISMATCH"
    ELSE IF e.out = RealTextLib(e.kind, e.bits, e.fmt, e.p) THEN "ROUND"          \* exactly the recorded flag defect (QDigitFormat.LibSticky), nothing wider
    ELSE IF e.out \in {RealTextM(e.kind, e.bits, e.fmt, e.p, "up"), RealTextM(e.kind, e.bits, e.fmt, e.p, "down")} THEN "ROUNDX"   \* another wrong direction: reported
    ELSE IF NoExp(e.out) /\ NoExp(Expected(e)) /\ e.out # <<>> /\ Skeleton(e.out) = Skeleton(Expected(e)) /\ IntDigits(Expected(e)) > LibDigits(e.kind, e.bits) THEN "ZEROS"
    ELSE "MISMATCH"
EventOK(e) == IF "text" \in DOMAIN e THEN RoundTripOK(e) ELSE FormatOK(e)
\* which side breaks a failing round trip (reported, not decided here)
NB == 64
BSize == (Len(Tr) + NB - 1) \div NB
OInit == l = 0
ONext == \/ l = 0 /\ l' \in {0 - b : b \in 1..NB}
         \/ l < 0 /\ l' \in {i \in (((0 - l) - 1) * BSize + 1)..((0 - l) * BSize) : i <= Len(Tr)}
Check == \/ l <= 0
         \/ /\ "text" \in DOMAIN Tr[l]
            /\ (RoundTripOK(Tr[l]) \/ PrintT(<<"MISMATCH", l, <<>>>>))
            /\ (TextIsReference(Tr[l]) \/ PrintT(<<"NOTREF", l, RealText("f64", Tr[l].bits, "g", 17)>>))
            /\ (ParseAdmissible(Tr[l]) \/ PrintT(<<"NOTADM", l, <<>>>>))
         \/ /\ "text" \notin DOMAIN Tr[l]
            /\ (EventOK(Tr[l]) \/ PrintT(<<DefectClass(Tr[l]), l, Expected(Tr[l])>>))
=============================================================================
