SPECIFICATION Spec
CONSTANT Variant = "bmp-inclusive"
INVARIANT Agree
CHECK_DEADLOCK FALSE
