------------------------------- MODULE QValue -------------------------------
(* Property specification (P) for C12 / C18: a Value is an abstract JSON     *)
(* document.  Documents are TLA+ values:                                     *)
(*   U (undefined), Z (null), T, F, N(kind, m) numbers of the closed domain  *)
(*   (kind u64 / i64 / real; reals are m/2), S(units) strings,               *)
(*   A(elems) arrays (may contain U), O(members) objects = sequences of      *)
(*   live [k, v] in first-insertion order.  Removed slots of an object are   *)
(*   not part of the contract; the flag `dirty` only records that positional *)
(*   (slot) access is currently outside the contract (until Compress/copy).  *)
(* A path is a sequence of steps: k >= 1 is the key step "key k",            *)
(* i <= -1 is the index step (-i - 1).  Writes auto-vivify along the path.   *)
EXTENDS Integers, Sequences, FiniteSets, TLC

CONSTANTS Roots,        \* e.g. {1, 2}
          PathTable,    \* sequence of paths usable in actions (labels carry the index)
          ValTable,     \* sequence of literal documents usable as right-hand sides
          MaxSize       \* bound on array / object sizes (state constraint)

VARIABLE doc            \* doc[r] for r \in Roots

U == [t |-> "U"]
Z == [t |-> "Z"]
T == [t |-> "T"]
F == [t |-> "F"]
N(k, m) == [t |-> "N", k |-> k, m |-> m]
S(s) == [t |-> "S", s |-> s]
A(e) == [t |-> "A", e |-> e]
O(m) == [t |-> "O", m |-> m, dirty |-> FALSE]
EmptyObj == O(<<>>)
EmptyArr == A(<<>>)
IsO(d) == d.t = "O"
IsA(d) == d.t = "A"
IsU(d) == d.t = "U"
Us(n) == [i \in 1..n |-> U]

\* ---- objects as ordered maps ------------------------------------------------
KeyPos(m, k) == {i \in 1..Len(m) : m[i].k = k}
HasKey(m, k) == KeyPos(m, k) # {}
PosOf(m, k) == CHOOSE i \in KeyPos(m, k) : TRUE
PutKey(m, k, v) == IF HasKey(m, k) THEN [m EXCEPT ![PosOf(m, k)].v = v] ELSE Append(m, [k |-> k, v |-> v])
DelAt(m, i) == SubSeq(m, 1, i - 1) \o SubSeq(m, i + 1, Len(m))
RECURSIVE MergeMembers(_, _)
MergeMembers(m, o) == IF o = <<>> THEN m ELSE MergeMembers(PutKey(m, Head(o).k, Head(o).v), Tail(o))

\* ---- reading (no vivification): "none" when the path does not resolve to a defined value
NONE == [t |-> "none"]
StepGet(d, st) ==
    IF d.t = "none" THEN NONE
    ELSE IF st >= 1 THEN (IF IsO(d) /\ HasKey(d.m, st) THEN d.m[PosOf(d.m, st)].v ELSE NONE)
    ELSE LET i == (0 - st) IN       \* 1-based position
         IF IsA(d) /\ i <= Len(d.e) THEN d.e[i]
         ELSE IF IsO(d) /\ ~d.dirty /\ i <= Len(d.m) THEN d.m[i].v
         ELSE NONE
RECURSIVE Lookup(_, _)
Lookup(d, p) == IF p = <<>> THEN d ELSE Lookup(StepGet(d, Head(p)), Tail(p))
Defined(d) == IF d.t = "none" \/ d.t = "U" THEN NONE ELSE d     \* GetValue() hides Undefined

\* positional access into an object with removed entries is outside the contract
RECURSIVE PathInContract(_, _)
PathInContract(d, p) ==
    IF p = <<>> \/ d.t = "none" THEN TRUE
    ELSE /\ (Head(p) <= -1 /\ IsO(d)) => ~d.dirty
         /\ PathInContract(StepGet(d, Head(p)), Tail(p))

\* ---- writing: vivify one step, returning the container that holds the slot
VivStep(d, st) ==
    IF st >= 1
    THEN LET o == IF IsO(d) THEN d ELSE EmptyObj IN
         IF HasKey(o.m, st) THEN o ELSE [o EXCEPT !.m = Append(@, [k |-> st, v |-> U])]
    ELSE LET i == (0 - st) IN
         IF IsA(d) THEN (IF i <= Len(d.e) THEN d ELSE A(d.e \o Us(i - Len(d.e))))
         ELSE IF IsO(d) /\ i <= Len(d.m) THEN d
         ELSE A(Us(i))
\* replace the child addressed by st (which exists after VivStep)
SetChild(d, st, c) ==
    IF st >= 1 THEN [d EXCEPT !.m[PosOf(d.m, st)].v = c]
    ELSE LET i == (0 - st) IN IF IsA(d) THEN [d EXCEPT !.e[i] = c] ELSE [d EXCEPT !.m[i].v = c]
RECURSIVE WriteAt(_, _, _, _)
\* apply the update kind `op` with argument x at path p inside d (vivifying along p)
ApplyOp(d, op, x) ==
    CASE op = "assign" -> x
      [] op = "appendval" ->                              \* v += Value
           IF IsO(d) /\ IsO(x) THEN [d EXCEPT !.m = MergeMembers(@, x.m)]
           ELSE IF IsA(d) THEN A(Append(d.e, x)) ELSE A(<<x>>)
      [] op = "appendarr" ->                              \* v += ArrayT (x is an array)
           LET base == IF IsA(d) THEN d.e ELSE <<>> IN
           IF Len(x.e) # 0 THEN A(base \o x.e) ELSE A(Append(base, x))
      [] op = "merge" ->
           LET d1 == IF IsU(d) THEN EmptyArr ELSE d IN
           IF IsA(d1) /\ IsA(x) THEN A(d1.e \o SelectSeq(x.e, LAMBDA y : ~IsU(y)))
           ELSE IF IsO(d1) /\ IsO(x) THEN [d1 EXCEPT !.m = MergeMembers(@, x.m)]
           ELSE d1
      [] op = "remove" ->                                 \* x = key
           IF IsO(d) /\ HasKey(d.m, x) THEN [d EXCEPT !.m = DelAt(@, PosOf(d.m, x)), !.dirty = TRUE] ELSE d
      [] op = "removeindex" ->                            \* x = 0-based index
           IF IsO(d) THEN (IF x + 1 <= Len(d.m) THEN [d EXCEPT !.m = DelAt(@, x + 1), !.dirty = TRUE] ELSE d)
           ELSE IF IsA(d) /\ x + 1 <= Len(d.e) THEN [d EXCEPT !.e[x + 1] = U]
           ELSE d
      [] op = "reset" -> U
WriteAt(d, p, op, x) ==
    IF p = <<>> THEN ApplyOp(d, op, x)
    ELSE LET c == VivStep(d, Head(p)) IN
         SetChild(c, Head(p), WriteAt(StepGet(c, Head(p)), Tail(p), op, x))

RECURSIVE CompressDoc(_)
RECURSIVE CompressSeq(_)
RECURSIVE CompressMembers(_)
CompressSeq(e) == IF e = <<>> THEN <<>> ELSE IF IsU(Head(e)) THEN CompressSeq(Tail(e)) ELSE <<CompressDoc(Head(e))>> \o CompressSeq(Tail(e))
CompressMembers(m) == IF m = <<>> THEN <<>> ELSE <<[k |-> Head(m).k, v |-> CompressDoc(Head(m).v)]>> \o CompressMembers(Tail(m))
CompressDoc(d) == IF IsA(d) THEN A(CompressSeq(d.e))
                  ELSE IF IsO(d) THEN O(CompressMembers(d.m))       \* members whose value is U stay; dirty is cleared
                  ELSE d
\* a deep copy drops removed slots everywhere (dirty cleared)
RECURSIVE CopyDoc(_)
RECURSIVE CopyMembers(_)
RECURSIVE CopySeq(_)
CopySeq(e) == IF e = <<>> THEN <<>> ELSE <<CopyDoc(Head(e))>> \o CopySeq(Tail(e))
CopyMembers(m) == IF m = <<>> THEN <<>> ELSE <<[k |-> Head(m).k, v |-> CopyDoc(Head(m).v)]>> \o CopyMembers(Tail(m))
CopyDoc(d) == IF IsA(d) THEN A(CopySeq(d.e)) ELSE IF IsO(d) THEN O(CopyMembers(d.m)) ELSE d

\* ---- numeric / boolean coercions of scalars (typed getters) --------------------------
\* strings of the closed domain that are entirely a numeral, with their exact value
StrNum(s) == CASE s = <<49, 50>> -> [ok |-> TRUE, k |-> "u64", m |-> 12]             \* "12"
               [] s = <<45, 51>> -> [ok |-> TRUE, k |-> "i64", m |-> -3]             \* "-3"
               [] s = <<50, 46, 53>> -> [ok |-> TRUE, k |-> "real", m |-> 5]        \* "2.5"  (m = twice the value)
               [] s = <<49, 101, 50>> -> [ok |-> TRUE, k |-> "any", m |-> 200]      \* "1e2" = 100, class left open
               [] OTHER -> [ok |-> FALSE, k |-> "nan", m |-> 0]
NumOf(d) == CASE d.t = "N" -> [ok |-> TRUE, k |-> d.k, m |-> d.m]
              [] d.t = "T" -> [ok |-> TRUE, k |-> "u64", m |-> 1]
              [] d.t \in {"F", "Z"} -> [ok |-> TRUE, k |-> "u64", m |-> 0]
              [] d.t = "S" -> StrNum(d.s)
              [] OTHER -> [ok |-> FALSE, k |-> "nan", m |-> 0]
Twice(n) == IF n.k \in {"real", "any"} THEN n.m ELSE 2 * n.m                      \* twice the numeric value
TruncHalf(x) == IF x >= 0 THEN x \div 2 ELSE 0 - ((0 - x) \div 2)                 \* truncation toward zero of x/2
GetInt(d) == LET n == NumOf(d) IN IF n.ok THEN TruncHalf(Twice(n)) ELSE 0
GetDouble2(d) == LET n == NumOf(d) IN IF n.ok THEN Twice(n) ELSE 0
NumKind(d) == LET n == NumOf(d) IN IF ~n.ok THEN {0} ELSE IF n.k = "real" THEN {1} ELSE IF n.k = "u64" THEN {2} ELSE IF n.k = "i64" THEN {3} ELSE {1, 2}
BoolOf(d) == CASE d.t = "T" -> 1 [] d.t \in {"F", "Z"} -> 0
               [] d.t = "N" -> IF d.m > 0 THEN 1 ELSE 0
               [] d.t = "S" -> IF d.s = <<116, 114, 117, 101>> THEN 1 ELSE IF d.s = <<102, 97, 108, 115, 101>> THEN 0 ELSE -1
               [] OTHER -> -1

\* ---- logged documents carry no dirty flag
RECURSIVE Strip(_)
Strip(d) == IF d.t = "A" THEN [t |-> "A", e |-> [i \in 1..Len(d.e) |-> Strip(d.e[i])]]
            ELSE IF d.t = "O" THEN [t |-> "O", m |-> [i \in 1..Len(d.m) |-> [k |-> d.m[i].k, v |-> Strip(d.m[i].v)]]]
            ELSE d
RECURSIVE Unstrip(_)
Unstrip(d) == IF d.t = "A" THEN A([i \in 1..Len(d.e) |-> Unstrip(d.e[i])])
              ELSE IF d.t = "O" THEN O([i \in 1..Len(d.m) |-> [k |-> d.m[i].k, v |-> Unstrip(d.m[i].v)]])
              ELSE d

\* ---- GroupBy (C18): partition an array of objects by the textual value of key g
RECURSIVE Digits(_)
Digits(n) == IF n < 10 THEN <<48 + n>> ELSE Digits(n \div 10) \o <<48 + (n % 10)>>
DecText(m) == IF m < 0 THEN <<45>> \o Digits(0 - m) ELSE Digits(m)
TextOf(v) == CASE v.t = "S" -> v.s
               [] v.t = "T" -> <<116, 114, 117, 101>>
               [] v.t = "F" -> <<102, 97, 108, 115, 101>>
               [] v.t = "Z" -> <<110, 117, 108, 108>>
               [] v.t = "N" -> DecText(v.m)                  \* integers only (reals are not generated as group values)
               [] OTHER -> <<"none">>
Groupable(arr, g) == /\ IsA(arr)
                     /\ \A i \in 1..Len(arr.e) : IsO(arr.e[i]) /\ HasKey(arr.e[i].m, g)
                                                   /\ arr.e[i].m[PosOf(arr.e[i].m, g)].v.t \in {"S", "T", "F", "Z", "N"}
Without(m, g) == SelectSeq(m, LAMBDA x : x.k # g /\ ~IsU(x.v))
GroupText(o, g) == TextOf(o.m[PosOf(o.m, g)].v)
RECURSIVE GroupFrom(_, _, _)
\* result: sequence of [name, items] in order of first appearance
GroupFrom(e, g, acc) ==
    IF e = <<>> THEN acc
    ELSE LET name == GroupText(Head(e), g)
             item == O(Without(Head(e).m, g))
             pos  == {i \in 1..Len(acc) : acc[i].name = name}
         IN GroupFrom(Tail(e), g,
                      IF pos = {} THEN Append(acc, [name |-> name, items |-> <<item>>])
                      ELSE LET i == CHOOSE x \in pos : TRUE IN [acc EXCEPT ![i].items = Append(@, item)])
GroupBy(arr, g) == GroupFrom(arr.e, g, <<>>)
\* the partition property of the specification itself
RECURSIVE SumItems(_, _)
SumItems(gr, i) == IF i = 0 THEN 0 ELSE Len(gr[i].items) + SumItems(gr, i - 1)
GroupPartition(arr, g) ==
    LET gr == GroupBy(arr, g) IN
    /\ \A i, j \in 1..Len(gr) : gr[i].name = gr[j].name => i = j
    /\ SumItems(gr, Len(gr)) = Len(arr.e)
    /\ \A i \in 1..Len(gr) : \A j \in 1..Len(gr[i].items) : ~HasKey(gr[i].items[j].m, g)

\* ---- tables used by the exhaustive configurations (labels carry indices into them)
PT_small == << <<>>, <<1>>, <<-1>>, <<2, -2>> >>
PT_mid   == << <<>>, <<1>>, <<2>>, <<-1>>, <<-2>>, <<1, 2>>, <<1, -1>>, <<-1, 1>>, <<-2, -1>> >>
VT_small == << N("u64", 1), S(<<97>>), EmptyObj, EmptyArr >>
VT_mid   == << N("u64", 1), N("i64", -2), N("real", 5), S(<<97>>), S(<<>>), T, F, Z, EmptyObj, EmptyArr, U >>

\* ------------------------------- actions ------------------------------------
Init == doc = [r \in Roots |-> U]
Path(pi) == PathTable[pi]
Val(vi) == ValTable[vi]
Ok(r, pi) == PathInContract(doc[r], Path(pi))

Assign(r, pi, vi)     == Ok(r, pi) /\ doc' = [doc EXCEPT ![r] = WriteAt(doc[r], Path(pi), "assign", Val(vi))]
AssignCopy(r, pi, u)  == Ok(r, pi) /\ r # u /\ doc' = [doc EXCEPT ![r] = WriteAt(doc[r], Path(pi), "assign", CopyDoc(doc[u]))]
AssignMove(r, pi, u)  == Ok(r, pi) /\ r # u /\ doc' = [doc EXCEPT ![r] = WriteAt(doc[r], Path(pi), "assign", doc[u]), ![u] = U]
AppendVal(r, pi, vi)  == Ok(r, pi) /\ doc' = [doc EXCEPT ![r] = WriteAt(doc[r], Path(pi), "appendval", Val(vi))]
AppendCopy(r, pi, u)  == Ok(r, pi) /\ r # u /\ doc' = [doc EXCEPT ![r] = WriteAt(doc[r], Path(pi), "appendval", CopyDoc(doc[u]))]
AppendArr(r, pi, u)   == Ok(r, pi) /\ r # u /\ IsA(doc[u]) /\ doc' = [doc EXCEPT ![r] = WriteAt(doc[r], Path(pi), "appendarr", CopyDoc(doc[u]))]
MergeCopy(r, pi, u)   == Ok(r, pi) /\ r # u /\ doc' = [doc EXCEPT ![r] = WriteAt(doc[r], Path(pi), "merge", CopyDoc(doc[u]))]
MergeMove(r, pi, u)   == Ok(r, pi) /\ r # u /\ doc' = [doc EXCEPT ![r] = WriteAt(doc[r], Path(pi), "merge", doc[u]), ![u] = U]
\* the operations below act on an existing value only (no vivification)
Exists(r, pi) == Ok(r, pi) /\ Lookup(doc[r], Path(pi)).t # "none"
Remove(r, pi, k)      == Exists(r, pi) /\ doc' = [doc EXCEPT ![r] = WriteAt(doc[r], Path(pi), "remove", k)]
RemoveIndex(r, pi, i) == Exists(r, pi) /\ (IsO(Lookup(doc[r], Path(pi))) => ~Lookup(doc[r], Path(pi)).dirty)
                         /\ doc' = [doc EXCEPT ![r] = WriteAt(doc[r], Path(pi), "removeindex", i)]
Reset(r, pi)          == Exists(r, pi) /\ doc' = [doc EXCEPT ![r] = WriteAt(doc[r], Path(pi), "reset", 0)]
Compress(r)           == doc' = [doc EXCEPT ![r] = CompressDoc(doc[r])]

Next == \E r \in Roots, pi \in 1..Len(PathTable) :
          \/ \E vi \in 1..Len(ValTable) : Assign(r, pi, vi) \/ AppendVal(r, pi, vi)
          \/ \E u \in Roots : AssignCopy(r, pi, u) \/ AssignMove(r, pi, u) \/ AppendCopy(r, pi, u) \/ AppendArr(r, pi, u)
                              \/ MergeCopy(r, pi, u) \/ MergeMove(r, pi, u)
          \/ \E k \in 1..2 : Remove(r, pi, k)
          \/ \E i \in 0..1 : RemoveIndex(r, pi, i)
          \/ Reset(r, pi)
          \/ (pi = 1 /\ Compress(r))
Spec == Init /\ [][Next]_doc

RECURSIVE SizeOK(_)
SizeOK(d) == IF IsA(d) THEN Len(d.e) <= MaxSize /\ \A i \in 1..Len(d.e) : SizeOK(d.e[i])
             ELSE IF IsO(d) THEN Len(d.m) <= MaxSize /\ \A i \in 1..Len(d.m) : SizeOK(d.m[i].v)
             ELSE TRUE
RECURSIVE Depth(_)
Max2(a, b) == IF a > b THEN a ELSE b
RECURSIVE MaxOver(_, _)
MaxOver(s, i) == IF i = 0 THEN 0 ELSE Max2(s[i], MaxOver(s, i - 1))
Depth(d) == IF IsA(d) THEN 1 + MaxOver([i \in 1..Len(d.e) |-> Depth(d.e[i])], Len(d.e))
            ELSE IF IsO(d) THEN 1 + MaxOver([i \in 1..Len(d.m) |-> Depth(d.m[i].v)], Len(d.m))
            ELSE 0
RECURSIVE Weight(_)
RECURSIVE SumW(_, _)
SumW(s, i) == IF i = 0 THEN 0 ELSE s[i] + SumW(s, i - 1)
Weight(d) == IF IsA(d) THEN 1 + SumW([i \in 1..Len(d.e) |-> Weight(d.e[i])], Len(d.e))
             ELSE IF IsO(d) THEN 1 + SumW([i \in 1..Len(d.m) |-> Weight(d.m[i].v)], Len(d.m))
             ELSE 1
Bound == \A r \in Roots : SizeOK(doc[r]) /\ Depth(doc[r]) <= 2
\* asymmetric bound for graph export: root 1 is the subject (<= MaxWeight nodes), the other roots are small operands
CONSTANT MaxWeight
BoundW == /\ SizeOK(doc[1]) /\ Depth(doc[1]) <= 2 /\ Weight(doc[1]) <= MaxWeight
          /\ \A r \in Roots \ {1} : Weight(doc[r]) <= 2 /\ SizeOK(doc[r])

\* ------------------------- what users rely on -------------------------------
RECURSIVE WellFormed(_)
WellFormed(d) ==
    CASE d.t = "A" -> \A i \in 1..Len(d.e) : WellFormed(d.e[i])
      [] d.t = "O" -> /\ \A i, j \in 1..Len(d.m) : d.m[i].k = d.m[j].k => i = j       \* no duplicate keys
                      /\ \A i \in 1..Len(d.m) : WellFormed(d.m[i].v)
      [] d.t \in {"U", "Z", "T", "F", "N", "S"} -> TRUE
      [] OTHER -> FALSE
DocsWellFormed == \A r \in Roots : WellFormed(doc[r])
\* copies are independent: a step that does not name root u as target or moved source leaves it unchanged
Independent == [][\A u \in Roots : doc'[u] # doc[u] => (\E r \in Roots : r # u => (doc'[u] = U \/ doc'[r] = doc[r]))]_doc
MovedFromUndefined == [][\A r, u \in Roots : (r # u /\ doc'[u] # doc[u] /\ doc'[r] # doc[r]) => doc'[u] = U \/ doc'[r] = U]_doc
=============================================================================
