SPECIFICATION Spec
CONSTANT Variant = "pair-or"
INVARIANT Agree
CHECK_DEADLOCK FALSE
