SPECIFICATION Spec
CONSTANTS
  MaxLen = 3
  WithOpening = FALSE
  Variant = "current"
INVARIANT Export
CHECK_DEADLOCK FALSE
