INIT Init
NEXT Next
CONSTANTS
  Alphabet = {123, 125, 91, 93, 34, 58, 44, 49, 97, 92}
  MaxLen = 5
INVARIANTS ReadInBounds AllOrNothing Complete SameValue NoProperPrefix NoTrailing BracketMutation
CHECK_DEADLOCK FALSE
