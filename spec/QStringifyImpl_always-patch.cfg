SPECIFICATION Spec
CONSTANTS
  MaxEntries = 3
  Variant = "always-patch"
INVARIANT Agree
CHECK_DEADLOCK FALSE
