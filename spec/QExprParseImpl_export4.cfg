SPECIFICATION Spec
CONSTANTS
  MaxLen = 4
  WithOpening = FALSE
  Variant = "current"
INVARIANT Export
CHECK_DEADLOCK FALSE
