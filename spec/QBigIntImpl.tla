----------------------------- MODULE QBigIntImpl -----------------------------
(* Implementation specification (I) for C19: a transcription of BigInt.hpp   *)
(* with the word width as a constant: limb array s[0..MaxIdx], index of the  *)
(* highest used limb, carry / borrow loops, multi-word shifts, bit scans,    *)
(* the wide-operand overloads.  Every limb access is recorded: `oob` becomes *)
(* TRUE when an index outside 0..MaxIdx is touched.  The machine runs in     *)
(* lock step with the mathematical integer v of the property specification   *)
(* QBigInt; TLC checks Exact (value and normalised index), returned          *)
(* remainders / bit indices, and LimbAccessInBounds for every reachable      *)
(* state and every operand, for small word widths.                           *)
EXTENDS Integers, Sequences, TLC
CONSTANTS W,        \* bits per word
          L         \* number of limbs

RECURSIVE Pow2(_)
Pow2(n) == IF n = 0 THEN 1 ELSE 2 * Pow2(n - 1)
M == Pow2(W)
MaxIdx == L - 1
Limit == Pow2(W * L)
Words == 0..(M - 1)

VARIABLES b,     \* [s |-> limbs, idx |-> index_, oob |-> BOOLEAN]
          v,     \* the mathematical value
          ret, mret   \* value returned by the last operation: implementation / specification
vars == <<b, v, ret, mret>>

Zero == [s |-> [i \in 0..MaxIdx |-> 0], idx |-> 0, oob |-> FALSE]
InB(i) == i >= 0 /\ i <= MaxIdx
Rd(x, i) == IF InB(i) THEN x.s[i] ELSE 0
Touch(x, i) == IF InB(i) THEN x ELSE [x EXCEPT !.oob = TRUE]
Wr(x, i, val) == IF InB(i) THEN [x EXCEPT !.s[i] = val % M] ELSE [x EXCEPT !.oob = TRUE]

RECURSIVE ValFrom(_, _)
ValFrom(s, i) == IF i > MaxIdx THEN 0 ELSE s[i] + M * ValFrom(s, i + 1)
Val(x) == ValFrom(x.s, 0)
RECURSIVE TopIdx(_, _)
TopIdx(s, i) == IF i = 0 THEN 0 ELSE IF s[i] # 0 THEN i ELSE TopIdx(s, i - 1)

\* ---- Add(number, index) ------------------------------------------------------
RECURSIVE AddLoop(_, _, _)
AddLoop(x, number, index) ==
    IF index > MaxIdx THEN [x |-> x, index |-> index]
    ELSE LET tmp == Rd(x, index)
             x1  == Wr(x, index, tmp + number)
         IN IF Rd(x1, index) > tmp THEN [x |-> x1, index |-> index]            \* no overflow: break
            ELSE AddLoop(x1, 1, index + 1)
AddAt(x, number, index) ==
    IF number = 0 THEN x
    ELSE LET r == AddLoop(x, number, index) IN
         IF r.index > MaxIdx THEN [r.x EXCEPT !.idx = 0]
         ELSE IF r.index > r.x.idx THEN [r.x EXCEPT !.idx = r.index]
         ELSE r.x
\* ---- Subtract(number, index) -------------------------------------------------
RECURSIVE SubLoop(_, _, _)
SubLoop(x, number, index) ==
    IF index > MaxIdx THEN [x |-> x, index |-> index]
    ELSE LET tmp == Rd(x, index)
             x1  == Wr(x, index, tmp + M - number)
         IN IF Rd(x1, index) < tmp THEN [x |-> x1, index |-> index]
            ELSE SubLoop(x1, 1, index + 1)
RECURSIVE TrimIdx(_)
TrimIdx(x) == IF x.idx > 0 /\ Rd(x, x.idx) = 0 THEN TrimIdx([x EXCEPT !.idx = @ - 1]) ELSE x
SubAt(x, number, index) ==
    IF number = 0 THEN x
    ELSE LET r == SubLoop(x, number, index) IN
         IF r.index > MaxIdx THEN [r.x EXCEPT !.idx = MaxIdx]
         ELSE IF r.index >= r.x.idx THEN TrimIdx(r.x)
         ELSE r.x
\* ---- Multiply(multiplier): from the top limb down, high part added one limb up -
RECURSIVE MulLoop(_, _, _)
MulLoop(x, m, index) ==
    LET p  == Rd(x, index) * m
        x1 == Wr(x, index, p % M)
        x2 == AddAt(x1, p \div M, index + 1)
    IN IF index = 0 THEN x2 ELSE MulLoop(x2, m, index - 1)
DoMul(x, m) == TrimIdx(MulLoop(x, m, x.idx))        \* while ((index_ > 0) && (s[index_] == 0)) --index_;
\* ---- Divide(divisor) -> remainder ---------------------------------------------
RECURSIVE DivLoop(_, _, _, _)
DivLoop(x, rem, d, index) ==
    IF index = 0 THEN [x |-> x, rem |-> rem]
    ELSE LET i   == index - 1
             num == rem * M + Rd(x, i)
         IN DivLoop(Wr(x, i, num \div d), num % d, d, i)
DoDiv(x, d) ==
    LET top == Rd(x, x.idx)
        x1  == Wr(x, x.idx, top \div d)
        r   == DivLoop(x1, top % d, d, x.idx)
        x2  == IF r.x.idx > 0 /\ Rd(r.x, r.x.idx) = 0 THEN [r.x EXCEPT !.idx = @ - 1] ELSE r.x
    IN [x |-> x2, rem |-> r.rem]
\* ---- ShiftRight(offset) ---------------------------------------------------------
RECURSIVE ClearAll(_)
ClearAll(x) == IF x.idx # 0 THEN ClearAll([Wr(x, x.idx, 0) EXCEPT !.idx = x.idx - 1]) ELSE Wr(x, 0, 0)
RECURSIVE SRMove(_, _, _)
SRMove(x, index, next) ==                     \* do { s[index] = s[next]; ++index; ++next } while (next <= index_)
    LET x1 == Wr(Touch(x, next), index, Rd(x, next)) IN
    IF next + 1 <= x.idx THEN SRMove(x1, index + 1, next + 1) ELSE x1
RECURSIVE SRZero(_, _)
SRZero(x, move) ==                            \* do { s[index_] = 0; --index_; --move } while (move != 0)
    LET x1 == [Wr(x, x.idx, 0) EXCEPT !.idx = x.idx - 1] IN
    IF move - 1 # 0 THEN SRZero(x1, move - 1) ELSE x1
RECURSIVE SRBits(_, _, _)
SRBits(x, index, offset) ==
    IF index < x.idx
    THEN LET x1 == Wr(Touch(x, index + 1), index, Rd(x, index) + ((Rd(x, index + 1) * Pow2(W - offset)) % M))   \* |= (next << shift_size); disjoint bits
             x2 == Wr(x1, index + 1, Rd(x1, index + 1) \div Pow2(offset))
         IN SRBits(x2, index + 1, offset)
    ELSE x
DoShr(x, off0) ==
    LET move == off0 \div W
        off  == off0 % W
        x1 == IF off0 >= W
              THEN (IF move > x.idx THEN ClearAll(x) ELSE SRZero(SRMove(x, 0, move), move))
              ELSE x
        cleared == off0 >= W /\ move > x.idx
    IN IF cleared THEN x1
       ELSE IF off # 0
            THEN LET y1 == Wr(x1, 0, Rd(x1, 0) \div Pow2(off))
                     y2 == SRBits(y1, 0, off)
                 IN IF y2.idx # 0 /\ Rd(y2, y2.idx) = 0 THEN [y2 EXCEPT !.idx = @ - 1] ELSE y2
            ELSE x1
\* ---- ShiftLeft(offset) ----------------------------------------------------------
RECURSIVE SLMove(_, _)
SLMove(x, move) ==                            \* while (index_ != 0) { --index_; s[index_ + move] = s[index_] }
    IF x.idx # 0 THEN LET i == x.idx - 1 IN SLMove([Wr(x, i + move, Rd(x, i)) EXCEPT !.idx = i], move) ELSE x
RECURSIVE SLZero(_, _)
SLZero(x, move) == LET m1 == move - 1  x1 == Wr(x, m1, 0) IN IF m1 # 0 THEN SLZero(x1, m1) ELSE x1
RECURSIVE SLFindTop(_, _, _)
SLFindTop(x, index, fuel) ==                  \* while ((index != 0) && (s[index] == 0)) --index;
    IF index # 0 /\ Rd(x, index) = 0 THEN SLFindTop(x, index - 1, fuel - 1) ELSE [x |-> x, index |-> index]
RECURSIVE SLBits(_, _, _)
SLBits(x, index, offset) ==
    IF index # 0
    THEN LET x1 == Wr(x, index, Rd(x, index) + (Rd(x, index - 1) \div Pow2(W - offset)))      \* |= (prev >> shift_size); low bits are zero after <<=
             x2 == Wr(x1, index - 1, Rd(x1, index - 1) * Pow2(offset))
         IN SLBits(x2, index - 1, offset)
    ELSE x
DoShl(x, off0) ==
    LET move == off0 \div W
        off  == off0 % W
        whole ==
          IF off0 >= W
          THEN LET index0 == x.idx + move IN
               IF index0 > MaxIdx /\ (index0 - MaxIdx) > x.idx THEN [x |-> ClearAll(x), done |-> TRUE]
               ELSE LET xa == IF index0 > MaxIdx THEN [x EXCEPT !.idx = @ - (index0 - MaxIdx)] ELSE x
                        index == IF index0 > MaxIdx THEN MaxIdx ELSE index0
                        xb == Wr(xa, xa.idx + move, Rd(xa, xa.idx))
                        xc == SLMove(xb, move)
                        xd == SLZero(xc, move)
                        ft == SLFindTop(xd, index, L + 2)
                    IN [x |-> [ft.x EXCEPT !.idx = ft.index], done |-> FALSE]
          ELSE [x |-> x, done |-> FALSE]
        x1 == whole.x
    IN IF whole.done THEN x1
       ELSE IF off # 0
            THEN LET index == x1.idx
                     carry == Rd(x1, index) \div Pow2(W - off)
                     y1 == Wr(x1, index, Rd(x1, index) * Pow2(off))
                     y2 == IF y1.idx # MaxIdx
                           THEN LET ni == y1.idx + (IF carry # 0 THEN 1 ELSE 0) IN
                                Wr([y1 EXCEPT !.idx = ni], ni, IF carry # 0 THEN carry ELSE Rd(y1, ni))     \* s[index_] |= carry
                           ELSE y1
                 IN SLBits(y2, index, off)
            ELSE x1
\* ---- bit scans ---------------------------------------------------------------------
RECURSIVE LowBitW(_)
LowBitW(a) == IF a = 0 THEN W ELSE IF a % 2 = 1 THEN 0 ELSE 1 + LowBitW(a \div 2)   \* Platform::FindFirstBit (undefined for 0; modelled as W)
RECURSIVE HighBitW(_)
HighBitW(a) == IF a < 2 THEN 0 ELSE 1 + HighBitW(a \div 2)
RECURSIVE FFScan(_, _)
FFScan(x, index) ==                         \* while ((index < index_) && (s[index] == 0)) ++index;
    IF index < x.idx /\ Rd(Touch(x, index), index) = 0 THEN FFScan(x, index + 1)
    ELSE [x |-> Touch(x, index), index |-> index]
DoFirstBit(x) == LET r == FFScan(x, 0) IN [x |-> r.x, ret |-> LowBitW(Rd(r.x, r.index)) + r.index * W]
DoLastBit(x) == HighBitW(Rd(x, x.idx)) + x.idx * W
\* ---- wide operands (N_Number_T of two words): Set / Or / And / Add / Subtract ---------
DoSet(x, n) ==                               \* operator=(number): Set, then clear the limbs above the new index
    LET lo == n % M  hi == n \div M
        x1 == [Wr(x, 0, lo) EXCEPT !.idx = 0]
        x2 == IF hi # 0 THEN [Wr(x1, 1, hi) EXCEPT !.idx = x1.idx + 1] ELSE x1
        RECURSIVE ClearAbove(_, _)
        ClearAbove(y, index) == IF index > y.idx THEN ClearAbove(Wr(y, index, 0), index - 1) ELSE y
    IN ClearAbove(x2, x.idx)
DoOr(x, n) == LET lo == n % M  hi == n \div M
                  OrW(a, c) == LET RECURSIVE O(_, _)
                                   O(p, q) == IF p = 0 THEN q ELSE IF q = 0 THEN p ELSE (IF (p % 2) + (q % 2) > 0 THEN 1 ELSE 0) + 2 * O(p \div 2, q \div 2)
                               IN O(a, c)
                  x1 == Wr(x, 0, OrW(Rd(x, 0), lo))
              IN IF hi # 0 THEN LET x2 == Wr(x1, 1, OrW(Rd(x1, 1), hi)) IN IF 1 > x2.idx THEN [x2 EXCEPT !.idx = 1] ELSE x2
                 ELSE x1
DoAnd(x, n) == LET lo == n % M  hi == n \div M
                   AndW(a, c) == LET RECURSIVE An(_, _)
                                     An(p, q) == IF p = 0 \/ q = 0 THEN 0 ELSE (p % 2) * (q % 2) + 2 * An(p \div 2, q \div 2)
                                 IN An(a, c)
                   x1 == [Wr(x, 0, AndW(Rd(x, 0), lo)) EXCEPT !.idx = 0]
                   \* words covered by the operand are and-ed, the words beyond it are cleared (up to the old index)
                   x2 == IF hi # 0 THEN LET y == Wr(x1, 1, AndW(Rd(x1, 1), hi)) IN IF Rd(y, 1) # 0 THEN [y EXCEPT !.idx = 1] ELSE y ELSE x1
                   from == IF hi # 0 THEN 2 ELSE 1
                   RECURSIVE ClearUp(_, _)
                   ClearUp(y, index) == IF index <= x.idx THEN ClearUp(Wr(y, index, 0), index + 1) ELSE y
               IN ClearUp(x2, from)
\* ---- copy(src) used by copy / move assignment: words of src, then the words above are cleared
RECURSIVE CopyWords(_, _, _)
CopyWords(x, src, index) == IF index <= src.idx THEN CopyWords(Wr(x, index, Rd(src, index)), src, index + 1) ELSE x
RECURSIVE ClearDown(_, _)
ClearDown(x, index) == IF x.idx >= index THEN ClearDown([Wr(x, x.idx, 0) EXCEPT !.idx = x.idx - 1], index) ELSE x   \* while (index_ >= index)
DoCopyAssign(x, src) == [ClearDown(CopyWords(x, src, 0), src.idx + 1) EXCEPT !.idx = src.idx]
DoAddWide(x, n) == LET x1 == AddAt(x, n % M, 0) IN IF n \div M # 0 THEN AddAt(x1, n \div M, 1) ELSE x1
DoSubWide(x, n) == LET x1 == SubAt(x, n % M, 0) IN IF n \div M # 0 THEN SubAt(x1, n \div M, 1) ELSE x1

\* ---- mathematical counterparts ---------------------------------------------------------
RECURSIVE MAnd(_, _)
MAnd(p, q) == IF p = 0 \/ q = 0 THEN 0 ELSE (p % 2) * (q % 2) + 2 * MAnd(p \div 2, q \div 2)
RECURSIVE MOr(_, _)
MOr(p, q) == IF p = 0 THEN q ELSE IF q = 0 THEN p ELSE (IF (p % 2) + (q % 2) > 0 THEN 1 ELSE 0) + 2 * MOr(p \div 2, q \div 2)
RECURSIVE MLow(_)
MLow(a) == IF a % 2 = 1 THEN 0 ELSE 1 + MLow(a \div 2)
RECURSIVE MHigh(_)
MHigh(a) == IF a < 2 THEN 0 ELSE 1 + MHigh(a \div 2)

Init == b = Zero /\ v = 0 /\ ret = -1 /\ mret = -1
Do(nb, nv, r, mr) == b' = nb /\ v' = nv /\ ret' = r /\ mret' = mr
Fits(x) == x >= 0 /\ x < Limit
Wide == 0..(M * M - 1)

Next ==
  \/ \E n \in Wide : Do(DoSet(b, n), n, -1, -1)
  \/ \E n \in Wide : Do(DoCopyAssign(b, DoSet(Zero, n)), n, -1, -1)          \* b = BigInt(n)
  \/ \E n \in Wide : Fits(v + n) /\ Do(DoAddWide(b, n), v + n, -1, -1)
  \/ \E n \in Wide : v - n >= 0 /\ Do(DoSubWide(b, n), v - n, -1, -1)
  \/ \E n \in Wide : Do(DoOr(b, n), MOr(v, n), -1, -1)
  \/ \E n \in Wide : Do(DoAnd(b, n), MAnd(v, n), -1, -1)
  \/ \E m \in Words : Fits(v * m) /\ Do(DoMul(b, m), v * m, -1, -1)
  \/ \E d \in Words \ {0} : LET r == DoDiv(b, d) IN Do(r.x, v \div d, r.rem, v % d)
  \/ \E k \in 0..(W * L + 1) : (IF k >= W * L THEN v = 0 ELSE Fits(v * Pow2(k))) /\ Do(DoShl(b, k), IF v = 0 THEN 0 ELSE v * Pow2(k), -1, -1)
  \/ \E k \in 0..(W * L + 1) : Do(DoShr(b, k), IF k >= W * L THEN 0 ELSE v \div Pow2(k), -1, -1)
  \/ v # 0 /\ LET r == DoFirstBit(b) IN Do(r.x, v, r.ret, MLow(v))
  \/ v # 0 /\ Do(b, v, DoLastBit(b), MHigh(v))
Spec == Init /\ [][Next]_vars

\* ----------------------------- what must hold ---------------------------------------
Exact == Val(b) = v
IndexNormalised == b.idx = TopIdx(b.s, MaxIdx)           \* zero / comparison predicates rely on it
ReturnsExact == ret = mret
LimbAccessInBounds == ~b.oob
=============================================================================
