INIT Init
NEXT Next
CONSTANTS
  Alphabet = {38, 60, 34, 97, 109, 112, 108, 116, 59}
  MaxLen = 5
INVARIANTS ReadInBounds EqualsSpec LawSafe LawDecode LawIdempotent LawNoSpecials
CHECK_DEADLOCK FALSE
