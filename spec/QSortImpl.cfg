INIT Init
NEXT Next
CONSTANTS
  Vals = {1,2,3,4}
  MaxN = 6
INVARIANT SortedPermutation
CHECK_DEADLOCK FALSE
