INIT Init
NEXT Next
CONSTANTS
  Alphabet = {38, 60, 62, 34, 39, 59, 97, 109, 112, 108, 116, 103, 113, 117, 111, 115, 120}
  MaxLen = 4
INVARIANTS ReadInBounds EqualsSpec LawSafe LawDecode LawIdempotent LawNoSpecials
CHECK_DEADLOCK FALSE
