------------------------------ MODULE QJsonImpl ------------------------------
(* Implementation specification (I) for C05 / C07: a transcription of the    *)
(* cursor machine of JSON.hpp (Parse, parseValue, parseObject, parseArray)   *)
(* and JSONUtils::UnEscape.  Every content[offset] read is recorded: `oob`    *)
(* is TRUE when some read used offset >= length.  The number scanner is      *)
(* abstracted to "consume the run of digits" (its own bounds belong to C09). *)
(* For every text up to MaxLen over Alphabet TLC checks                       *)
(*   ReadInBounds  - no read outside [0, length)                              *)
(*   AllOrNothing  - a result other than Undefined implies the text is JSON   *)
(*   Complete      - every JSON text (of the grammar spec) is accepted         *)
(*   SameValue     - and yields the denoted document.                         *)
EXTENDS QJsonGrammar
CONSTANTS Alphabet, MaxLen

LB == 123  RB == 125  LS == 91  RS == 93  QT == 34  CL == 58  CM == 44  BS == 92

\* a read of content[o] (0-based): value and whether it was out of bounds
Rd(t, o) == IF o < Len(t) THEN t[o + 1] ELSE 0
Oob(t, o) == o >= Len(t)
RECURSIVE TrimL(_, _)
TrimL(t, o) == IF o < Len(t) /\ IsWs(t[o + 1]) THEN TrimL(t, o + 1) ELSE o      \* guarded by offset < end_offset in the code

\* JSONUtils::UnEscape(content + start, n, stream): returns [len, out, oob]; len = 0 on failure
RECURSIVE UnEsc(_, _, _, _, _, _)
UnEsc(t, start, n, off, out, oob) ==
    IF off >= n THEN [len |-> off, out |-> out, oob |-> oob]                   \* input ended without a closing quote
    ELSE LET c == Rd(t, start + off)  ob == oob \/ Oob(t, start + off) IN
         IF c = QT THEN [len |-> off + 1, out |-> out, oob |-> ob]
         ELSE IF c = BS THEN
              IF off + 1 >= n THEN [len |-> 0, out |-> out, oob |-> ob]           \* backslash at the end of the input
              ELSE LET ch == Rd(t, start + off + 1)  ob2 == ob \/ Oob(t, start + off + 1) IN
                   IF ch \in {QT, BS, 47} THEN UnEsc(t, start, n, off + 2, Append(out, ch), ob2)
                   ELSE IF SimpleEsc(ch) >= 0 THEN UnEsc(t, start, n, off + 2, Append(out, SimpleEsc(ch)), ob2)
                   ELSE [len |-> 0, out |-> out, oob |-> ob2]                   \* (\u is not in the model alphabet)
         ELSE IF c \in {10, 9, 13} THEN [len |-> 0, out |-> out, oob |-> ob]
         ELSE UnEsc(t, start, n, off + 1, Append(out, c), ob)
\* isClosedString(str, len)
RECURSIVE Slashes(_, _, _)
Slashes(t, start, index) == IF index # 0 /\ Rd(t, start + index - 1) = BS THEN 1 + Slashes(t, start, index - 1) ELSE 0
Closed(t, start, len) == len # 0 /\ Rd(t, start + len - 1) = QT /\ (Slashes(t, start, len - 1) % 2 = 0)

RECURSIVE DigRun(_, _)
DigRun(t, o) == IF o < Len(t) /\ IsDigit(t[o + 1]) THEN DigRun(t, o + 1) ELSE o
RECURSIVE DigVal(_, _, _, _)
DigVal(t, o, e, acc) == IF o >= e THEN acc ELSE DigVal(t, o + 1, e, acc * 10 + (t[o + 1] - 48))

FailR(t, oob) == [v |-> U, o |-> Len(t), oob |-> oob]                          \* offset = length

RECURSIVE PV(_, _, _)
RECURSIVE PObj(_, _, _, _)
RECURSIVE PArr(_, _, _, _)
PV(t, o, fuel) ==
    IF o >= Len(t) \/ fuel = 0 THEN FailR(t, FALSE)
    ELSE LET c == t[o + 1] IN
         IF c = LB THEN
            LET o1 == TrimL(t, o + 1) IN
            IF o1 < Len(t) /\ t[o1 + 1] = RB THEN [v |-> O(<<>>), o |-> o1 + 1, oob |-> FALSE]
            ELSE PObj(t, o1, <<>>, fuel - 1)
         ELSE IF c = LS THEN
            LET o1 == TrimL(t, o + 1) IN
            IF o1 < Len(t) /\ t[o1 + 1] = RS THEN [v |-> A(<<>>), o |-> o1 + 1, oob |-> FALSE]
            ELSE PArr(t, o1, <<>>, fuel - 1)
         ELSE IF c = QT THEN
            LET r == UnEsc(t, o + 1, Len(t) - (o + 1), 0, <<>>, FALSE) IN
            IF r.len # 0 /\ Closed(t, o + 1, r.len) THEN [v |-> S(r.out), o |-> o + 1 + r.len, oob |-> r.oob]
            ELSE FailR(t, r.oob)
         ELSE IF IsDigit(c) THEN LET e == DigRun(t, o) IN [v |-> [t |-> "N", k |-> "u64", m |-> 2 * DigVal(t, o, e, 0)], o |-> e, oob |-> FALSE]
         ELSE FailR(t, FALSE)
\* member loop of parseObject: while (offset < length && content[offset] == '"')
PObj(t, o, acc, fuel) ==
    IF ~(o < Len(t) /\ t[o + 1] = QT) THEN FailR(t, FALSE)
    ELSE LET r == UnEsc(t, o + 1, Len(t) - (o + 1), 0, <<>>, FALSE) IN
         IF ~(r.len # 0 /\ Closed(t, o + 1, r.len)) THEN FailR(t, r.oob)
         ELSE LET o1 == TrimL(t, o + 1 + r.len) IN
              IF ~(o1 < Len(t) /\ t[o1 + 1] = CL) THEN FailR(t, r.oob)
              ELSE LET pv == PV(t, TrimL(t, o1 + 1), fuel)
                       acc2 == PutKey(acc, r.out, pv.v)
                       o2 == TrimL(t, pv.o)
                       ob == r.oob \/ pv.oob
                   IN IF o2 < Len(t) /\ t[o2 + 1] = CM THEN PObj(t, TrimL(t, o2 + 1), acc2, fuel)
                      ELSE IF o2 < Len(t) /\ t[o2 + 1] = RB THEN [v |-> O(acc2), o |-> o2 + 1, oob |-> ob]
                      ELSE FailR(t, ob)
\* element loop of parseArray: while (offset < length)
PArr(t, o, acc, fuel) ==
    IF ~(o < Len(t)) THEN FailR(t, FALSE)
    ELSE LET pv == PV(t, o, fuel)
             acc2 == Append(acc, pv.v)
             o2 == TrimL(t, pv.o)
         IN IF o2 < Len(t) /\ t[o2 + 1] = CM THEN PArr(t, TrimL(t, o2 + 1), acc2, fuel)
            ELSE IF o2 < Len(t) /\ t[o2 + 1] = RS THEN [v |-> A(acc2), o |-> o2 + 1, oob |-> pv.oob]
            ELSE FailR(t, pv.oob)

RECURSIVE HasU(_)
HasU(d) == IF d.t = "U" THEN TRUE
           ELSE IF d.t = "A" THEN \E i \in 1..Len(d.e) : HasU(d.e[i])
           ELSE IF d.t = "O" THEN \E i \in 1..Len(d.m) : HasU(d.m[i].v)
           ELSE FALSE
ParseImpl(t) == IF Len(t) = 0 THEN [v |-> U, oob |-> FALSE]
                ELSE LET r == PV(t, TrimL(t, 0), MaxDepth) IN
                     IF TrimL(t, r.o) = Len(t) THEN [v |-> r.v, oob |-> r.oob] ELSE [v |-> U, oob |-> r.oob]

VARIABLE s
Init == s = <<>>
Next == Len(s) < MaxLen /\ \E a \in Alphabet : s' = Append(s, a)

ReadInBounds == ~ParseImpl(s).oob
AllOrNothing == (ParseImpl(s).v # U) => (IsJSON(s) /\ ~HasU(ParseImpl(s).v))
Complete     == IsJSON(s) => ParseImpl(s).v # U
SameValue    == IsJSON(s) => DocMatch(Denotes(s, 8), ParseImpl(s).v)

\* ---- facts about the grammar itself (the quantifier of C07 as a checked statement)
NoProperPrefix == IsContainerDoc(s) => \A n \in 0..(Len(s) - 1) : ~IsJSON(SubSeq(s, 1, n))
NoTrailing     == IsContainerDoc(s) => \A a \in Alphabet : ~IsWs(a) => ~IsJSON(Append(s, a))
\* is position i (1-based) of a JSON text inside a string literal?
RECURSIVE InStr(_, _, _, _)
InStr(t, i, p, inside) == IF p = i THEN inside
                          ELSE IF inside /\ t[p] = BS THEN InStr(t, i, (IF p + 2 <= i THEN p + 2 ELSE i), IF p + 2 <= i THEN inside ELSE TRUE)
                          ELSE IF t[p] = QT THEN InStr(t, i, p + 1, ~inside)
                          ELSE InStr(t, i, p + 1, inside)
BracketMutation == IsContainerDoc(s) =>
    \A i \in 1..Len(s) : (s[i] \in {RB, RS} /\ ~InStr(s, i, 1, FALSE)) =>
        /\ ~IsJSON(SubSeq(s, 1, i - 1) \o SubSeq(s, i + 1, Len(s)))                                          \* bracket removed
        /\ ~IsJSON([s EXCEPT ![i] = IF s[i] = RB THEN RS ELSE RB])                                            \* replaced by the other kind
=============================================================================
