---------------------------- MODULE QDigitFormat ----------------------------
(* Property specification (P) for C10 / C11: the reference text of a number. *)
(* A binary floating point value m * 2^e has a finite exact decimal          *)
(* expansion; the three formats are defined on that expansion:               *)
(*   Fixed      %.{p}f   correctly rounded (half-even on the exact value)    *)
(*   SemiFixed  %.{p}f with trailing fractional zeros and a bare point removed *)
(*   Default    %.{p}g   (p = 0 means 1; exponent form iff X < -4 or X >= P; *)
(*                        trailing zeros removed)                            *)
(* inf / -inf / nan for the non-finite values; integers print exactly.       *)
(* Digits are sequences of 0..9; texts are sequences of code units.          *)
EXTENDS QBigNat, QDecNat

\* ---- exact expansion: [neg, ds (significant digits, no leading zeros, <<>> for zero), pt (number of digits before the point)]
RECURSIVE MulPow5(_, _)
MulPow5(a, n) == IF n >= 5 THEN MulPow5(MulSmall(a, 3125), n - 5) ELSE MulSmall(a, CASE n = 0 -> 1 [] n = 1 -> 5 [] n = 2 -> 25 [] n = 3 -> 125 [] n = 4 -> 625)
Expansion(m, e) ==      \* m: limbs, e: integer
    IF DNorm(m) = <<>> THEN [ds |-> <<>>, pt |-> 0]
    ELSE IF e >= 0 THEN LET d == ToDigits(MulPow2(m, e)) IN [ds |-> d, pt |-> Len(d)]
    ELSE LET d == ToDigits(MulPow5(m, 0 - e)) IN [ds |-> d, pt |-> Len(d) + e]      \* value = d / 10^(-e)

\* field widths: kind -> [mbits, ebits]
Fmt(kind) == CASE kind = "f64" -> [mb |-> 52, eb |-> 11] [] kind = "f32" -> [mb |-> 23, eb |-> 8] [] kind = "f16" -> [mb |-> 10, eb |-> 5]
Decode(kind, bits) ==
    LET f == Fmt(kind)
        b == FullBits(bits, f.mb + f.eb + 1)
        ef == BitsToInt(SubSeq(b, f.mb + 1, f.mb + f.eb), 1)
        bias == Pow2Small(f.eb - 1) - 1
        frac == SubSeq(b, 1, f.mb)
        isnan == ef = Pow2Small(f.eb) - 1 /\ (\E i \in 1..f.mb : frac[i] = 1)
        isinf == ef = Pow2Small(f.eb) - 1 /\ ~isnan
    IN [neg |-> b[f.mb + f.eb + 1] = 1, nan |-> isnan, inf |-> isinf,
        m |-> FromBytes(BitsToBytes(IF ef = 0 THEN frac ELSE frac \o <<1>>)),
        e |-> (IF ef = 0 THEN 1 ELSE ef) - bias - f.mb]

\* ---- rounding a digit string to `keep` leading digits, half-even on the exact digits
AllZero(ds, from) == \A i \in from..Len(ds) : ds[i] = 0
RECURSIVE Incr(_, _)
Incr(ds, i) == IF i = 0 THEN <<1>> \o ds                      \* carry out: one more digit
               ELSE IF ds[i] = 9 THEN Incr([ds EXCEPT ![i] = 0], i - 1)
               ELSE [ds EXCEPT ![i] = ds[i] + 1]
\* returns [ds (keep digits, or keep+1 when the carry ran out), carried]
RoundToM(ds, keep, mode) ==
    IF keep >= Len(ds) THEN [ds |-> ds, carried |-> FALSE]
    ELSE IF keep < 0 THEN [ds |-> <<>>, carried |-> FALSE]
    ELSE LET d == ds[keep + 1]
             lastodd == keep > 0 /\ ds[keep] % 2 = 1
             up == IF mode = "even" THEN d > 5 \/ (d = 5 /\ (~AllZero(ds, keep + 2) \/ lastodd))
                   ELSE IF mode \in {"lib0", "lib1"} THEN d > 5 \/ (d = 5 /\ (mode = "lib1" \/ lastodd))   \* the library's flag instead of the exact tail (LibSticky)
                   ELSE IF mode = "up" THEN ~AllZero(ds, keep + 1) ELSE FALSE       \* "up": away from zero whenever digits are dropped; "down": truncation
             kept == SubSeq(ds, 1, keep)
         IN IF ~up THEN [ds |-> kept, carried |-> FALSE]
            ELSE LET r == Incr(kept, keep) IN [ds |-> r, carried |-> Len(r) > keep]

Ch(d) == 48 + d
DigitsText(ds) == [i \in 1..Len(ds) |-> Ch(ds[i])]
Zeros(n) == [i \in 1..n |-> 48]
RECURSIVE SmallDigits(_)
SmallDigits(n) == IF n < 10 THEN <<Ch(n)>> ELSE SmallDigits(n \div 10) \o <<Ch(n % 10)>>

\* %.{p}f of expansion x (without sign)
FixedM(x, p, mode) ==
    IF x.ds = <<>> THEN <<48>> \o (IF p > 0 THEN <<46>> \o Zeros(p) ELSE <<>>)
    ELSE LET r == RoundToM(x.ds, x.pt + p, mode)
             pt == IF r.carried THEN x.pt + 1 ELSE x.pt          \* digits before the point after rounding
             ds == r.ds                                          \* pt + p digits (pt may be <= 0)
             ip == IF pt <= 0 THEN <<48>> ELSE DigitsText(SubSeq(ds, 1, pt))
             fr == IF pt >= 0 THEN DigitsText(SubSeq(ds, pt + 1, Len(ds))) \o Zeros(p - (Len(ds) - pt))
                   ELSE (IF Len(ds) = 0 THEN Zeros(p) ELSE Zeros(0 - pt) \o DigitsText(ds) \o Zeros(p - (0 - pt) - Len(ds)))
         IN ip \o (IF p > 0 THEN <<46>> \o fr ELSE <<>>)
Fixed(x, p) == FixedM(x, p, "even")
RECURSIVE StripTrailingZeros(_)
StripTrailingZeros(t) == IF t # <<>> /\ t[Len(t)] = 48 THEN StripTrailingZeros(SubSeq(t, 1, Len(t) - 1)) ELSE t
HasPoint(t) == \E i \in 1..Len(t) : t[i] = 46
TrimFraction(t) == IF ~HasPoint(t) THEN t
                   ELSE LET s == StripTrailingZeros(t) IN IF s[Len(s)] = 46 THEN SubSeq(s, 1, Len(s) - 1) ELSE s
SemiFixedM(x, p, mode) == TrimFraction(FixedM(x, p, mode))
SemiFixed(x, p) == SemiFixedM(x, p, "even")
\* %.{p}g
GeneralM(x, p0, mode) ==
    LET P == IF p0 = 0 THEN 1 ELSE p0 IN
    IF x.ds = <<>> THEN <<48>>
    ELSE LET r == RoundToM(x.ds, P, mode)
             X == (IF r.carried THEN x.pt + 1 ELSE x.pt) - 1          \* decimal exponent of the rounded value
             sig == IF r.carried THEN SubSeq(r.ds, 1, P) ELSE r.ds    \* at most P significant digits
         IN IF X >= -4 /\ X < P
            THEN TrimFraction(FixedM(x, P - 1 - X, mode))
            ELSE LET mant == TrimFraction(<<Ch(sig[1])>> \o (IF Len(sig) > 1 THEN <<46>> \o DigitsText(SubSeq(sig, 2, Len(sig))) ELSE <<>>))
                     ax == IF X < 0 THEN 0 - X ELSE X
                 IN mant \o <<101, IF X < 0 THEN 45 ELSE 43>> \o (IF ax < 10 THEN <<48>> ELSE <<>>) \o SmallDigits(ax)

General(x, p0) == GeneralM(x, p0, "even")
RealTextM(kind, bits, fmt, p, mode) ==
    LET v == Decode(kind, bits) IN
    IF v.nan THEN <<110, 97, 110>>
    ELSE IF v.inf THEN (IF v.neg THEN <<45>> ELSE <<>>) \o <<105, 110, 102>>
    ELSE LET x == Expansion(v.m, v.e)
             body == CASE fmt = "f" -> FixedM(x, p, mode) [] fmt = "s" -> SemiFixedM(x, p, mode) [] fmt = "g" -> GeneralM(x, p, mode)
         IN (IF v.neg THEN <<45>> ELSE <<>>) \o body

RealText(kind, bits, fmt, p) == RealTextM(kind, bits, fmt, p, "even")

\* ---- the recorded rounding defect of Digit::realToString, as the library computes it ------------------------------------------
\* The library produces precision + 1 digits by truncation and ONE flag (round_up) that stands for "something non-zero was dropped
\* below them"; a cut digit 5 is rounded up when the flag is set and half-even otherwise.  The flag is an approximation:
\*   integer path (no fraction is computed: the value has no fraction bits, or the Default format needs fewer digits than the
\*   integer part has):  round_up = (decimal digits were dropped), whatever they were - and the fraction bits shifted out before
\*   are forgotten;   fraction path:  round_up = (fraction bits were shifted out), whatever they were.
\* LibSticky transcribes that flag from the bits of the value (realToString: digits / extra_digits / big_offset / no_fraction /
\* drop / fraction_length / needed).  RealTextM(.., "lib0" / "lib1") is the reference text with this flag in place of the exact tail.
\* realToString's estimate of the number of integer digits: the number of digits of 2^exponent (one short for values that have one more)
LibDigits(kind, bits) ==
    LET f == Fmt(kind)
        b == FullBits(bits, f.mb + f.eb + 1)
        ef == BitsToInt(SubSeq(b, f.mb + 1, f.mb + f.eb), 1)
        bias == Pow2Small(f.eb - 1) - 1
    IN IF ef >= bias THEN (((ef - bias) * 30103) \div 100000) + 1 ELSE 0
LibSticky(kind, bits, fmt, p) ==
    LET f == Fmt(kind)
        b == FullBits(bits, f.mb + f.eb + 1)
        ef == BitsToInt(SubSeq(b, f.mb + 1, f.mb + f.eb), 1)
        bias == Pow2Small(f.eb - 1) - 1
        frac == SubSeq(b, 1, f.mb)
        tz == IF \E i \in 1..f.mb : frac[i] = 1 THEN (CHOOSE i \in 1..f.mb : frac[i] = 1 /\ \A j \in 1..(i - 1) : frac[j] = 0) - 1 ELSE f.mb
        firstshift == IF ef # 0 THEN tz ELSE tz + 1                     \* (a subnormal mantissa is shifted left once)
        firstbit == f.mb - firstshift
        exponent == ef - bias                                           \* (-bias for subnormals)
        ispos == exponent >= 0
        posexp == IF ispos THEN exponent ELSE 0 - exponent
        actual == posexp + (IF ef = 0 THEN firstbit ELSE 0)
        digits == ((actual * 30103) \div 100000) + 1
        fixed == fmt \in {"s", "f"}
        extra == digits > p /\ ~fixed
        nofraction == ispos /\ (posexp >= firstbit \/ extra)
        fraclen == IF ispos THEN firstbit - posexp ELSE firstbit + posexp
        needed == (IF ispos THEN (IF fixed THEN p ELSE p - digits) ELSE digits + p) + 1
    IN IF nofraction THEN extra /\ digits - (p + 1) # 0 ELSE fraclen > needed
\* formatStringNumberFixed adds: the flag is also set when the fraction starts with zeros (`round_up | (diff != 0)`: 0.0625 p3 -> 0.063)
LibLeadingZeros(kind, bits, fmt) == LET v == Decode(kind, bits) IN fmt \in {"s", "f"} /\ Expansion(v.m, v.e).pt < 0
RealTextLib(kind, bits, fmt, p) == RealTextM(kind, bits, fmt, p, IF LibSticky(kind, bits, fmt, p) \/ LibLeadingZeros(kind, bits, fmt) THEN "lib1" ELSE "lib0")

\* integers: kind u8..i64, bits = two's complement bytes of the 64-bit container
IntText(kind, bits) ==
    LET width == CASE kind \in {"u8", "i8"} -> 8 [] kind \in {"u16", "i16"} -> 16 [] kind \in {"u32", "i32"} -> 32 [] OTHER -> 64
        b == FullBits(bits, width)
        signed == kind \in {"i8", "i16", "i32", "i64"}
        neg == signed /\ b[width] = 1
        mag == IF ~neg THEN FromBytes(BitsToBytes(b))
               ELSE AddSmall(FromBytes(BitsToBytes([i \in 1..width |-> 1 - b[i]])), 1)          \* two's complement magnitude
    IN (IF neg THEN <<45>> ELSE <<>>) \o DigitsText(ToDigits(mag))
=============================================================================
