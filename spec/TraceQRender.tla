----------------------------- MODULE TraceQRender -----------------------------
(* code -> spec (E4) for C17: the steps real threads took under a forced     *)
(* schedule (harness/h_render.cpp, hook H3), or the renders of a cache-reuse *)
(* history, validated against QRender.  An event is one step of render t:    *)
(* the bytes it appended (chunk), whether everything shared still equals its *)
(* snapshot (sh = 0) and whether every stream kept its earlier content and   *)
(* only t's stream grew (pre = 1).  The trace spec replays QRender's pure    *)
(* step with the logged chunk and checks, in every state:                    *)
(*   PureShared  sh = 0          AppendOnly / OneWriter  pre = 1             *)
(*   Sound       out[t] is a prefix of the solo output of render t           *)
(*   SoloEqual   after t's last step out[t] = solo[t]                        *)
(* A failing step is reported (IMPURE ...) and the run goes on.              *)
EXTENDS Naturals, Sequences, FiniteSets, TLC, Json, IOUtils
Tr == ndJsonDeserialize(IOEnv.TRACE)
VARIABLES l, pc, out, solo, sched, cid, ok
vars == <<l, pc, out, solo, sched, cid, ok>>
IsPrefix(s, t) == Len(s) <= Len(t) /\ SubSeq(t, 1, Len(s)) = s
Count(s, x) == Cardinality({i \in 1..Len(s) : s[i] = x})
Ev == Tr[l]
TInit == l = 1 /\ pc = <<>> /\ out = <<>> /\ solo = <<>> /\ sched = <<>> /\ cid = 0 /\ ok = "ok"
TNext ==
  \/ /\ l <= Len(Tr) /\ l' = l + 1
     /\ \/ /\ Ev.op = "case" /\ solo' = Ev.solo /\ cid' = Ev.c /\ ok' = "ok" /\ UNCHANGED <<pc, out, sched>>
        \/ /\ Ev.op = "run" /\ sched' = Ev.s /\ pc' = [i \in 1..Len(solo) |-> 0] /\ out' = [i \in 1..Len(solo) |-> <<>>] /\ ok' = "ok"
           /\ UNCHANGED <<solo, cid>>
        \/ /\ Ev.op = "step"
           /\ LET t == Ev.t + 1  o == out[t] \o Ev.chunk IN
              /\ pc' = [pc EXCEPT ![t] = @ + 1] /\ out' = [out EXCEPT ![t] = o]
              /\ ok' = IF Ev.k # pc[t] + 1 THEN "step numbering"
                       ELSE IF Ev.sh # 0 THEN "shared state changed (tags / value / template)"
                       ELSE IF Ev.pre # 1 THEN "a stream lost content or another render's stream changed"
                       ELSE IF ~IsPrefix(o, solo[t]) THEN "output differs from the solo render"
                       ELSE IF Ev.k = Count(sched, Ev.t) /\ o # solo[t] THEN "finished render is shorter than the solo render"
                       ELSE "ok"
           /\ UNCHANGED <<solo, sched, cid>>
  \/ /\ l = Len(Tr) + 1 /\ UNCHANGED vars
Check == ok = "ok" \/ PrintT(<<"IMPURE", cid, sched, l - 1, ok>>)
Done == l = Len(Tr) + 1 => PrintT(<<"TRACE-END", Len(Tr)>>)
=============================================================================
