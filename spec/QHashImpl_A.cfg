SPECIFICATION Spec
CONSTANTS
  Keys = {1,2,3}
  Vals = {1,2}
  Tables = {1}
  MaxSlots = 4
  HashOf <- HashA
CONSTRAINT Bound
INVARIANTS ChainsWellFormed LookupAgrees
PROPERTIES Refines
CHECK_DEADLOCK FALSE
