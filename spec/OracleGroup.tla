----------------------------- MODULE OracleGroup -----------------------------
(* code -> spec batch oracle (E5) for C18: Value::GroupBy events.             *)
(* Event {g, in, ok, out, unchanged}: in = the array (document), out = the     *)
(* sequence of [name (text units), items (document)] of the grouped object.   *)
EXTENDS QGroupImplDefs, Json, IOUtils
Tr == ndJsonDeserialize(IOEnv.TRACE)
VARIABLE l
Expected(e) == LET gr == GroupBy(Unstrip(e.in), e.g) IN
               [i \in 1..Len(gr) |-> [name |-> gr[i].name, items |-> Strip(A(gr[i].items))]]
EventOK(e) == LET arr == Unstrip(e.in) IN
              /\ Groupable(arr, e.g)                    \* the generator only produces arrays inside the contract
              /\ GroupPartition(arr, e.g)               \* the specification's own partition property
              /\ e.ok = 1 /\ e.unchanged = 1
              /\ e.out = Expected(e)
\* the representation the walk of QGroupImplDefs runs on: the logged slot layout (key ids, 0 = dead slot) with the members' values
SlotsOf(e) == LET arr == Unstrip(e.in) IN
    [i \in 1..Len(e.slots) |-> [j \in 1..Len(e.slots[i]) |->
        IF e.slots[i][j] = 0 THEN Dead ELSE Slot(e.slots[i][j], arr.e[i].m[PosOf(arr.e[i].m, e.slots[i][j])].v)]]
\* the transcription is what the engine does (else: model drift, not a violation)
Drifts(e) == LET r == ImplGroupBy(SlotsOf(e), e.g, "current") IN
             ~(r.ok = (e.ok = 1) /\ (r.ok => e.out = [i \in 1..Len(r.groups) |-> [name |-> r.groups[i].name, items |-> Strip(A(r.groups[i].items))]]))
NB == 64
BSize == (Len(Tr) + NB - 1) \div NB
OInit == l = 0 /\ doc = [r \in Roots |-> U]
ONext == /\ UNCHANGED doc
         /\ \/ l = 0 /\ l' \in {0 - b : b \in 1..NB}
            \/ l < 0 /\ l' \in {i \in (((0 - l) - 1) * BSize + 1)..((0 - l) * BSize) : i <= Len(Tr)}
Check == /\ (l <= 0 \/ EventOK(Tr[l]) \/ PrintT(<<"MISMATCH", l>>))
         /\ (l <= 0 \/ ~Drifts(Tr[l]) \/ PrintT(<<"DRIFT", l>>))
=============================================================================
