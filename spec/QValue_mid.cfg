SPECIFICATION Spec
CONSTANTS
  Roots = {1,2}
  PathTable <- PT_mid
  ValTable <- VT_mid
  MaxSize = 3
  MaxWeight = 8
CONSTRAINT BoundW
INVARIANT DocsWellFormed
PROPERTIES Independent MovedFromUndefined
CHECK_DEADLOCK FALSE
