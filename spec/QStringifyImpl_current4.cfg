SPECIFICATION Spec
CONSTANTS
  MaxEntries = 4
  Variant = "current"
INVARIANT Agree
CHECK_DEADLOCK FALSE
