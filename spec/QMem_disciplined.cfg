SPECIFICATION Spec
CONSTANTS Blocks = {1, 2, 3}
          Variant = "disciplined"
INVARIANTS ExactlyOnce NetZero
CHECK_DEADLOCK FALSE
