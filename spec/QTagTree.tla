------------------------------- MODULE QTagTree -------------------------------
(* What the renderer trusts about a parsed tag tree (C01).                    *)
(* TemplateCore::render walks a container of tag records over a text range    *)
(* [lo, hi): it copies the text from its cursor up to the start of the next   *)
(* record with an UNSIGNED length (start - cursor), lets the record render,   *)
(* moves the cursor to the record's end, and finally copies (hi - cursor).    *)
(* So for every container, in order:  lo <= a(r1) , b(r_i) <= a(r_i+1) ,      *)
(* a(r) <= b(r) , b(r_last) <= hi ; and every container a record owns has its *)
(* own range inside the record's: loop content, each <if> case, the text of   *)
(* a super variable / inline if.  One violated inequality is a copy of ~2^32  *)
(* units (seeded change C01-1: a sub-tag that starts before its case).        *)
(* OracleTagTree checks WellFormed on the tree the real scanner built for     *)
(* every recorded text (hook H2, final event).                                *)
EXTENDS Integers, Sequences, TLC

RECURSIVE InOrder(_, _, _, _)
RECURSIVE RecOK(_)
\* records ts[i..] lie in [cursor, hi) one after the other
InOrder(ts, i, cursor, hi) == IF i > Len(ts) THEN cursor <= hi
                              ELSE /\ cursor <= ts[i].a /\ ts[i].a <= ts[i].b /\ ts[i].b <= hi
                                   /\ RecOK(ts[i])
                                   /\ InOrder(ts, i + 1, ts[i].b, hi)
\* the containers a record owns: ranges inside the record, contents in order inside their range
RecOK(r) == \A j \in 1..Len(r.s) : /\ r.a <= r.s[j].lo /\ r.s[j].lo <= r.s[j].hi /\ r.s[j].hi <= r.b
                                   /\ InOrder(r.s[j].t, 1, r.s[j].lo, r.s[j].hi)
WellFormed(tree, len) == InOrder(tree, 1, 0, len)
=============================================================================
