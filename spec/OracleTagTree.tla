---------------------------- MODULE OracleTagTree ----------------------------
(* code -> spec (E5): the finished tag tree of every recorded template text   *)
(* (harness/h_template.cpp, mode parse, hook H2) against QTagTree.WellFormed. *)
EXTENDS QTagTree, Json, IOUtils
Tr == ndJsonDeserialize(IOEnv.TRACE)
VARIABLE l
EventOK(e) == WellFormed(e.tree, e.len)
OInit == l = 0
ONext == \/ /\ l = 0 /\ l' \in {0 - b : b \in 1..64}
         \/ /\ l < 0 /\ l' \in {i \in 1..Len(Tr) : i % 64 = (0 - l) % 64}
         \/ /\ l > 0 /\ UNCHANGED l
Check == l <= 0 \/ EventOK(Tr[l]) \/ PrintT(<<"MISMATCH", l>>)
=============================================================================
