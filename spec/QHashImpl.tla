----------------------------- MODULE QHashImpl -----------------------------
(* Implementation specification (I): a transcription of                     *)
(* Include/HashTable.hpp + HArray.hpp.  One table = capacity (power of two),*)
(* bucket heads, and an item array; an item carries key, value, hash (0 =   *)
(* removed) and the 1-based index of the next item of its chain.            *)
(* find() walks a chain and returns the *location* that holds the link, as  *)
(* the C++ code does (SizeT *index).  TLC checks that this machine refines  *)
(* the property specification QHash and keeps its chains well formed, with  *)
(* a hash function chosen to collide.                                       *)
EXTENDS Naturals, Sequences, FiniteSets, TLC

CONSTANTS Keys, Vals, Tables, MaxSlots, HashOf

VARIABLE ht    \* ht[t] = [cap |-> .., heads |-> [0..cap-1 -> 0..], items |-> Seq([k, v, hash, next])]

HashA == (1 :> 17 @@ 2 :> 33 @@ 3 :> 49)   \* all keys in one bucket for every capacity <= 16
HashB == (1 :> 17 @@ 2 :> 17 @@ 3 :> 18)   \* two keys with identical hash, one neighbour

Empty == [cap |-> 0, heads |-> <<>>, items |-> <<>>]

Align(n0) == LET n == n0 + (n0 % 2) IN
             CHOOSE p \in {1, 2, 4, 8, 16, 32} : p >= n /\ \A q \in {1, 2, 4, 8, 16, 32} : q >= n => p <= q

Bucket(T, hash) == hash % T.cap        \* hash & (cap - 1), cap a power of two

\* ---- link locations ------------------------------------------------------
HeadLoc(b) == <<"h", b>>
NextLoc(i) == <<"n", i>>
Load(T, loc)  == IF loc[1] = "h" THEN T.heads[loc[2]] ELSE T.items[loc[2]].next
Store(T, loc, x) == IF loc[1] = "h" THEN [T EXCEPT !.heads[loc[2]] = x] ELSE [T EXCEPT !.items[loc[2]].next = x]

\* find(): returns [loc, item] ; item = 0 when absent, loc = where the search stopped
RECURSIVE FindFrom(_, _, _, _, _)
FindFrom(T, loc, k, hash, fuel) ==
    LET i == Load(T, loc) IN
    IF i = 0 \/ fuel = 0 THEN [loc |-> loc, item |-> 0]
    ELSE IF T.items[i].hash = hash /\ T.items[i].k = k THEN [loc |-> loc, item |-> i]
    ELSE FindFrom(T, NextLoc(i), k, hash, fuel - 1)
FindKey(T, k) == FindFrom(T, HeadLoc(Bucket(T, HashOf[k])), k, HashOf[k], Len(T.items) + 1)

\* generateHash(): link every item (also removed ones, hash 0) at the end of its bucket's chain
RECURSIVE ChainEnd(_, _, _)
ChainEnd(T, loc, fuel) == IF Load(T, loc) = 0 \/ fuel = 0 THEN loc ELSE ChainEnd(T, NextLoc(Load(T, loc)), fuel - 1)
RECURSIVE GenFrom(_, _)
GenFrom(T, i) == IF i > Len(T.items) THEN T
                 ELSE LET T1 == [T EXCEPT !.items[i].next = 0]
                          loc == ChainEnd(T1, HeadLoc(Bucket(T1, T1.items[i].hash)), Len(T.items) + 1)
                      IN GenFrom(Store(T1, loc, i), i + 1)
GenerateHash(T) == GenFrom(T, 1)
ZeroHeads(T) == [T EXCEPT !.heads = [b \in 0..(T.cap - 1) |-> 0]]

Allocate(n) == LET c == Align(n) IN [cap |-> c, heads |-> [b \in 0..(c - 1) |-> 0], items |-> <<>>]

LiveItems(T) == SelectSeq(T.items, LAMBDA it : it.hash # 0)
\* resize(): new block, live items moved in order, chains rebuilt
ResizeTo(T, n) == GenerateHash([Allocate(n) EXCEPT !.items = LiveItems(T)])
ExpandT(T) == ResizeTo(T, (IF T.cap = 0 THEN 1 ELSE T.cap) * 2)
EnsureRoom(T) == IF Len(T.items) = T.cap THEN ExpandT(T) ELSE T

\* insert(index, key, hash): append, *index = Size()
InsertAt(T, loc, k, v) ==
    LET n == Len(T.items) + 1
        T1 == [T EXCEPT !.items = Append(@, [k |-> k, v |-> v, hash |-> HashOf[k], next |-> 0])]
    IN Store(T1, loc, n)

DoInsert(T0, k, v) ==       \* HArray::Insert
    LET T == EnsureRoom(T0)  f == FindKey(T, k) IN
    IF f.item = 0 THEN InsertAt(T, f.loc, k, v) ELSE [T EXCEPT !.items[f.item].v = v]
DoGet(T0, k) ==             \* HArray::Get / operator[]
    LET T == EnsureRoom(T0)  f == FindKey(T, k) IN
    IF f.item = 0 THEN InsertAt(T, f.loc, k, 0) ELSE T
DoRemoveKey(T, k) ==        \* remove(): *index = item->Next; Next = 0; Hash = 0; Clear()
    IF Len(T.items) = 0 THEN T
    ELSE LET f == FindKey(T, k) IN
         IF f.item = 0 THEN T
         ELSE LET nx == T.items[f.item].next
                  T1 == Store(T, f.loc, nx)
              IN [T1 EXCEPT !.items[f.item] = [k |-> 0, v |-> 0, hash |-> 0, next |-> 0]]
DoRemoveIndex(T, i) == IF i < Len(T.items) /\ T.items[i + 1].hash # 0 THEN DoRemoveKey(T, T.items[i + 1].k) ELSE T
DoRename(T, a, b) ==
    IF Len(T.items) = 0 THEN T
    ELSE LET fl == FindKey(T, a) IN
         IF Load(T, fl.loc) = 0 THEN T
         ELSE LET fr == FindKey(T, b) IN
              IF Load(T, fr.loc) # 0 THEN T
              ELSE LET idx == Load(T, fl.loc)
                       T1 == Store(T, fr.loc, idx)                    \* *right_index = *left_index
                       T2 == Store(T1, fl.loc, T1.items[idx].next)    \* *left_index  = item->Next
                   IN [T2 EXCEPT !.items[idx].next = 0, !.items[idx].hash = HashOf[b], !.items[idx].k = b]
Min(a, b) == IF a < b THEN a ELSE b
DoResize(T, n) == IF n = 0 THEN Empty
                  ELSE ResizeTo([T EXCEPT !.items = SubSeq(@, 1, Min(n, Len(@)))], n)
DoExpect(T, c) == IF c + Len(T.items) > T.cap THEN ResizeTo(T, c + Len(T.items)) ELSE T
DoCompress(T)  == LET n == Len(LiveItems(T)) IN
                  IF n # 0 THEN (IF n < Len(T.items) THEN ResizeTo(T, n) ELSE T) ELSE Empty
DoClear(T)     == IF Len(T.items) # 0 THEN ZeroHeads([T EXCEPT !.items = <<>>]) ELSE T
DoReserve(n)   == IF n # 0 THEN Allocate(n) ELSE Empty
DoCopy(S)      == IF Len(S.items) # 0 THEN GenerateHash([Allocate(Len(S.items)) EXCEPT !.items = LiveItems(S)]) ELSE Empty

\* Sort: removed items have the blank key (0) and therefore sort first (ascending) / last (descending)
RECURSIVE InsSorted(_, _, _)
InsSorted(x, s, asc) == IF s = <<>> THEN <<x>>
                        ELSE IF (asc /\ x.k < Head(s).k) \/ (~asc /\ x.k > Head(s).k) THEN <<x>> \o s
                        ELSE <<Head(s)>> \o InsSorted(x, Tail(s), asc)
RECURSIVE SortItems(_, _)
SortItems(s, asc) == IF s = <<>> THEN <<>> ELSE InsSorted(Head(s), SortItems(Tail(s), asc), asc)
DoSort(T, asc) == IF T.cap = 0 THEN T ELSE GenerateHash(ZeroHeads([T EXCEPT !.items = SortItems(@, asc)]))

\* operator+=(const HArray&) / operator+=(HArray&&)
RECURSIVE MergeItems(_, _, _)
MergeItems(T, its, i) ==
    IF i > Len(its) THEN T
    ELSE IF its[i].hash = 0 THEN MergeItems(T, its, i + 1)
    ELSE LET f == FindKey(T, its[i].k) IN
         MergeItems(IF f.item = 0 THEN InsertAt(T, f.loc, its[i].k, its[i].v) ELSE [T EXCEPT !.items[f.item].v = its[i].v],
                    its, i + 1)
DoMerge(T, S) == LET n == Len(T.items) + Len(S.items)
                     T1 == IF n > T.cap THEN ResizeTo(T, n) ELSE T
                 IN MergeItems(T1, S.items, 1)

\* ------------------------------- actions --------------------------------
Init == ht = [t \in Tables |-> Empty]
Set(t, T) == ht' = [ht EXCEPT ![t] = T]

Insert(t, k, v)   == Set(t, DoInsert(ht[t], k, v))
GetOrCreate(t, k) == Set(t, DoGet(ht[t], k))
Remove(t, k)      == Set(t, DoRemoveKey(ht[t], k))
RemoveIndex(t, i) == Set(t, DoRemoveIndex(ht[t], i))
Rename(t, a, b)   == Set(t, DoRename(ht[t], a, b))
Resize(t, n)      == Set(t, DoResize(ht[t], n))
Expect(t, c)      == Set(t, DoExpect(ht[t], c))
Compress(t)       == Set(t, DoCompress(ht[t]))
Clear(t)          == Set(t, DoClear(ht[t]))
Reset(t)          == Set(t, Empty)
Reserve(t, n)     == Set(t, DoReserve(n))
Sort(t, asc)      == Set(t, DoSort(ht[t], asc))
CopyFrom(t, u)    == t # u /\ Set(t, DoCopy(ht[u]))
MoveFrom(t, u)    == t # u /\ ht' = [ht EXCEPT ![t] = ht[u], ![u] = Empty]
MergeCopy(t, u)   == t # u /\ Set(t, DoMerge(ht[t], ht[u]))
MergeMove(t, u)   == t # u /\ ht' = [ht EXCEPT ![t] = DoMerge(ht[t], ht[u]), ![u] = Empty]

Next == \E t \in Tables :
          \/ \E k \in Keys, v \in Vals : Insert(t, k, v)
          \/ \E k \in Keys : GetOrCreate(t, k) \/ Remove(t, k)
          \/ \E i \in 0..MaxSlots : RemoveIndex(t, i) \/ Resize(t, i) \/ Reserve(t, i)
          \/ \E c \in 1..2 : Expect(t, c)
          \/ \E a, b \in Keys : Rename(t, a, b)
          \/ Compress(t) \/ Clear(t) \/ Reset(t)
          \/ \E asc \in BOOLEAN : Sort(t, asc)
          \/ \E u \in Tables : CopyFrom(t, u) \/ MoveFrom(t, u) \/ MergeCopy(t, u) \/ MergeMove(t, u)

Spec == Init /\ [][Next]_ht
Bound == \A t \in Tables : Len(ht[t].items) <= MaxSlots /\ ht[t].cap <= 8

\* ----------------------- refinement to the property spec ------------------
AbsSlot(it) == IF it.hash # 0 THEN [k |-> it.k, v |-> it.v, live |-> TRUE] ELSE [k |-> 0, v |-> 0, live |-> FALSE]
Abs(T) == [i \in 1..Len(T.items) |-> AbsSlot(T.items[i])]
P == INSTANCE QHash WITH tb <- [t \in Tables |-> Abs(ht[t])]
Refines == [][P!Next]_ht          \* every implementation step is a step of QHash

\* ----------------------- structural invariants ---------------------------
RECURSIVE Chain(_, _, _)
Chain(T, i, fuel) == IF i = 0 \/ fuel = 0 THEN <<>> ELSE <<i>> \o Chain(T, T.items[i].next, fuel - 1)
ChainOf(T, b) == Chain(T, T.heads[b], Len(T.items) + 1)
InRange(T) == /\ Len(T.items) <= T.cap
              /\ \A b \in DOMAIN T.heads : T.heads[b] <= Len(T.items)
              /\ \A i \in 1..Len(T.items) : T.items[i].next <= Len(T.items)
WellFormed(T) ==
    /\ InRange(T)
    /\ \A b \in DOMAIN T.heads :
         LET ch == ChainOf(T, b) IN
         /\ Len(ch) <= Len(T.items)                                         \* acyclic
         /\ \A x, y \in 1..Len(ch) : ch[x] = ch[y] => x = y
         /\ \A x \in 1..Len(ch) : T.items[ch[x]].hash # 0 => Bucket(T, T.items[ch[x]].hash) = b
    /\ \A i \in 1..Len(T.items) : T.items[i].hash # 0 =>                       \* every live item is reachable from its bucket
         \E x \in 1..Len(ChainOf(T, Bucket(T, T.items[i].hash))) : ChainOf(T, Bucket(T, T.items[i].hash))[x] = i
    /\ \A i, j \in 1..Len(T.items) : (T.items[i].hash # 0 /\ T.items[j].hash # 0 /\ T.items[i].k = T.items[j].k) => i = j
    /\ \A i \in 1..Len(T.items) : T.items[i].hash = 0 => T.items[i].k = 0 /\ T.items[i].v = 0
ChainsWellFormed == \A t \in Tables : WellFormed(ht[t])
LookupAgrees == \A t \in Tables : \A k \in Keys :
    ht[t].cap # 0 => ((FindKey(ht[t], k).item # 0) <=> (\E i \in 1..Len(ht[t].items) : ht[t].items[i].hash # 0 /\ ht[t].items[i].k = k))
=============================================================================
