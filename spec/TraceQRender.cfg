INIT TInit
NEXT TNext
INVARIANTS Check Done
CHECK_DEADLOCK TRUE
