INIT TInit
NEXT TNext
CONSTANTS
  Keys = {1,2,3,4,5,6,7,8,9,10,11,12}
  Vals = {1,2,3,4,5}
  Tables = {1,2}
  MaxSlots = 64
INVARIANTS NoDupLiveKeys DeadAreBlank TypeOK
CHECK_DEADLOCK TRUE
