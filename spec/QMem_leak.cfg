SPECIFICATION Spec
CONSTANTS Blocks = {1, 2, 3}
          Variant = "leak"
INVARIANTS ExactlyOnce NetZero
CHECK_DEADLOCK FALSE
