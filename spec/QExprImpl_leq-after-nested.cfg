SPECIFICATION Spec
CONSTANTS MaxOps = 4
          Variant = "leq-after-nested"
INVARIANTS Agree Consumes
CHECK_DEADLOCK FALSE
