SPECIFICATION Spec
CONSTANTS
  WBits = 24
  WordBits = 8
  Operands = {0, 1, 2, 127, 128, 255}
  Wide = {256, 384, 65535}
  Shifts = {0, 1, 7, 8, 9, 16, 17, 24}
  MaxSteps = 4
INVARIANT TypeOK
CHECK_DEADLOCK FALSE
