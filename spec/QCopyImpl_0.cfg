SPECIFICATION Spec
CONSTANTS
  B = 0
  MaxN = 12
  Pad = 2
INVARIANTS Exact NoStrayWrite ReadInBounds
PROPERTY Terminates
