SPECIFICATION Spec
CONSTANT MaxLen = 4
INVARIANTS NoBad OwnerOnTop LoopTagLive AllClosedAtEnd
CHECK_DEADLOCK FALSE
