SPECIFICATION Spec
CONSTANTS
  W = 3
  L = 3
INVARIANTS Exact IndexNormalised ReturnsExact LimbAccessInBounds
CHECK_DEADLOCK FALSE
