INIT OInit
NEXT ONext
CONSTANTS
  Roots = {1}
  PathTable <- PT_small
  ValTable <- VT_small
  MaxSize = 100
  MaxWeight = 100
INVARIANT Check
CHECK_DEADLOCK FALSE
