------------------------------ MODULE OracleExpr ------------------------------
(* code -> spec batch oracle (E5) for C04.  Event:                            *)
(*  {text, tokens, ok, exact, n, math, iif, blk}: the expression text, its     *)
(*  token structure (from the generator), the result of ParseExpressions +     *)
(*  Evaluate (ok; n = value * 16 when exactly representable) and the text      *)
(*  rendered for {math:E}, {if case="E" true="T" false="F"} and                *)
(*  <if case="E">T<else />F</if>.                                              *)
EXTENDS QExprImplDefs, Json, IOUtils
Tr == ndJsonDeserialize(IOEnv.TRACE)
VARIABLE l
Observed(e) == IF e.ok = 1 THEN (IF e.exact = 1 THEN Num(e.n) ELSE [t |-> "inexact"]) ELSE None
MathSource(e) == <<123, 109, 97, 116, 104, 58>> \o e.text \o <<125>>          \* {math:...}
EventOK(e) ==
    LET A == Admissible(e.tokens)  o == Observed(e) IN
    IF Unjudged \in A THEN TRUE
    ELSE /\ o \in A                                                              \* the value is the value of an admissible parse tree
         /\ (o.t = "num" /\ o.n # 0 /\ (IF o.n < 0 THEN 0 - o.n ELSE o.n) % 4 = 0) => e.math = QuarterText(o.n)   \* {math:} prints it
         /\ (o.t = "num" /\ o.n = 0) => e.math \in {<<48>>, <<45, 48>>}                                        \* 0 (an IEEE -0 prints as -0)
         /\ o.t = "none" => e.math = MathSource(e)                               \* no value: the tag renders as its own source
         /\ o.t = "num" => (e.iif = (IF o.n > 0 THEN <<84>> ELSE <<70>>) /\ e.blk = (IF o.n > 0 THEN <<84>> ELSE <<70>>))
         /\ o.t = "none" => (e.blk = <<70>> /\ e.iif \in {<<>>, <<70>>})          \* a condition without value is not satisfied
NB == 64
BSize == (Len(Tr) + NB - 1) \div NB
OInit == l = 0
ONext == \/ l = 0 /\ l' \in {0 - b : b \in 1..NB}
         \/ l < 0 /\ l' \in {i \in (((0 - l) - 1) * BSize + 1)..((0 - l) * BSize) : i <= Len(Tr)}
\* recorded defect class: the only disagreement is the sign of a power with a negative base and a negative even exponent
RECURSIVE HasNegPow(_)
HasNegPow(l0) == \E i \in 1..Len(l0) :
                   \/ (i % 2 = 1 /\ l0[i].t = "sub" /\ HasNegPow(l0[i].e))
                   \/ (i % 2 = 0 /\ l0[i] = "^")
NegPow(e) == LET o == Observed(e) IN HasNegPow(e.tokens) /\ Unjudged \notin AdmissiblePinned(e.tokens) /\ o \in AdmissiblePinned(e.tokens)
\* the transcription QExprImplDefs (what TLC checks against the specification for every operator sequence) is what the engine does:
\* the observed value is the value of the transcribed walk (with the recorded power defect pinned), wherever that is judged
Drifts(e) == LET v == ImplValueOf(e.tokens, TRUE, "current") IN v # Unjudged /\ v # Observed(e)
Check == /\ (l <= 0 \/ ~Drifts(Tr[l]) \/ PrintT(<<"DRIFT", l>>))
         /\ (l <= 0 \/ EventOK(Tr[l]) \/ (IF NegPow(Tr[l]) THEN PrintT(<<"NEGPOW", l>>) ELSE PrintT(<<"MISMATCH", l>>)))
         /\ (l <= 0 \/ Unjudged \notin Admissible(Tr[l].tokens) \/ PrintT(<<"UNJ", l>>))          \* (counted in the evidence: not judged)
=============================================================================
