SPECIFICATION Spec
CONSTANTS Threads = {0,1}
          K = 6
          Variant = "pure"
INVARIANTS SoloEqual Sound
PROPERTIES PureShared AppendOnly OneWriter
CHECK_DEADLOCK FALSE
