--------------------------- MODULE QGroupImplDefs ---------------------------
(* The walk of Value::GroupBy (Value.hpp) over the REPRESENTATION of the     *)
(* records: an object is a sequence of slots [k, v, live]; a removed member  *)
(* leaves a dead slot behind, which still counts as a position.              *)
(*   for every record: idx := slot index of the live member named g (fail if *)
(*   none / not an object); walk ALL slots with a running count: the slot at *)
(*   idx gives the group name (text of a string, else the printed scalar;    *)
(*   fail if it has no text); every other live slot with a defined value is  *)
(*   copied to the new record; the record is appended to the group of that   *)
(*   name (created at the end on first appearance).                          *)
(* `str` (the name) lives outside the loop over the records, as in the code. *)
(* Variant reproduces seeded / earlier behaviours of the same lines:         *)
(*   "skip-dead-uncounted"  dead slots are skipped before the count advances *)
(*                          (seeds C18-1, C18-2)                             *)
(*   "prefix-newest"        the newest group is tried first with a compare   *)
(*                          over the length of the wanted name only (C18-3)  *)
(*   "key-first"            the key is taken to be the first member          *)
(*                          (the behaviour before the GroupBy repair)        *)
EXTENDS QValue

Slot(k, v) == [k |-> k, v |-> v, live |-> TRUE]
Dead == [k |-> 0, v |-> U, live |-> FALSE]
\* the abstract record of a slot sequence: the live members with a defined value
AbsRecord(r) == O([i \in 1..Len(SelectSeq(r, LAMBDA s : s.live)) |->
                      LET s == SelectSeq(r, LAMBDA x : x.live)[i] IN [k |-> s.k, v |-> s.v]])
AbsArray(arr) == A([i \in 1..Len(arr) |-> AbsRecord(arr[i])])

KeyIndex(r, g) == {i \in 1..Len(r) : r[i].live /\ r[i].k = g}
HasText(v) == v.t \in {"S", "T", "F", "Z", "N"}
IsPrefixOfLen(long, short) == Len(long) >= Len(short) /\ SubSeq(long, 1, Len(short)) = short

\* one record: returns [ok, name, item]   (st.name: the name left by the previous record)
RECURSIVE WalkSlots(_, _, _, _, _, _)
WalkSlots(r, i, count, idx, st, variant) ==
    IF i > Len(r) THEN st
    ELSE LET s == r[i] IN
         IF variant = "skip-dead-uncounted" /\ ~s.live THEN WalkSlots(r, i + 1, count, idx, st, variant)
         ELSE IF count = idx - 1
              THEN (IF HasText(s.v) THEN WalkSlots(r, i + 1, count + 1, idx, [st EXCEPT !.name = TextOf(s.v)], variant)
                    ELSE [st EXCEPT !.ok = FALSE])
              ELSE IF s.live /\ ~IsU(s.v)
                   THEN WalkSlots(r, i + 1, count + 1, idx, [st EXCEPT !.item = PutKey(@, s.k, s.v)], variant)
                   ELSE WalkSlots(r, i + 1, count + 1, idx, st, variant)

RECURSIVE GroupWalk(_, _, _, _, _)
GroupWalk(arr, n, g, acc, variant) ==          \* acc: [ok, name (str), groups]
    IF n > Len(arr) \/ ~acc.ok THEN acc
    ELSE LET r == arr[n]
             idx == IF variant = "key-first" THEN {1} ELSE KeyIndex(r, g) IN
         IF idx = {} THEN [acc EXCEPT !.ok = FALSE]
         ELSE LET w == WalkSlots(r, 1, 0, CHOOSE i \in idx : TRUE, [ok |-> TRUE, name |-> acc.name, item |-> <<>>], variant)
                  item == O(w.item)
                  gs == acc.groups
                  newest == variant = "prefix-newest" /\ gs # <<>> /\ IsPrefixOfLen(gs[Len(gs)].name, w.name)
                  pos == {i \in 1..Len(gs) : gs[i].name = w.name}
              IN IF ~w.ok THEN [acc EXCEPT !.ok = FALSE]
                 ELSE GroupWalk(arr, n + 1, g,
                                [ok |-> TRUE, name |-> w.name,
                                 groups |-> IF newest THEN [gs EXCEPT ![Len(gs)].items = Append(@, item)]
                                            ELSE IF pos = {} THEN Append(gs, [name |-> w.name, items |-> <<item>>])
                                            ELSE [gs EXCEPT ![CHOOSE i \in pos : TRUE].items = Append(@, item)]],
                                variant)
\* [ok, groups]; an empty array groups into no groups (before the repair of GroupBy it was refused)
ImplGroupBy(arr, g, variant) ==
    IF arr = <<>> THEN [ok |-> variant # "empty-refused", groups |-> <<>>]
    ELSE LET w == GroupWalk(arr, 1, g, [ok |-> TRUE, name |-> <<>>, groups |-> <<>>], variant) IN [ok |-> w.ok, groups |-> IF w.ok THEN w.groups ELSE <<>>]
=============================================================================
