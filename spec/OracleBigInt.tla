---------------------------- MODULE OracleBigInt ----------------------------
(* code -> spec batch oracle (E5) for C19.  Every event is one operation of  *)
(* a real BigInt<word, width> with the value before and after as bytes:      *)
(*  {op, bits (total width), wb (word bits), b (before), a (arg), r (after), *)
(*   ret (returned value: remainder bytes / bit index / flags), idx, k}      *)
(* The mathematical relation of QBigInt is verified on the logged values;    *)
(* operations whose exact result does not fit `bits` are outside the         *)
(* property (the recorder avoids them; the oracle re-checks the premise).    *)
EXTENDS QBigNat, Json, IOUtils
Tr == ndJsonDeserialize(IOEnv.TRACE)
VARIABLE l
FitsBits(s, n) == Len(s) <= n
B(c) == IF c THEN 1 ELSE 0
TopLimb(e) == LET nb == Len(Norm(e.r)) IN IF nb = 0 THEN 0 ELSE (nb - 1) \div (e.wb \div 8)    \* index of the highest non-zero word
Relation(e) ==
    CASE e.op = "set" -> EqN(e.r, e.a)
      [] e.op = "add" -> FitsBits(Bits(AddN(e.b, e.a)), e.bits) => EqN(e.r, AddN(e.b, e.a))
      [] e.op = "sub" -> ~LessN(e.b, e.a) => EqN(e.b, AddN(e.r, e.a))
      [] e.op = "mul" -> FitsBits(Bits(MulN(e.b, e.a)), e.bits) => EqN(e.r, MulN(e.b, e.a))
      [] e.op = "div" -> EqN(e.b, AddN(MulN(e.r, e.a), e.ret)) /\ LessN(e.ret, e.a)
      [] e.op = "shl" -> FitsBits(ShlBits(Bits(e.b), e.k), e.bits) => Bits(e.r) = ShlBits(Bits(e.b), e.k)
      [] e.op = "shr" -> Bits(e.r) = ShrBits(Bits(e.b), e.k)
      [] e.op = "or"  -> Bits(e.r) = OrBits(Bits(e.b), Bits(e.a))
      [] e.op = "and" -> Bits(e.r) = AndBits(Bits(e.b), Bits(e.a))
      [] e.op = "firstbit" -> EqN(e.r, e.b) /\ (~IsZeroN(e.b) => e.k = FirstSet(Bits(e.b), 1))
      [] e.op = "lastbit"  -> EqN(e.r, e.b) /\ (~IsZeroN(e.b) => e.k = Len(Bits(e.b)) - 1)
      [] e.op = "cmp" -> /\ EqN(e.r, e.b)                     \* a = word operand; k = flags  < <= > >= == !=
                         /\ e.k = 32 * B(LessN(e.b, e.a)) + 16 * B(~LessN(e.a, e.b)) + 8 * B(LessN(e.a, e.b))
                                  + 4 * B(~LessN(e.b, e.a)) + 2 * B(EqN(e.a, e.b)) + B(~EqN(e.a, e.b))
      [] e.op = "narrow" -> EqN(e.r, e.b) /\ EqN(e.ret, SubSeq(e.b, 1, IF Len(e.b) < 8 THEN Len(e.b) ELSE 8))
      [] e.op = "copy" -> EqN(e.r, e.b)
      [] e.op = "helperdiv" -> EqN(e.b, AddN(MulN(e.r, e.a), e.ret)) /\ LessN(e.ret, e.a)     \* b = hi:lo, r = quotient word, ret = remainder
      [] e.op = "helpermul" -> EqN(e.r, MulN(e.b, e.a))
      [] OTHER -> FALSE
InContract(e) ==      \* premise re-checked by the oracle: the exact result fits
    CASE e.op = "add" -> FitsBits(Bits(AddN(e.b, e.a)), e.bits)
      [] e.op = "sub" -> ~LessN(e.b, e.a)
      [] e.op = "mul" -> FitsBits(Bits(MulN(e.b, e.a)), e.bits)
      [] e.op = "shl" -> FitsBits(ShlBits(Bits(e.b), e.k), e.bits)
      [] OTHER -> TRUE
EventOK(e) == /\ Relation(e)
              /\ (InContract(e) /\ e.op \notin {"helperdiv", "helpermul"}) =>
                    /\ e.idx = TopLimb(e)                                  \* Index() is the highest non-zero word
                    /\ e.zero = B(IsZeroN(e.r))                             \* IsZero() / NotZero() agree with the value
NB == 64
BSize == (Len(Tr) + NB - 1) \div NB
OInit == l = 0
ONext == \/ l = 0 /\ l' \in {0 - b : b \in 1..NB}
         \/ l < 0 /\ l' \in {i \in (((0 - l) - 1) * BSize + 1)..((0 - l) * BSize) : i <= Len(Tr)}
Check == l <= 0 \/ EventOK(Tr[l]) \/ PrintT(<<"MISMATCH", l>>)
=============================================================================
