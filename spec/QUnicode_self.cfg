INIT Init
NEXT Next
INVARIANT OK
CHECK_DEADLOCK FALSE
