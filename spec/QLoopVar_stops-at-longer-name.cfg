SPECIFICATION Spec
CONSTANTS Variant = "stops-at-longer-name"
          MaxLoops = 3
          MaxName = 2
          MaxRef = 4
INVARIANTS Agree
CHECK_DEADLOCK FALSE
