INIT TInit
NEXT TNext
CONSTANTS
  Roots = {1,2}
  PathTable <- PT_small
  ValTable <- VT_small
  MaxSize = 100
  MaxWeight = 100
INVARIANT DocsWellFormed
CHECK_DEADLOCK TRUE
