INIT Init
NEXT Next
CONSTANT WB = 6
INVARIANTS DivExact MulExact
CHECK_DEADLOCK FALSE
