----------------------------- MODULE QRenderInd -----------------------------
(* Inductive-invariant check of the pure design of QRender with Apalache:    *)
(* for EVERY number of steps K in 1..12 and 3 renders (not only the bounded  *)
(* configurations TLC enumerates), IndInv is inductive and implies Sound and *)
(* SoloEqual.  Init => IndInv (length 0) and IndInv /\ Next => IndInv'       *)
(* (length 1).                                                               *)
EXTENDS Integers, Sequences, Apalache

CONSTANTS
    \* @type: Set(Int);
    Threads,
    \* @type: Int;
    K

VARIABLES
    \* @type: Int -> Int;
    pc,
    \* @type: Int -> Seq(<<Int, Int>>);
    out,
    \* @type: Int;
    shared

ConstInit == Threads = {0, 1, 2} /\ K \in 1..12

\* @type: (Int, Int) => <<Int, Int>>;
Chunk(t, k) == <<t, k>>

Init == /\ pc = [t \in Threads |-> 0] /\ out = [t \in Threads |-> <<>>] /\ shared = 0
PureStep(t) == /\ pc[t] < K /\ pc' = [pc EXCEPT ![t] = @ + 1]
               /\ out' = [out EXCEPT ![t] = Append(@, Chunk(t, pc[t] + 1))]
               /\ UNCHANGED shared
Next == \E t \in Threads : PureStep(t)

IndInv == /\ shared = 0
          /\ DOMAIN pc = Threads /\ DOMAIN out = Threads
          /\ \A t \in Threads : /\ pc[t] \in 0..K /\ Len(out[t]) = pc[t]
                                /\ \A k \in 1..12 : k <= pc[t] => out[t][k] = Chunk(t, k)
\* what the property demands: a finished render produced exactly the solo chunks, an unfinished one a prefix of them
\* an arbitrary state satisfying the invariant (Gen: any value of the variable's type, containers up to the bound)
IndInit == pc = Gen(3) /\ out = Gen(12) /\ shared = Gen(1) /\ IndInv
Sound == \A t \in Threads : \A k \in 1..12 : k <= Len(out[t]) => (k <= K /\ out[t][k] = Chunk(t, k))
SoloEqual == \A t \in Threads : pc[t] = K => Len(out[t]) = K
Goal == Sound /\ SoloEqual
=============================================================================
