------------------------------ MODULE QExprImpl ------------------------------
(* Implementation specification (I) for C04: the operator-precedence walk of  *)
(* TemplateCore::evaluate (Template.hpp).  An expression is a flat array of   *)
(* items, each with the operator that FOLLOWS it (none after the last); every *)
(* operator has its own rank (QOperation: || 1, && 2, == 3, != 4, >= 5, <= 6, *)
(* > 7, < 8, | 9, & 10, + 11, - 12, * 13, / 14, % 15, ^ 16).                   *)
(*   evaluate(left, expr, previous):                                          *)
(*     left := value(expr)                                                    *)
(*     while expr has an operator op:                                         *)
(*        if rank(op) >= rank(operator after the next item)                   *)
(*             left := left op value(next);  expr := next                     *)
(*        else (right, expr) := evaluate(next, op);  left := left op right    *)
(*        if not (previous < rank(operator after expr)) return                *)
(* The walk is transcribed as a recursive operator on the same exact          *)
(* arithmetic as QExpr (Apply), so that only the SHAPE of the computation can *)
(* differ from the specification.  TLC checks, for EVERY sequence of up to    *)
(* MaxOps operators (16 each) over fixed small operands, that the value is    *)
(* the value of a parse tree the documentation admits (QExpr.Admissible), and *)
(* rejects the two earlier / seeded behaviours of the same lines:             *)
(*   "leq-after-nested"   `previous <= rank` after a nested chain (C04-1)     *)
(*   "always-continue"    the looser operator after a nested, tighter chain   *)
(*                        is consumed inside the inner operand (before dda279d)*)
EXTENDS QExprImplDefs

CONSTANTS MaxOps, Variant
Operands == <<112, 32, 48, 16, 80, 32>>      \* operand values (scaled by 16: 7 2 3 1 5 2), used in order

VARIABLES ops        \* the operators of the expression, in order
Init == ops = <<>>
Next == Len(ops) < MaxOps /\ \E r \in 1..16 : ops' = Append(ops, OpNames[r])
Spec == Init /\ [][Next]_ops

Tokens == [k \in 1..(2 * Len(ops) + 1) |-> IF k % 2 = 1 THEN [t |-> "lit", n |-> Operands[(k + 1) \div 2]] ELSE ops[k \div 2]]
Agree == LET A == Admissible(Tokens) IN Unjudged \in A \/ ImplValueOf(Tokens, FALSE, Variant) \in A
\* the walk consumes the whole expression
Consumes == ImplRun(Tokens, FALSE, Variant).i = Len(ops) + 1
=============================================================================
