----------------------------- MODULE QEscapeImpl -----------------------------
(* Implementation specification (I): transcription of                        *)
(* StringUtils::EscapeHTMLSpecialChars (StringUtils.hpp:205-290): the         *)
(* offset/index cursor pair, the three look-ahead guards, every str[...]      *)
(* read recorded so that TLC can check ReadInBounds; plus the laws of the     *)
(* property specification and equality with its Escape, for every string up   *)
(* to MaxLen over Alphabet.                                                   *)
EXTENDS QEscape, FiniteSets
CONSTANTS Alphabet, MaxLen

\* IsEqual(n_str, literal, k): reads n_str[0..] until mismatch or k
RECURSIVE EqReads(_, _, _, _, _)
EqReads(s, base, lit, k, j) ==      \* returns [eq, maxread]  (0-based offsets relative to s start; maxread = highest index read, -1 -> 0 here as base)
    IF j = k THEN [eq |-> TRUE, hi |-> base + j - 1]
    ELSE IF base + j >= Len(s) THEN [eq |-> FALSE, hi |-> base + j]          \* would read out of bounds
    ELSE IF s[base + j + 1] # lit[j + 1] THEN [eq |-> FALSE, hi |-> base + j]
    ELSE EqReads(s, base, lit, k, j + 1)

Max(a, b) == IF a > b THEN a ELSE b

\* one '&' step at 0-based index: returns [skip, hi] ; skip = 0 means "not an entity: emit &amp;"
AmpStep(s, index) ==
    LET rem == Len(s) - index
        g5  == rem > 5 /\ s[index + 5 + 1] = SEMI
        q   == IF g5 THEN EqReads(s, index, EQuot, 5, 0) ELSE [eq |-> FALSE, hi |-> index]
        a   == IF g5 /\ ~q.eq THEN EqReads(s, index, EApos, 5, 0) ELSE [eq |-> FALSE, hi |-> index]
        hi5 == IF rem > 5 THEN Max(index + 5, Max(q.hi, a.hi)) ELSE index
        g4  == rem > 4 /\ s[index + 4 + 1] = SEMI
        m   == IF g4 THEN EqReads(s, index, EAmp, 4, 0) ELSE [eq |-> FALSE, hi |-> index]
        hi4 == IF rem > 4 THEN Max(index + 4, m.hi) ELSE index
        g3  == rem > 3 /\ s[index + 3 + 1] = SEMI
        l   == IF g3 THEN EqReads(s, index, ELt, 3, 0) ELSE [eq |-> FALSE, hi |-> index]
        g   == IF g3 /\ ~l.eq THEN EqReads(s, index, EGt, 3, 0) ELSE [eq |-> FALSE, hi |-> index]
        hi3 == IF rem > 3 THEN Max(index + 3, Max(l.hi, g.hi)) ELSE index
    IN IF g5 /\ (q.eq \/ a.eq) THEN [skip |-> 6, hi |-> hi5]
       ELSE IF g4 /\ m.eq THEN [skip |-> 5, hi |-> Max(hi5, hi4)]
       ELSE IF g3 /\ (l.eq \/ g.eq) THEN [skip |-> 4, hi |-> Max(hi5, Max(hi4, hi3))]
       ELSE [skip |-> 0, hi |-> Max(hi5, Max(hi4, hi3))]

\* the while loop; out = stream, off = offset (last flushed), idx = index, hi = highest offset read so far
RECURSIVE Loop(_, _, _, _, _)
Loop(s, out, off, idx, hi) ==
    IF idx >= Len(s) THEN [out |-> out \o SubSeq(s, off + 1, Len(s)), hi |-> hi]
    ELSE LET ch == s[idx + 1]  h1 == Max(hi, idx) IN
         IF ch = AMP THEN
            LET st == AmpStep(s, idx) IN
            IF st.skip # 0 THEN Loop(s, out, off, idx + st.skip, Max(h1, st.hi))
            ELSE Loop(s, out \o SubSeq(s, off + 1, idx) \o EAmp, idx + 1, idx + 1, Max(h1, st.hi))
         ELSE IF ch = LT THEN Loop(s, out \o SubSeq(s, off + 1, idx) \o ELt, idx + 1, idx + 1, h1)
         ELSE IF ch = GT THEN Loop(s, out \o SubSeq(s, off + 1, idx) \o EGt, idx + 1, idx + 1, h1)
         ELSE IF ch = QUOT THEN Loop(s, out \o SubSeq(s, off + 1, idx) \o EQuot, idx + 1, idx + 1, h1)
         ELSE IF ch = APOS THEN Loop(s, out \o SubSeq(s, off + 1, idx) \o EApos, idx + 1, idx + 1, h1)
         ELSE Loop(s, out, off, idx + 1, h1)
Run(s) == Loop(s, <<>>, 0, 0, 0)

VARIABLE s
\* strings are grown symbol by symbol so that TLC's workers share the enumeration
Init == s = <<>>
Next == Len(s) < MaxLen /\ \E a \in Alphabet : s' = Append(s, a)

ReadInBounds   == Len(s) > 0 => Run(s).hi < Len(s)
EqualsSpec     == Run(s).out = Escape(s)
LawSafe        == Safe(Escape(s))
LawDecode      == Decode(Escape(s)) = Decode(s)
LawIdempotent  == Escape(Escape(s)) = Escape(s)
LawNoSpecials  == (\A i \in 1..Len(s) : s[i] \notin {AMP, LT, GT, QUOT, APOS}) => Escape(s) = s
=============================================================================
