----------------------------- MODULE QDigitParse -----------------------------
(* Property specification (P) for C09: decimal numerals                      *)
(*     [+-]? digits (. digits)? ([eE] [+-]? digits)?                          *)
(* (no leading zero in a multi-digit integer part), their exact value        *)
(* D * 10^k, the class the converter must report and the set of admissible    *)
(* double bit patterns ("within one unit in the last place of the correctly  *)
(* rounded value"), all on byte-level naturals (QBigNat).                    *)
EXTENDS QBigNat, QDecNat
At(t, p) == IF p <= Len(t) THEN t[p] ELSE -1
IsDigit(c) == c >= 48 /\ c <= 57
RECURSIVE DigitsEnd(_, _)
DigitsEnd(t, p) == IF IsDigit(At(t, p)) THEN DigitsEnd(t, p + 1) ELSE p
DigitSeq(t, p, q) == [i \in 1..(q - p) |-> t[p + i - 1] - 48]
RECURSIVE SmallDec(_, _, _)
SmallDec(ds, i, acc) == IF i > Len(ds) THEN acc ELSE IF acc > 100000 THEN 100001 ELSE SmallDec(ds, i + 1, acc * 10 + ds[i])

\* Scan the longest numeral at the start of t.  ok = FALSE: t does not start with a well-formed numeral, or the numeral is
\* followed by units that make the whole thing one of the malformed shapes the property lists (00, 1.., 1.2.3, 1e, 1e+).
Scan(t) ==
    LET sgn  == At(t, 1) \in {43, 45}
        neg  == At(t, 1) = 45
        p1   == IF sgn THEN 2 ELSE 1
        iend == DigitsEnd(t, p1)
    IN IF At(t, p1) = 48 /\ At(t, p1 + 1) \in {120, 88} THEN [ok |-> FALSE, why |-> "unspecified-hex"]                      \* 0x..: outside the grammar of the property
       ELSE IF iend = p1 /\ At(t, p1) = 46 /\ IsDigit(At(t, p1 + 1)) THEN [ok |-> FALSE, why |-> "unspecified-leading-dot"]   \* ".5" is under-specified
       ELSE IF iend = p1 THEN [ok |-> FALSE, why |-> "no-digits"]
       ELSE IF At(t, p1) = 48 /\ iend > p1 + 1 THEN [ok |-> FALSE, why |-> "leading-zero"]
       ELSE LET hasdot  == At(t, iend) = 46
                fend    == IF hasdot THEN DigitsEnd(t, iend + 1) ELSE iend
                hasfrac == hasdot /\ fend > iend + 1
            IN IF hasdot /\ At(t, fend) = 46 THEN [ok |-> FALSE, why |-> "second-dot"]
               ELSE IF hasdot /\ ~hasfrac THEN [ok |-> FALSE, why |-> "unspecified-trailing-dot"]        \* "1." is under-specified
               ELSE LET hase == At(t, fend) \in {101, 69}
                        es   == IF hase /\ At(t, fend + 1) \in {43, 45} THEN fend + 2 ELSE fend + 1
                        eend == IF hase THEN DigitsEnd(t, es) ELSE fend
                    IN IF hase /\ eend = es THEN [ok |-> FALSE, why |-> "empty-exponent"]
                       ELSE IF hase /\ At(t, eend) = 46 THEN [ok |-> FALSE, why |-> "unspecified-dot-after-exponent"]
                       ELSE [ok |-> TRUE, why |-> "", neg |-> neg, consumed |-> eend - 1,
                             ids |-> DigitSeq(t, p1, iend),
                             fds |-> IF hasfrac THEN DigitSeq(t, iend + 1, fend) ELSE <<>>,
                             isint |-> ~hasfrac /\ ~hase,
                             eneg |-> hase /\ At(t, fend + 1) = 45,
                             ehuge |-> hase /\ eend - es > 6 /\ At(t, es) # 48,                 \* seven and more exponent digits (no leading zero): beyond any range
                             eabs |-> IF hase /\ eend - es <= 6 THEN SmallDec(DigitSeq(t, es, eend), 1, 0) ELSE 0]

Two63 == FromDigits(<<9,2,2,3,3,7,2,0,3,6,8,5,4,7,7,5,8,0,8>>)
Two64 == FromDigits(<<1,8,4,4,6,7,4,4,0,7,3,7,0,9,5,5,1,6,1,6>>)
MaxFinite == MulPow2(FromDigits(<<9,0,0,7,1,9,9,2,5,4,7,4,0,9,9,1>>), 971)          \* (2^53 - 1) * 2^971

\* |D * 10^k - m * 2^e| <= 1.5 * 2^e   (all integers after scaling; only MulSmall / Sub / Cmp on base-10^4 limbs)
Within(D, k, m, e) ==
    LET A == IF e >= 0 THEN (IF k >= 0 THEN MulPow10(D, k) ELSE D) ELSE MulPow2(IF k >= 0 THEN MulPow10(D, k) ELSE D, 0 - e)
        B == IF e >= 0 THEN MulPow2(IF k >= 0 THEN m ELSE MulPow10(m, 0 - k), e) ELSE (IF k >= 0 THEN m ELSE MulPow10(m, 0 - k))
        Un == IF e >= 0 THEN MulPow2(IF k >= 0 THEN <<1>> ELSE MulPow10(<<1>>, 0 - k), e) ELSE (IF k >= 0 THEN <<1>> ELSE MulPow10(<<1>>, 0 - k))
    IN DLeq(MulSmall(DAbsDiff(A, B), 2), MulSmall(Un, 3))
AtLeastMaxFinite(D, k) == IF k >= 0 THEN DLeq(MaxFinite, MulPow10(D, k)) ELSE DLeq(MulPow10(MaxFinite, 0 - k), D)

\* judgement of one recorded conversion: cls 0 = not a number, 1 = real, 2 = natural, 3 = integer; bits = 8 bytes
Judge(t, cls, consumed, bits) ==
    LET sc == Scan(t) IN
    IF ~sc.ok THEN (IF sc.why \in {"unspecified-trailing-dot", "unspecified-leading-dot", "unspecified-dot-after-exponent", "unspecified-hex"} THEN TRUE ELSE cls = 0)
    ELSE IF sc.ehuge THEN (IF FromDigits(sc.ids \o sc.fds) = <<>> \/ Len(sc.ids \o sc.fds) > 100000 THEN TRUE
                           ELSE IF sc.eneg THEN TRUE                                     \* (far below the smallest subnormal: see the recorded underflow finding)
                           ELSE cls = 0)                                                  \* 1e4294967297: far beyond the range, whatever the counter width
    ELSE IF sc.eabs > 100000 THEN TRUE                                                   \* absurd exponents are not generated
    ELSE LET D  == FromDigits(sc.ids \o sc.fds)
             k  == (IF sc.eneg THEN 0 - sc.eabs ELSE sc.eabs) - Len(sc.fds)
             b  == FullBits(bits, 64)
             sign == b[64] = 1
             ef == BitsToInt(SubSeq(b, 53, 63), 1)
             mant == FromBytes(BitsToBytes(SubSeq(b, 1, 52)))
             bval == FromBytes(bits)
         IN IF sc.isint /\ ~sc.neg /\ DLess(D, Two64) THEN cls = 2 /\ consumed = sc.consumed /\ DEq(bval, D)
            ELSE IF sc.isint /\ sc.neg /\ D # <<>> /\ DLeq(D, Two63) THEN cls = 3 /\ consumed = sc.consumed /\ DEq(bval, DSub(Two64, D))
            ELSE IF cls = 0 THEN AtLeastMaxFinite(D, k)                                   \* rejection is only allowed beyond the largest finite double
            ELSE /\ cls = 1 /\ consumed = sc.consumed
                 /\ sign = sc.neg                                                           \* sign preserved, including -0
                 /\ IF ef = 2047 THEN AtLeastMaxFinite(D, k)                               \* infinity / NaN pattern only beyond the range
                    ELSE IF ef = 0 THEN Within(D, k, mant, -1074)
                    ELSE Within(D, k, FromBytes(BitsToBytes(SubSeq(b, 1, 52) \o <<1>>)), ef - 1075)      \* implicit leading bit
=============================================================================
