------------------------------ MODULE QTemplate ------------------------------
(* Property specification (P) for C02 (also C01, C03, C17, C18): the         *)
(* documented expansion of a template.  A template is an abstract syntax     *)
(* tree (sequence of nodes); the value is a document (objects = ordered      *)
(* sequences of [k (key units), v]); Render(ast, doc) is the output text.    *)
(* Written from Documentation/Template.md:                                   *)
(*  text      copied                                                         *)
(*  var / raw resolve a path (loop variable of an enclosing loop, innermost  *)
(*            first, or a member of the root; then [key] / [index] steps);   *)
(*            scalars print as text (var: HTML-escaped); the bare loop       *)
(*            variable of an object loop whose item is a container prints    *)
(*            the member key; anything unresolved echoes the tag's source    *)
(*  math      the value of the expression (QExpr), or its source             *)
(*  svar      a phrase with {0}..{9} replaced by the sub-tags                *)
(*  iif / if  selection by "value > 0"                                       *)
(*  loop      arrays / objects, optional group (partition by key value) and  *)
(*            sort (ascending / descending) on a private copy                *)
(* Node and path encodings are produced by the generator (checks/tmplgen.py).*)
EXTENDS QExpr, QEscape

NoDoc == [t |-> "none"]
IsDoc(d) == d.t # "none"
KeyIdx(m, k) == {i \in 1..Len(m) : m[i].k = k}
RECURSIVE DecVal(_, _, _)
DecVal(s, i, acc) == IF i > Len(s) THEN acc ELSE IF s[i] < 48 \/ s[i] > 57 \/ acc > 100000 THEN -1 ELSE DecVal(s, i + 1, acc * 10 + (s[i] - 48))
\* one step of a path: `key` is the text between [ and ]
Step(d, key) ==
    IF ~IsDoc(d) THEN NoDoc
    ELSE IF d.t = "O" THEN (IF KeyIdx(d.m, key) # {} THEN d.m[CHOOSE i \in KeyIdx(d.m, key) : TRUE].v ELSE NoDoc)
    ELSE IF d.t = "A" THEN LET i == IF key = <<>> THEN -1 ELSE DecVal(key, 1, 0) IN IF i >= 0 /\ i < Len(d.e) THEN d.e[i + 1] ELSE NoDoc
    ELSE NoDoc
RECURSIVE Walk(_, _, _)
Walk(d, steps, i) == IF i > Len(steps) THEN d ELSE Walk(Step(d, steps[i]), steps, i + 1)

\* environment: sequence of [name, v, key, haskey] for the enclosing loops, innermost last
EnvIdx(env, name) == {i \in 1..Len(env) : env[i].name = name}
\* path: [loop |-> name or <<>>, base |-> units, steps |-> Seq(units)]
Resolve(p, doc, env) ==
    IF p.loop # <<>> THEN
        (IF EnvIdx(env, p.loop) = {} THEN NoDoc
         ELSE LET e == env[CHOOSE i \in EnvIdx(env, p.loop) : \A j \in EnvIdx(env, p.loop) : j <= i] IN Walk(e.v, p.steps, 1))
    ELSE Walk(Step(doc, p.base), p.steps, 1)
LoopKey(p, env) == IF p.loop # <<>> /\ p.steps = <<>> /\ EnvIdx(env, p.loop) # {}
                   THEN LET e == env[CHOOSE i \in EnvIdx(env, p.loop) : \A j \in EnvIdx(env, p.loop) : j <= i] IN
                        IF e.haskey THEN [ok |-> TRUE, k |-> e.key] ELSE [ok |-> FALSE, k |-> <<>>]
                   ELSE [ok |-> FALSE, k |-> <<>>]

\* text of a scalar document: numbers of the closed domain (m = twice the value; reals are multiples of 1/4)
RECURSIVE Dec(_)
Dec(x) == IF x < 10 THEN <<48 + x>> ELSE Dec(x \div 10) \o <<48 + (x % 10)>>
NumberText(d) == QuarterText(d.n)                          \* numbers carry n = value * 16 (multiples of 1/4 only)
ScalarText(d) == CASE d.t = "S" -> [ok |-> TRUE, s |-> d.s, str |-> TRUE]
                   [] d.t = "N" -> [ok |-> TRUE, s |-> NumberText(d), str |-> FALSE]
                   [] d.t = "T" -> [ok |-> TRUE, s |-> <<116, 114, 117, 101>>, str |-> FALSE]
                   [] d.t = "F" -> [ok |-> TRUE, s |-> <<102, 97, 108, 115, 101>>, str |-> FALSE]
                   [] d.t = "Z" -> [ok |-> TRUE, s |-> <<110, 117, 108, 108>>, str |-> FALSE]
                   [] OTHER -> [ok |-> FALSE, s |-> <<>>, str |-> FALSE]

\* ---- expressions: tokens as in QExpr with variables given as paths; bind them to the documents they resolve to
DocDesc(d) == CASE d.t = "N" -> [kind |-> d.k, n |-> d.n]
                [] d.t = "S" -> [kind |-> "str", s |-> d.s, isnum |-> d.isnum, n |-> d.num]      \* the generator annotates numeric strings
                [] d.t = "T" -> [kind |-> "true"] [] d.t = "F" -> [kind |-> "false"] [] d.t = "Z" -> [kind |-> "null"]
                [] d.t = "A" -> [kind |-> "arr"] [] d.t = "O" -> [kind |-> "obj"] [] OTHER -> [kind |-> "missing"]
RECURSIVE Bind(_, _, _)
Bind(toks, doc, env) == [i \in 1..Len(toks) |->
                           IF i % 2 = 0 THEN toks[i]
                           ELSE IF toks[i].t = "var" THEN [t |-> "var", d |-> DocDesc(Resolve(toks[i].p, doc, env))]
                           ELSE IF toks[i].t = "sub" THEN [t |-> "sub", e |-> Bind(toks[i].e, doc, env)]
                           ELSE toks[i]]
\* the generator only emits expressions whose admissible set is a single judged value
\* (an expression that meets the recorded C04 finding - negative base ^ negative even exponent - is left to C04: not judged here)
ExprValue(toks, doc, env) == LET b == Bind(toks, doc, env)  A == Admissible(b) IN
                             IF Cardinality(A) = 1 /\ AdmissiblePinned(b) = A THEN CHOOSE x \in A : TRUE ELSE Unjudged
Truth(v) == v.t = "num" /\ v.n > 0
RECURSIVE HasMul(_)
HasMul(toks) == \E i \in 1..Len(toks) : IF i % 2 = 0 THEN toks[i] \in {"*", "/", "%", "^"} ELSE (toks[i].t = "sub" /\ HasMul(toks[i].e))

\* ---- GroupBy and Sort on documents with unit-string keys
GroupName(v) == LET t == ScalarText(v) IN t.s
RECURSIVE GroupFrom(_, _, _)
GroupFrom(e, g, acc) ==
    IF e = <<>> THEN acc
    ELSE LET o == Head(e)
             name == GroupName(o.m[CHOOSE i \in KeyIdx(o.m, g) : TRUE].v)
             item == [t |-> "O", m |-> SelectSeq(o.m, LAMBDA x : x.k # g)]
             pos == {i \in 1..Len(acc) : acc[i].k = name}
         IN GroupFrom(Tail(e), g, IF pos = {} THEN Append(acc, [k |-> name, v |-> [t |-> "A", e |-> <<item>>]])
                                  ELSE LET i == CHOOSE x \in pos : TRUE IN [acc EXCEPT ![i].v.e = Append(@, item)])
Groupable(d, g) == d.t = "A" /\ \A i \in 1..Len(d.e) : d.e[i].t = "O" /\ KeyIdx(d.e[i].m, g) # {} /\ ScalarText(d.e[i].m[CHOOSE j \in KeyIdx(d.e[i].m, g) : TRUE].v).ok
RECURSIVE StrLessU(_, _)
StrLessU(a, b) == IF b = <<>> THEN FALSE ELSE IF a = <<>> THEN TRUE ELSE IF Head(a) < Head(b) THEN TRUE ELSE IF Head(a) > Head(b) THEN FALSE ELSE StrLessU(Tail(a), Tail(b))
\* order of two documents of one kind (numbers by value, strings lexicographically); keys for objects
DocLess(x, y) == IF x.t = "N" /\ y.t = "N" THEN x.n < y.n ELSE IF x.t = "S" /\ y.t = "S" THEN StrLessU(x.s, y.s) ELSE FALSE
RECURSIVE InsSort(_, _, _, _)
InsSort(x, s, Less(_, _), asc) == IF s = <<>> THEN <<x>>
                                  ELSE IF (asc /\ Less(x, Head(s))) \/ (~asc /\ Less(Head(s), x)) THEN <<x>> \o s
                                  ELSE <<Head(s)>> \o InsSort(x, Tail(s), Less, asc)
RECURSIVE SortBy(_, _, _)
SortBy(s, Less(_, _), asc) == IF s = <<>> THEN <<>> ELSE InsSort(Head(s), SortBy(Tail(s), Less, asc), Less, asc)
KeyLess(x, y) == StrLessU(x.k, y.k)
SortDoc(d, asc) == IF d.t = "A" THEN [t |-> "A", e |-> SortBy(d.e, DocLess, asc)]
                   ELSE IF d.t = "O" THEN [t |-> "O", m |-> SortBy(d.m, KeyLess, asc)]
                   ELSE d

\* ---- rendering ------------------------------------------------------------------------
RECURSIVE Render(_, _, _)
RECURSIVE RenderNode(_, _, _)
RECURSIVE RenderSeq(_, _, _, _)
RECURSIVE Phrase(_, _, _, _, _, _)
RECURSIVE LoopItems(_, _, _, _, _, _)
RenderSeq(nodes, i, doc, env) == IF i > Len(nodes) THEN <<>> ELSE RenderNode(nodes[i], doc, env) \o RenderSeq(nodes, i + 1, doc, env)
Render(nodes, doc, env) == RenderSeq(nodes, 1, doc, env)

VarText(n, doc, env, escape) ==
    LET d == Resolve(n.p, doc, env)  t == IF IsDoc(d) THEN ScalarText(d) ELSE [ok |-> FALSE, s |-> <<>>, str |-> FALSE] IN
    IF t.ok THEN (IF escape /\ t.str THEN Escape(t.s) ELSE t.s)
    ELSE IF LoopKey(n.p, env).ok THEN (IF escape THEN Escape(LoopKey(n.p, env).k) ELSE LoopKey(n.p, env).k)   \* the member key of an object loop ({raw:} = {var:} without escaping)
    ELSE IF escape THEN Escape(n.src) ELSE n.src                                      \* unresolved: the tag's own source

\* the phrase of a super variable: text pieces escaped, {d} replaced by sub-tag d
Phrase(s, i, last, n, doc, env) ==
    IF i > Len(s) THEN Escape(SubSeq(s, last, Len(s)))
    ELSE IF s[i] = 123 /\ i + 2 <= Len(s) /\ s[i + 1] >= 48 /\ s[i + 1] <= 57 /\ s[i + 2] = 125 /\ (s[i + 1] - 48) < Len(n.subs)
         THEN Escape(SubSeq(s, last, i - 1)) \o RenderNode(n.subs[s[i + 1] - 48 + 1], doc, env) \o Phrase(s, i + 3, i + 3, n, doc, env)
         ELSE Phrase(s, i + 1, last, n, doc, env)

LoopItems(items, i, n, doc, env, isobj) ==
    IF i > Len(items) THEN <<>>
    ELSE LET it == items[i]
             v == IF isobj THEN it.v ELSE it
             frame == [name |-> n.value, v |-> v, key |-> IF isobj THEN it.k ELSE <<>>, haskey |-> isobj]
         IN (IF v.t = "U" THEN <<>> ELSE Render(n.body, doc, Append(env, frame))) \o LoopItems(items, i + 1, n, doc, env, isobj)

RenderNode(n, doc, env) ==
    CASE n.t = "text" -> n.s
      [] n.t = "var" -> VarText(n, doc, env, TRUE)
      [] n.t = "raw" -> VarText(n, doc, env, FALSE)
      [] n.t = "math" -> LET v == ExprValue(n.e, doc, env) IN
                         IF v.t = "unjudged" \/ (v.t = "num" /\ (IF v.n < 0 THEN 0 - v.n ELSE v.n) % 4 # 0) THEN <<-999>>      \* marker: not judged
                         ELSE IF v.t = "num" /\ v.n = 0 /\ HasMul(n.e) THEN <<-999>>     \* a real zero may be printed "0" or "-0" (0 / -2): the sign of zero is not specified
                         ELSE IF v.t = "num" THEN QuarterText(v.n) ELSE n.src
      [] n.t = "svar" -> LET d == Resolve(n.p, doc, env) IN
                         IF IsDoc(d) /\ d.t = "S" THEN Phrase(d.s, 1, 1, n, doc, env) ELSE n.src
      [] n.t = "iif" -> LET v == ExprValue(n.c, doc, env) IN
                        IF v.t \in {"unjudged", "none"} THEN <<-999>>                         \* (a case without value: documentation silent)
                        ELSE IF Truth(v) THEN Render(n.T, doc, env) ELSE Render(n.F, doc, env)
      [] n.t = "if" -> LET sat == {i \in 1..Len(n.cases) : n.cases[i].else = 1 \/ Truth(ExprValue(n.cases[i].c, doc, env))}
                           unj == \E i \in 1..Len(n.cases) : n.cases[i].else = 0 /\ ExprValue(n.cases[i].c, doc, env).t = "unjudged" IN
                       IF unj THEN <<-999>>
                       ELSE IF sat = {} THEN <<>> ELSE Render(n.cases[CHOOSE i \in sat : \A j \in sat : i <= j].body, doc, env)
      [] n.t = "loop" ->
           LET set0 == IF n.hasset = 1 THEN Resolve(n.set, doc, env) ELSE doc
               set1 == IF ~IsDoc(set0) THEN NoDoc
                       ELSE IF n.group # <<>> THEN (IF Groupable(set0, n.group) THEN [t |-> "O", m |-> GroupFrom(set0.e, n.group, <<>>)] ELSE NoDoc)
                       ELSE set0
               set2 == IF IsDoc(set1) /\ n.sort # 0 THEN SortDoc(set1, n.sort = 1) ELSE set1
           IN IF ~IsDoc(set2) THEN <<>>
              ELSE IF set2.t = "A" THEN LoopItems(set2.e, 1, n, doc, env, FALSE)
              ELSE IF set2.t = "O" THEN LoopItems(set2.m, 1, n, doc, env, TRUE)
              ELSE <<>>

=============================================================================
