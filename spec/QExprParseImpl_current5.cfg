SPECIFICATION Spec
CONSTANTS
  MaxLen = 5
  WithOpening = TRUE
  Variant = "current"
INVARIANTS EvaluatorSafe StaysInside
CHECK_DEADLOCK FALSE
