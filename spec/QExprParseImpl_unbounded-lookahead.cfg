SPECIFICATION Spec
CONSTANTS
  MaxLen = 4
  WithOpening = TRUE
  Variant = "unbounded-lookahead"
INVARIANTS EvaluatorSafe StaysInside
CHECK_DEADLOCK FALSE
