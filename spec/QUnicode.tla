------------------------------ MODULE QUnicode ------------------------------
(* Property specification (P): the standard UTF-8 / UTF-16 / UTF-32         *)
(* encodings of a Unicode scalar value (RFC 3629, RFC 2781) and the JSON    *)
(* escape forms that denote it (RFC 8259 section 7).                        *)
EXTENDS Naturals, Sequences, TLC

IsScalar(c) == (c >= 0 /\ c < 55296) \/ (c > 57343 /\ c <= 1114111)   \* not D800..DFFF

UTF8(c) ==
    IF c < 128 THEN <<c>>
    ELSE IF c < 2048 THEN <<192 + (c \div 64), 128 + (c % 64)>>
    ELSE IF c < 65536 THEN <<224 + (c \div 4096), 128 + ((c \div 64) % 64), 128 + (c % 64)>>
    ELSE <<240 + (c \div 262144), 128 + ((c \div 4096) % 64), 128 + ((c \div 64) % 64), 128 + (c % 64)>>

UTF16(c) == IF c < 65536 THEN <<c>>
            ELSE LET d == c - 65536 IN <<55296 + (d \div 1024), 56320 + (d % 1024)>>

UTF32(c) == <<c>>

\* decoders (used to state well-formedness / injectivity of the specification itself)
DecodeUTF16(u) == IF Len(u) = 1 THEN u[1] ELSE 65536 + (u[1] - 55296) * 1024 + (u[2] - 56320)
DecodeUTF8(u) ==
    CASE Len(u) = 1 -> u[1]
      [] Len(u) = 2 -> (u[1] - 192) * 64 + (u[2] - 128)
      [] Len(u) = 3 -> (u[1] - 224) * 4096 + (u[2] - 128) * 64 + (u[3] - 128)
      [] Len(u) = 4 -> (u[1] - 240) * 262144 + (u[2] - 128) * 4096 + (u[3] - 128) * 64 + (u[4] - 128)

WellFormed8(u) == /\ \A i \in 2..Len(u) : u[i] >= 128 /\ u[i] < 192
                  /\ (Len(u) = 1 => u[1] < 128)
                  /\ (Len(u) = 2 => u[1] >= 194 /\ u[1] < 224)
                  /\ (Len(u) = 3 => u[1] >= 224 /\ u[1] < 240)
                  /\ (Len(u) = 4 => u[1] >= 240 /\ u[1] < 245)
RoundTrip(c) == /\ DecodeUTF8(UTF8(c)) = c /\ WellFormed8(UTF8(c))
                /\ DecodeUTF16(UTF16(c)) = c
                /\ (Len(UTF16(c)) = 2 => (UTF16(c)[1] >= 55296 /\ UTF16(c)[1] < 56320 /\ UTF16(c)[2] >= 56320 /\ UTF16(c)[2] < 57344))

\* hex digits of a 16-bit unit, as used by \uXXXX  (upper: 65..70, lower: 97..102)
HexDigit(n, upper) == IF n < 10 THEN 48 + n ELSE (IF upper THEN 55 ELSE 87) + n
Hex4(u, upper) == <<HexDigit(u \div 4096, upper), HexDigit((u \div 256) % 16, upper), HexDigit((u \div 16) % 16, upper), HexDigit(u % 16, upper)>>
EscapeForm(c, upper) == LET us == UTF16(c) IN
    IF Len(us) = 1 THEN <<92, 117>> \o Hex4(us[1], upper)
    ELSE <<92, 117>> \o Hex4(us[1], upper) \o <<92, 117>> \o Hex4(us[2], upper)
=============================================================================
