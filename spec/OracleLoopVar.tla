---------------------------- MODULE OracleLoopVar ----------------------------
(* code -> spec (E5) for QLoopVar: for every stack of loops and reference of  *)
(* the model's domain the template                                            *)
(*     <loop set="s1" value=N1> <loop set="s2" value=N2> ... {var:REF} ...    *)
(* is rendered by the real engine with the root {"s1":["L1"],"s2":["L2"],..}. *)
(* A reference bound to loop i prints L<i> (its item is a string), a          *)
(* reference with an index part into that string, or bound to no loop, is     *)
(* reproduced verbatim.  Events whose reference is not well delimited         *)
(* (QLoopVar.Delimited) are not judged.                                       *)
EXTENDS QLoopVarDefs, Json, IOUtils
Tr == ndJsonDeserialize(IOEnv.TRACE)
VARIABLE l
Unit(u) == IF u = 1 THEN 97 ELSE IF u = 2 THEN 98 ELSE 91                      \* a b [
Text(r) == [i \in 1..Len(r) |-> Unit(r[i])] \o (IF \E i \in 1..Len(r) : r[i] = Bracket THEN <<93>> ELSE <<>>)     \* a[b is spelled a[b]
Echo(r) == <<123, 118, 97, 114, 58>> \o Text(r) \o <<125>>
Expected(loops, r) == LET b == SpecBind(loops, r, Len(loops)) IN
                      IF b # 0 /\ Ident(r) = r THEN <<76, 48 + b>> ELSE Echo(r)
EventOK(e) == Delimited(e.meta.loops, e.meta.ref) => e.out = Expected(e.meta.loops, e.meta.ref)
OInit == l = 0
ONext == \/ /\ l = 0 /\ l' \in {0 - b : b \in 1..64}
         \/ /\ l < 0 /\ l' \in {i \in 1..Len(Tr) : i % 64 = (0 - l) % 64}
         \/ /\ l > 0 /\ UNCHANGED l
Check == l <= 0 \/ EventOK(Tr[l]) \/ PrintT(<<"MISMATCH", l>>)
=============================================================================
