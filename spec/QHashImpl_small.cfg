SPECIFICATION Spec
CONSTANTS
  Keys = {1,2,3}
  Vals = {1}
  Tables = {1}
  MaxSlots = 3
  HashOf <- HashB
CONSTRAINT Bound
INVARIANTS ChainsWellFormed LookupAgrees
PROPERTIES Refines
CHECK_DEADLOCK FALSE
