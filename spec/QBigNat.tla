------------------------------- MODULE QBigNat -------------------------------
(* Naturals of arbitrary size as little-endian sequences of bytes (0..255), *)
(* so that every intermediate product stays far below TLC's 32-bit limit.   *)
(* Used by the oracles of C19 (and the number conversions) to verify logged *)
(* results relationally: q*d + r = v, r < d, shifts, bit scans.             *)
EXTENDS Integers, Sequences, TLC

RECURSIVE Norm(_)
Norm(a) == IF a # <<>> /\ a[Len(a)] = 0 THEN Norm(SubSeq(a, 1, Len(a) - 1)) ELSE a
EqN(a, b) == Norm(a) = Norm(b)
Byte(a, i) == IF i <= Len(a) THEN a[i] ELSE 0
MaxLen(a, b) == IF Len(a) > Len(b) THEN Len(a) ELSE Len(b)

RECURSIVE AddFrom(_, _, _, _)
AddFrom(a, b, i, carry) ==
    IF i > MaxLen(a, b) THEN (IF carry = 0 THEN <<>> ELSE <<carry>>)
    ELSE LET s == Byte(a, i) + Byte(b, i) + carry IN <<s % 256>> \o AddFrom(a, b, i + 1, s \div 256)
AddN(a, b) == AddFrom(a, b, 1, 0)

RECURSIVE MulByteFrom(_, _, _, _)
MulByteFrom(a, m, i, carry) ==        \* a * m for one byte m
    IF i > Len(a) THEN (IF carry = 0 THEN <<>> ELSE <<carry>>)
    ELSE LET p == a[i] * m + carry IN <<p % 256>> \o MulByteFrom(a, m, i + 1, p \div 256)
RECURSIVE MulFrom(_, _, _)
MulFrom(a, b, j) ==                   \* sum over bytes of b, shifted
    IF j > Len(b) THEN <<>>
    ELSE AddN([k \in 1..(j - 1) |-> 0] \o MulByteFrom(a, b[j], 1, 0), MulFrom(a, b, j + 1))
MulN(a, b) == MulFrom(a, b, 1)

RECURSIVE LessFrom(_, _, _)
LessFrom(a, b, i) == IF i = 0 THEN FALSE
                     ELSE IF Byte(a, i) < Byte(b, i) THEN TRUE
                     ELSE IF Byte(a, i) > Byte(b, i) THEN FALSE
                     ELSE LessFrom(a, b, i - 1)
LessN(a, b) == LessFrom(a, b, MaxLen(a, b))
IsZeroN(a) == Norm(a) = <<>>

\* bits, least significant first
ByteBits(x) == <<x % 2, (x \div 2) % 2, (x \div 4) % 2, (x \div 8) % 2, (x \div 16) % 2, (x \div 32) % 2, (x \div 64) % 2, (x \div 128) % 2>>
RECURSIVE BitsOf(_)
BitsOf(a) == IF a = <<>> THEN <<>> ELSE ByteBits(Head(a)) \o BitsOf(Tail(a))
RECURSIVE NormBits(_)
NormBits(s) == IF s # <<>> /\ s[Len(s)] = 0 THEN NormBits(SubSeq(s, 1, Len(s) - 1)) ELSE s
Bits(a) == NormBits(BitsOf(a))
Bit(s, i) == IF i <= Len(s) THEN s[i] ELSE 0
RECURSIVE FirstSet(_, _)
FirstSet(s, i) == IF s[i] = 1 THEN i - 1 ELSE FirstSet(s, i + 1)      \* 0-based index of the lowest set bit (s non-zero)
ShlBits(s, k) == IF s = <<>> THEN <<>> ELSE [i \in 1..k |-> 0] \o s
ShrBits(s, k) == IF k >= Len(s) THEN <<>> ELSE SubSeq(s, k + 1, Len(s))
OrBits(s, t) == NormBits([i \in 1..(IF Len(s) > Len(t) THEN Len(s) ELSE Len(t)) |-> IF Bit(s, i) + Bit(t, i) > 0 THEN 1 ELSE 0])
AndBits(s, t) == NormBits([i \in 1..(IF Len(s) < Len(t) THEN Len(s) ELSE Len(t)) |-> Bit(s, i) * Bit(t, i)])
=============================================================================
