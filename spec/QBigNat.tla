------------------------------- MODULE QBigNat -------------------------------
(* Naturals of arbitrary size as little-endian sequences of bytes (0..255), *)
(* so that every intermediate product stays far below TLC's 32-bit limit.   *)
(* Used by the oracles of C19 (and the number conversions) to verify logged *)
(* results relationally: q*d + r = v, r < d, shifts, bit scans.             *)
EXTENDS Integers, Sequences, TLC

RECURSIVE Norm(_)
Norm(a) == IF a # <<>> /\ a[Len(a)] = 0 THEN Norm(SubSeq(a, 1, Len(a) - 1)) ELSE a
EqN(a, b) == Norm(a) = Norm(b)
Byte(a, i) == IF i <= Len(a) THEN a[i] ELSE 0
MaxLen(a, b) == IF Len(a) > Len(b) THEN Len(a) ELSE Len(b)

RECURSIVE AddFrom(_, _, _, _)
AddFrom(a, b, i, carry) ==
    IF i > MaxLen(a, b) THEN (IF carry = 0 THEN <<>> ELSE <<carry>>)
    ELSE LET s == Byte(a, i) + Byte(b, i) + carry IN <<s % 256>> \o AddFrom(a, b, i + 1, s \div 256)
AddN(a, b) == AddFrom(a, b, 1, 0)

RECURSIVE MulByteFrom(_, _, _, _)
MulByteFrom(a, m, i, carry) ==        \* a * m for one byte m
    IF i > Len(a) THEN (IF carry = 0 THEN <<>> ELSE <<carry>>)
    ELSE LET p == a[i] * m + carry IN <<p % 256>> \o MulByteFrom(a, m, i + 1, p \div 256)
RECURSIVE MulFrom(_, _, _)
MulFrom(a, b, j) ==                   \* sum over bytes of b, shifted
    IF j > Len(b) THEN <<>>
    ELSE AddN([k \in 1..(j - 1) |-> 0] \o MulByteFrom(a, b[j], 1, 0), MulFrom(a, b, j + 1))
MulN(a, b) == MulFrom(a, b, 1)

RECURSIVE LessFrom(_, _, _)
LessFrom(a, b, i) == IF i = 0 THEN FALSE
                     ELSE IF Byte(a, i) < Byte(b, i) THEN TRUE
                     ELSE IF Byte(a, i) > Byte(b, i) THEN FALSE
                     ELSE LessFrom(a, b, i - 1)
LessN(a, b) == LessFrom(a, b, MaxLen(a, b))
LeqN(a, b) == ~LessN(b, a)
RECURSIVE SubFrom(_, _, _, _)
SubFrom(a, b, i, borrow) ==          \* a - b for a >= b
    IF i > Len(a) THEN <<>>
    ELSE LET d == a[i] - Byte(b, i) - borrow IN
         IF d < 0 THEN <<d + 256>> \o SubFrom(a, b, i + 1, 1) ELSE <<d>> \o SubFrom(a, b, i + 1, 0)
SubN(a, b) == Norm(SubFrom(a, b, 1, 0))
AbsDiffN(a, b) == IF LessN(a, b) THEN SubN(b, a) ELSE SubN(a, b)
SmallN(x) == IF x = 0 THEN <<>> ELSE IF x < 256 THEN <<x>> ELSE <<x % 256>> \o (IF x \div 256 < 256 THEN <<x \div 256>> ELSE <<(x \div 256) % 256, x \div 65536>>)   \* x < 2^24
RECURSIVE Pow2Small(_)
Pow2Small(n) == IF n = 0 THEN 1 ELSE 2 * Pow2Small(n - 1)
ShlN(a, n) == IF Norm(a) = <<>> THEN <<>> ELSE [i \in 1..(n \div 8) |-> 0] \o MulByteFrom(a, Pow2Small(n % 8), 1, 0)
RECURSIVE Pow10From(_, _)
Pow10From(acc, n) == IF n = 0 THEN acc ELSE Pow10From(MulByteFrom(acc, 10, 1, 0), n - 1)
Pow10N(n) == Pow10From(<<1>>, n)
RECURSIVE DecFrom(_, _, _)
DecFrom(ds, i, acc) == IF i > Len(ds) THEN acc ELSE DecFrom(ds, i + 1, AddN(MulByteFrom(acc, 10, 1, 0), SmallN(ds[i])))
DecToN(ds) == Norm(DecFrom(ds, 1, <<>>))      \* ds: sequence of decimal digits 0..9, most significant first
RECURSIVE BitsToInt(_, _)
BitsToInt(s, i) == IF i > Len(s) THEN 0 ELSE s[i] * Pow2Small(i - 1) + BitsToInt(s, i + 1)      \* <= 24 bits
RECURSIVE BitsToBytes(_)
BitsToBytes(s) == IF s = <<>> THEN <<>>
                  ELSE LET n == IF Len(s) < 8 THEN Len(s) ELSE 8 IN <<BitsToInt(SubSeq(s, 1, n), 1)>> \o BitsToBytes(SubSeq(s, n + 1, Len(s)))

IsZeroN(a) == Norm(a) = <<>>

\* bits, least significant first
ByteBits(x) == <<x % 2, (x \div 2) % 2, (x \div 4) % 2, (x \div 8) % 2, (x \div 16) % 2, (x \div 32) % 2, (x \div 64) % 2, (x \div 128) % 2>>
RECURSIVE BitsOf(_)
BitsOf(a) == IF a = <<>> THEN <<>> ELSE ByteBits(Head(a)) \o BitsOf(Tail(a))
FullBits(a, n) == LET b == BitsOf(a) IN [i \in 1..n |-> IF i <= Len(b) THEN b[i] ELSE 0]      \* exactly n bits
RECURSIVE NormBits(_)
NormBits(s) == IF s # <<>> /\ s[Len(s)] = 0 THEN NormBits(SubSeq(s, 1, Len(s) - 1)) ELSE s
Bits(a) == NormBits(BitsOf(a))
Bit(s, i) == IF i <= Len(s) THEN s[i] ELSE 0
RECURSIVE FirstSet(_, _)
FirstSet(s, i) == IF s[i] = 1 THEN i - 1 ELSE FirstSet(s, i + 1)      \* 0-based index of the lowest set bit (s non-zero)
ShlBits(s, k) == IF s = <<>> THEN <<>> ELSE [i \in 1..k |-> 0] \o s
ShrBits(s, k) == IF k >= Len(s) THEN <<>> ELSE SubSeq(s, k + 1, Len(s))
OrBits(s, t) == NormBits([i \in 1..(IF Len(s) > Len(t) THEN Len(s) ELSE Len(t)) |-> IF Bit(s, i) + Bit(t, i) > 0 THEN 1 ELSE 0])
AndBits(s, t) == NormBits([i \in 1..(IF Len(s) < Len(t) THEN Len(s) ELSE Len(t)) |-> Bit(s, i) * Bit(t, i)])
=============================================================================
