------------------------- MODULE QTemplateParseImpl -------------------------
(* Implementation specification (I) for C01: the push-down discipline of the *)
(* tag scanner TemplateCore::parse (Template.hpp) over token classes.        *)
(* State: the containers of tag records built so far, the stack              *)
(* parent_storage, the current container `cur`, the innermost open loop      *)
(* `ltag`, the flag is_child.  One action per `case` of the scanner's switch; *)
(* whatever depends on the text between tokens (is the '>' / closing quote   *)
(* there, is the attribute name right) is a nondeterministic choice.         *)
(* TLC explores every token sequence up to MaxLen and checks that            *)
(*   OwnerOnTop       the last record of the container on top of the stack   *)
(*                    owns the container the scanner is working in           *)
(*   KindChecked      a record is only reinterpreted as the kind it was      *)
(*                    created as (every cast site)                           *)
(*   LoopTagLive      the innermost-loop pointer refers to a record that has *)
(*                    not been destroyed (dropped together with its owner)   *)
(*   AllClosedAtEnd   after the final clean-up every remaining record has    *)
(*                    its end offset set                                     *)
(* Every sequence is also exported (E3) and concretized by checks/C01.py.    *)
EXTENDS Naturals, Sequences, FiniteSets, TLC

CONSTANTS MaxLen
Tokens == {"VAR", "RAW", "MATH", "SVAR", "IIF", "LOOP", "LOOPEND", "IF", "IFEND", "ELSE", "CLOSE", "TEXT"}

VARIABLES toks,    \* tokens consumed so far (the exported vector)
          conts,   \* container id -> Seq(record); container 1 is the root tags_cache
          ps, cur, child, ltag, bad, pending, done
vars == <<toks, conts, ps, cur, child, ltag, bad, pending, done>>
\* record: [k, closed, sub (container it owns, 0 = none), parent (loop record ref), home]  ; a ref is <<container, index>>
NoRef == <<0, 0>>
Rec(k, sub, parent) == [k |-> k, closed |-> FALSE, sub |-> sub, parent |-> parent]
Top(s) == s[Len(s)]
Pop(s) == SubSeq(s, 1, Len(s) - 1)
Last(c) == conts[c][Len(conts[c])]
NewId == Len(conts) + 1
Freed == <<[k |-> "freed", closed |-> TRUE, sub |-> 0, parent |-> NoRef]>>
RECURSIVE Owned(_, _, _)
\* containers owned (transitively) by record r
Owned(cs, r, fuel) == IF r.sub = 0 \/ fuel = 0 THEN {} ELSE {r.sub} \cup UNION {Owned(cs, cs[r.sub][i], fuel - 1) : i \in 1..Len(cs[r.sub])}
\* dropping the last record of container c destroys the record and everything it owns: their containers become <<"freed">>
DropLast(cs, c) == LET r == cs[c][Len(cs[c])]  gone == Owned(cs, r, 8) IN
                   [i \in 1..Len(cs) |-> IF i = c THEN SubSeq(cs[c], 1, Len(cs[c]) - 1) ELSE IF i \in gone THEN Freed ELSE cs[i]]

RECURSIVE Surviving(_, _, _)
\* the innermost loop reference, starting from r, whose record is not inside one of the destroyed containers
Surviving(r, gone, fuel) == IF r = NoRef \/ fuel = 0 THEN NoRef ELSE IF r[1] \in gone THEN Surviving(conts[r[1]][r[2]].parent, gone, fuel - 1) ELSE r
Init == /\ toks = <<>> /\ conts = << <<>> >> /\ ps = <<>> /\ cur = 1 /\ child = FALSE /\ ltag = NoRef /\ bad = "" /\ pending = "" /\ done = FALSE

\* `pending` models the one-token look-ahead of {var: / {raw: (finder.Next() must deliver the closing brace)
Emit(t) == toks' = Append(toks, t)

Text == /\ Emit("TEXT") /\ pending' = "" /\ UNCHANGED <<conts, ps, cur, child, ltag, bad, done>>

VarLike(t) == /\ Emit(t) /\ pending' = "var" /\ UNCHANGED <<conts, ps, cur, child, ltag, bad, done>>

Close ==
    /\ Emit("CLOSE") /\ pending' = ""
    /\ IF pending = "var"                                  \* completes {var:..} / {raw:..}: a record without sub container
       THEN /\ conts' = [conts EXCEPT ![cur] = Append(@, [Rec("var", 0, NoRef) EXCEPT !.closed = TRUE])]
            /\ UNCHANGED <<ps, cur, child, ltag, bad, done>>
       ELSE IF child /\ ps # <<>>
       THEN LET c == Top(ps) IN
            IF conts[c] = <<>> THEN bad' = "Last() of an empty container at '}'" /\ UNCHANGED <<conts, ps, cur, child, ltag, done>>
            ELSE LET t == Last(c) IN
                 IF t.k = "svar" THEN /\ conts' = [conts EXCEPT ![c][Len(conts[c])].closed = TRUE]
                                      /\ cur' = c /\ ps' = Pop(ps) /\ child' = FALSE /\ UNCHANGED <<ltag, bad, done>>
                 ELSE IF t.k = "iif"
                 THEN \/ /\ conts' = [conts EXCEPT ![c][Len(conts[c])].closed = TRUE]        \* attributes complete
                         /\ cur' = c /\ ps' = Pop(ps) /\ child' = FALSE /\ UNCHANGED <<ltag, bad, done>>
                      \/ /\ UNCHANGED <<conts, ps, cur, child, ltag, bad, done>>               \* the '}' belongs to a sub-tag inside true= / false=: stay in the child
                      \/ /\ conts' = DropLast(conts, c)                                        \* neither true nor false: the tag is dropped
                         /\ cur' = c /\ ps' = Pop(ps) /\ child' = FALSE /\ UNCHANGED <<ltag, bad, done>>
                 ELSE /\ cur' = c /\ ps' = Pop(ps) /\ child' = FALSE /\ UNCHANGED <<conts, ltag, bad, done>>   \* default: nothing to finish
       ELSE UNCHANGED <<conts, ps, cur, child, ltag, bad, done>>

\* {math: consumes up to its closing brace (nested {var:..} are skipped); without one no record is made (repaired code)
Math == /\ Emit("MATH") /\ pending' = "math" /\ UNCHANGED <<conts, ps, cur, child, ltag, bad, done>>
MathClose == /\ pending = "math" /\ Emit("CLOSE") /\ pending' = ""
             /\ conts' = [conts EXCEPT ![cur] = Append(@, [Rec("math", 0, NoRef) EXCEPT !.closed = TRUE])]
             /\ UNCHANGED <<ps, cur, child, ltag, bad, done>>

Open(k, t, isLoop) ==      \* a record that owns a sub container: push the current container, continue inside
    /\ Emit(t) /\ pending' = ""
    /\ \/ /\ conts' = Append([conts EXCEPT ![cur] = Append(@, Rec(k, NewId, IF isLoop THEN ltag ELSE NoRef))], <<>>)
          /\ ps' = Append(ps, cur) /\ cur' = NewId
          /\ child' = IF k \in {"svar", "iif"} THEN TRUE ELSE child
          /\ ltag' = IF isLoop THEN <<cur, Len(conts[cur]) + 1>> ELSE ltag
          /\ UNCHANGED <<bad, done>>
       \/ UNCHANGED <<conts, ps, cur, child, ltag, bad, done>>                                 \* not a tag after all ('>' / quote / name missing)

LoopEnd ==
    /\ Emit("LOOPEND") /\ pending' = ""
    /\ IF ltag # NoRef /\ ps # <<>>
       THEN LET c == Top(ps) IN
            IF conts[c] = <<>> THEN bad' = "Last() of an empty container at </loop>" /\ UNCHANGED <<conts, ps, cur, child, ltag, done>>
            ELSE LET t == Last(c) IN
                 IF t.k = "loop"                                                               \* the kind test of the repaired code
                 THEN \/ /\ conts' = [conts EXCEPT ![c][Len(conts[c])].closed = TRUE]
                         /\ cur' = c /\ ps' = Pop(ps) /\ ltag' = t.parent /\ UNCHANGED <<child, bad, done>>
                      \/ /\ conts' = DropLast(conts, c)                                        \* '<loop </loop>': dropped
                         /\ cur' = c /\ ps' = Pop(ps) /\ ltag' = t.parent /\ UNCHANGED <<child, bad, done>>
                 ELSE UNCHANGED <<conts, ps, cur, child, ltag, bad, done>>
       ELSE UNCHANGED <<conts, ps, cur, child, ltag, bad, done>>

IfEnd ==
    /\ Emit("IFEND") /\ pending' = ""
    /\ IF ps # <<>> /\ conts[Top(ps)] # <<>> /\ Last(Top(ps)).k = "if"
       THEN /\ conts' = [conts EXCEPT ![Top(ps)][Len(conts[Top(ps)])].closed = TRUE]
            /\ cur' = Top(ps) /\ ps' = Pop(ps) /\ UNCHANGED <<child, ltag, bad, done>>
       ELSE IF ps # <<>> /\ conts[Top(ps)] = <<>> THEN bad' = "Last() of an empty container at </if>" /\ UNCHANGED <<conts, ps, cur, child, ltag, done>>
       ELSE UNCHANGED <<conts, ps, cur, child, ltag, bad, done>>

Else ==
    /\ Emit("ELSE") /\ pending' = ""
    /\ IF ps # <<>> /\ conts[Top(ps)] # <<>> /\ Last(Top(ps)).k = "if"
       THEN \/ /\ conts' = Append(conts, <<>>) /\ cur' = NewId /\ UNCHANGED <<ps, child, ltag, bad, done>>          \* a new case: continue in its container
            \/ /\ conts' = DropLast(conts, Top(ps)) /\ cur' = Top(ps) /\ ps' = Pop(ps)                                      \* bad else: the if is dropped,
               /\ ltag' = Surviving(ltag, Owned(conts, Last(Top(ps)), 8), 8) /\ UNCHANGED <<child, bad, done>>                  \* and loop_tag moves back to a loop that survives
       ELSE UNCHANGED <<conts, ps, cur, child, ltag, bad, done>>

\* end of input: unfinished tags are dropped
RECURSIVE Unwind(_, _)
Unwind(cs, stack) == IF stack = <<>> THEN cs ELSE Unwind(DropLast(cs, Top(stack)), Pop(stack))
Finish == /\ ~done /\ done' = TRUE /\ conts' = Unwind(conts, ps) /\ ps' = <<>> /\ cur' = 1
          /\ UNCHANGED <<toks, child, ltag, bad, pending>>

Step == /\ ~done /\ Len(toks) < MaxLen /\ bad = ""
        /\ \/ Text \/ VarLike("VAR") \/ VarLike("RAW") \/ Math \/ MathClose
           \/ (pending # "math" /\ Close)
           \/ Open("svar", "SVAR", FALSE) \/ Open("iif", "IIF", FALSE) \/ Open("loop", "LOOP", TRUE) \/ Open("if", "IF", FALSE)
           \/ LoopEnd \/ IfEnd \/ Else
Next == Step \/ Finish
Spec == Init /\ [][Next]_vars

\* ------------------------------ invariants ---------------------------------------
NoBad == bad = ""
\* the record that owns the container we are in is the last record of the container below it on the stack
OwnerOnTop == (~done /\ ps # <<>>) => conts[Top(ps)] # <<>>
RefValid(r) == r = NoRef \/ (r[1] <= Len(conts) /\ conts[r[1]] # Freed /\ r[2] <= Len(conts[r[1]]) /\ conts[r[1]][r[2]].k = "loop")
LoopTagLive == ~done => RefValid(ltag)
\* containers reachable from the root
RECURSIVE Reach(_, _)
Reach(c, fuel) == IF fuel = 0 THEN {c} ELSE {c} \cup UNION {Reach(conts[c][i].sub, fuel - 1) : i \in {j \in 1..Len(conts[c]) : conts[c][j].sub # 0}}
AllClosedAtEnd == done => \A c \in Reach(1, MaxLen) : \A i \in 1..Len(conts[c]) : conts[c][i].closed
=============================================================================
