------------------------- MODULE QTemplateParseImpl -------------------------
(* Implementation specification (I) for C01 / C16: the push-down discipline  *)
(* of the tag scanner TemplateCore::parse (Template.hpp) over the tokens its *)
(* switch dispatches.  One action per `case` of the switch; whatever depends *)
(* on the text between tokens (is the '>' / closing quote / attribute name   *)
(* there) is a nondeterministic choice.                                      *)
(*                                                                           *)
(* State (the scanner's locals):                                             *)
(*   conts   container id -> sequence of tag records (an Array<TagBit>);     *)
(*           container 1 is the caller's tags_cache.  A destroyed container  *)
(*           is Freed.  The case containers of an <if> live inside the       *)
(*           Cases array and MOVE when a case is added (the old ids become   *)
(*           Freed); all other containers live inside heap-allocated tag     *)
(*           structs and never move.                                         *)
(*   ps      parent_storage (stack of container ids);  cur = storage         *)
(*   ltag    loop_tag: id of the heap LoopTag (0 = null); child = is_child   *)
(*   nid     next record id; ids grow with the text offset of the tag        *)
(*   phase   "scan" -> "end" (text consumed, unfinished tags dropped)        *)
(*                                                                           *)
(* TLC explores every token sequence up to MaxLen and checks                 *)
(*   NoBad          no null dereference: Last() of an empty container        *)
(*   PsLive         storage and every stack entry refer to live containers   *)
(*   ChainLive      loop_tag and every Parent reachable from it are live     *)
(*                  loop records (checkLoopVariable walks that chain)        *)
(*   AllClosedAtEnd after the clean-up every remaining record has its end    *)
(*                  offset set (the renderer trusts it)                      *)
(*   LoopsEnclose   a record that consulted loop_tag ends up inside every    *)
(*                  loop whose level it may have copied (the renderer        *)
(*                  indexes loops_items_ by that level)                      *)
(*   LevelIsDepth   a surviving loop's Level is the number of containers     *)
(*                  between it and the root                                  *)
(* The same actions are driven by traces recorded from the real scanner      *)
(* through hook H2 (TraceQTemplateParse.tla).                                *)
EXTENDS Naturals, Sequences, FiniteSets, TLC

CONSTANTS MaxLen, Fuel,
          Variant     \* "current", or one of the scanner's earlier behaviours, kept to show that the invariants reject them:
                      \*   "else-keeps-loop"   (before 5d411ff) a bad <else dropped the <if> and left loop_tag alone
                      \*   "loopend-any-kind"  (before fee8705) </loop> reinterpreted whatever record was on top as a loop

VARIABLES conts, ps, cur, child, ltag, nid, bad, phase, n,
          hist     \* the tokens dispatched so far (history only: hidden by VIEW; one path per distinct scanner state is exported, E2)
vars == <<conts, ps, cur, child, ltag, nid, bad, phase, n, hist>>
View == <<conts, ps, cur, child, ltag, nid, bad, phase, n>>

Rec(id, k, closed, subs, parent, level, lt) == [id |-> id, k |-> k, closed |-> closed, subs |-> subs, parent |-> parent, level |-> level, lt |-> lt]
Top(s) == s[Len(s)]
Pop(s) == SubSeq(s, 1, Len(s) - 1)
Last(c) == conts[c][Len(conts[c])]
FreedRec == Rec(0, "freed", TRUE, <<>>, 0, 0, 0)
Freed == <<FreedRec>>
Range(s) == {s[i] : i \in 1..Len(s)}

RECURSIVE Owned(_, _, _)
\* containers owned (transitively) by record r in the container table cs
Owned(cs, r, fuel) == IF fuel = 0 THEN {} ELSE Range(r.subs) \cup UNION {UNION {Owned(cs, cs[s][i], fuel - 1) : i \in 1..Len(cs[s])} : s \in Range(r.subs)}
\* Drop(1): destroys the last record of c and everything it owns
DropLast(cs, c) == LET r == cs[c][Len(cs[c])]  gone == Owned(cs, r, Fuel) IN
                   [i \in 1..Len(cs) |-> IF i = c THEN SubSeq(cs[c], 1, Len(cs[c]) - 1) ELSE IF i \in gone THEN Freed ELSE cs[i]]
SetLast(cs, c, r) == [cs EXCEPT ![c][Len(cs[c])] = r]

RECURSIVE ReachC(_, _, _)
\* containers reachable from container c
ReachC(cs, c, fuel) == IF fuel = 0 THEN {c} ELSE {c} \cup UNION {UNION {ReachC(cs, s, fuel - 1) : s \in Range(cs[c][i].subs)} : i \in 1..Len(cs[c])}
LiveConts == ReachC(conts, 1, Fuel)
LiveRecs == UNION {Range(conts[c]) : c \in LiveConts}
RecOf(id) == CHOOSE r \in LiveRecs : r.id = id
IsLiveLoop(id) == \E r \in LiveRecs : r.id = id /\ r.k = "loop"

Init == /\ conts = << <<>> >> /\ ps = <<>> /\ cur = 1 /\ child = FALSE /\ ltag = 0 /\ nid = 1 /\ bad = "" /\ phase = "scan" /\ n = 0 /\ hist = <<>>

Same(v) == UNCHANGED v
Insert(r) == [conts EXCEPT ![cur] = Append(@, r)]

\* {var: / {raw: / {math:  -- a record without sub-tags when the closing brace is there (and the name is not empty)
Leaf(k) == \/ /\ conts' = Insert(Rec(nid, k, TRUE, <<>>, 0, 0, ltag)) /\ nid' = nid + 1 /\ Same(<<ps, cur, child, ltag, bad>>)
           \/ Same(<<conts, ps, cur, child, ltag, nid, bad>>)

\* {svar: / {if / <loop / <if  -- a record that owns a container: push the current container, continue inside
Open(k) ==
    \/ Same(<<conts, ps, cur, child, ltag, nid, bad>>)                    \* not a tag after all
    \/ /\ conts' = Append(Insert(Rec(nid, k, FALSE, <<Len(conts) + 1>>, IF k = "loop" THEN ltag ELSE 0, IF k = "loop" THEN Len(ps) ELSE 0, ltag)), <<>>)
       /\ nid' = nid + 1 /\ ps' = Append(ps, cur) /\ cur' = Len(conts) + 1
       /\ child' = IF k \in {"svar", "iif"} THEN TRUE ELSE child
       /\ ltag' = IF k = "loop" THEN nid ELSE ltag
       /\ Same(bad)

Offending(sub) == \E i \in 1..Len(conts[sub]) : conts[sub][i].k \notin {"var", "math"}

Close ==     \* '}'
    IF child /\ ps # <<>>
    THEN LET c == Top(ps) IN
         IF conts[c] = <<>> THEN bad' = "null tag at '}'" /\ Same(<<conts, ps, cur, child, ltag, nid>>)
         ELSE LET t == Last(c)  tc == [t EXCEPT !.closed = TRUE] IN
              /\ Same(<<ltag, nid, bad>>)
              /\ IF t.k = "svar" THEN /\ conts' = SetLast(conts, c, tc) /\ cur' = c /\ ps' = Pop(ps) /\ child' = FALSE
                 ELSE IF t.k = "iif"
                 THEN \/ /\ conts' = SetLast(conts, c, tc) /\ cur' = c /\ ps' = Pop(ps) /\ child' = FALSE            \* attributes read
                      \/ /\ conts' = DropLast(conts, c) /\ cur' = c /\ ps' = Pop(ps) /\ child' = FALSE              \* neither true= nor false=, or a sub-tag of another kind: dropped
                      \/ /\ cur' = t.subs[1] /\ ps' = ps /\ child' = TRUE                                            \* the '}' is inside true= / false=: back into the child
                         /\ \/ conts' = SetLast(conts, c, tc)
                            \/ /\ Offending(t.subs[1])                                                              \* ... after dropping its last sub-tag
                               /\ conts' = DropLast(SetLast(conts, c, tc), t.subs[1])
                 ELSE /\ cur' = c /\ ps' = Pop(ps) /\ child' = FALSE /\ Same(conts)                                 \* any other record: nothing to finish
    ELSE Same(<<conts, ps, cur, child, ltag, nid, bad>>)

LoopEnd ==   \* </loop>
    IF Variant = "loopend-any-kind" /\ ltag # 0 /\ ps # <<>> /\ (conts[Top(ps)] = <<>> \/ Last(Top(ps)).k # "loop")
    THEN bad' = "a record of another kind (or none) is reinterpreted as a loop at </loop>" /\ Same(<<conts, ps, cur, child, ltag, nid>>)
    ELSE
    IF ltag # 0 /\ ps # <<>> /\ conts[Top(ps)] # <<>> /\ Last(Top(ps)).k = "loop"
    THEN LET c == Top(ps)  t == Last(c) IN
         /\ cur' = c /\ ps' = Pop(ps) /\ ltag' = t.parent /\ Same(<<child, nid, bad>>)
         /\ \/ conts' = SetLast(conts, c, [t EXCEPT !.closed = TRUE])
            \/ conts' = DropLast(conts, c)                                    \* '<loop </loop>': not a loop
    ELSE Same(<<conts, ps, cur, child, ltag, nid, bad>>)

IfEnd ==     \* </if>
    IF ps = <<>> THEN Same(<<conts, ps, cur, child, ltag, nid, bad>>)
    ELSE IF conts[Top(ps)] = <<>> THEN bad' = "null tag at </if>" /\ Same(<<conts, ps, cur, child, ltag, nid>>)
    ELSE IF Last(Top(ps)).k = "if"
    THEN /\ conts' = SetLast(conts, Top(ps), [Last(Top(ps)) EXCEPT !.closed = TRUE])
         /\ cur' = Top(ps) /\ ps' = Pop(ps) /\ Same(<<child, ltag, nid, bad>>)
    ELSE Same(<<conts, ps, cur, child, ltag, nid, bad>>)

RECURSIVE Outside(_, _, _)
\* the repaired bad-else: walk loop_tag back to a loop that starts before the dropped <if>
Outside(id, ifid, fuel) == IF id = 0 \/ fuel = 0 THEN 0 ELSE IF id > ifid THEN Outside(RecOf(id).parent, ifid, fuel - 1) ELSE id

Else ==      \* <else ...
    IF ps = <<>> THEN Same(<<conts, ps, cur, child, ltag, nid, bad>>)
    ELSE IF conts[Top(ps)] = <<>> THEN bad' = "null tag at <else" /\ Same(<<conts, ps, cur, child, ltag, nid>>)
    ELSE IF Last(Top(ps)).k = "if"
    THEN LET c == Top(ps)  t == Last(c)  k == Len(t.subs)  base == Len(conts) IN
         \/ \* Cases.Insert moves the existing case containers; continue in the new one
            /\ conts' = [i \in 1..(base + k + 1) |->
                            IF i = c THEN [conts[c] EXCEPT ![Len(conts[c])].subs = [j \in 1..(k + 1) |-> base + j]]
                            ELSE IF i \in Range(t.subs) THEN Freed
                            ELSE IF i <= base THEN conts[i]
                            ELSE IF i <= base + k THEN conts[t.subs[i - base]] ELSE <<>>]
            /\ cur' = base + k + 1 /\ Same(<<ps, child, ltag, nid, bad>>)
         \/ \* bad else: the <if> is dropped
            /\ conts' = DropLast(conts, c) /\ cur' = c /\ ps' = Pop(ps)
            /\ ltag' = (IF Variant = "else-keeps-loop" THEN ltag ELSE Outside(ltag, t.id, Fuel)) /\ Same(<<child, nid, bad>>)
    ELSE Same(<<conts, ps, cur, child, ltag, nid, bad>>)

RECURSIVE Unwind(_, _)
Unwind(cs, stack) == IF stack = <<>> THEN cs ELSE Unwind(IF cs[Top(stack)] = <<>> THEN cs ELSE DropLast(cs, Top(stack)), Pop(stack))
\* end of the text: unfinished tags are dropped
End == /\ phase = "scan" /\ phase' = "end" /\ conts' = Unwind(conts, ps) /\ ps' = <<>> /\ cur' = IF ps = <<>> THEN cur ELSE ps[1]
       /\ Same(<<child, ltag, nid, bad, n, hist>>)

Token(t) == CASE t = "CLOSE" -> Close [] t = "VAR" -> Leaf("var") [] t = "RAW" -> Leaf("var") [] t = "MATH" -> Leaf("math")
              [] t = "SVAR" -> Open("svar") [] t = "IIF" -> Open("iif") [] t = "LOOP" -> Open("loop") [] t = "LOOPEND" -> LoopEnd
              [] t = "IF" -> Open("if") [] t = "IFEND" -> IfEnd [] t = "ELSE" -> Else
Tokens == {"CLOSE", "VAR", "MATH", "SVAR", "IIF", "LOOP", "LOOPEND", "IF", "IFEND", "ELSE"}     \* RAW behaves as VAR

Step == /\ phase = "scan" /\ n < MaxLen /\ bad = "" /\ n' = n + 1 /\ Same(phase)
        /\ \E t \in Tokens : Token(t) /\ hist' = Append(hist, t)
Next == Step \/ End
Spec == Init /\ [][Next]_vars

\* E2 / E3: one token path per distinct scanner state (the first one TLC found), printed for the conformance harness
ExportPath == PrintT(<<"PATH", hist>>)
\* ------------------------------ invariants ---------------------------------------
NoBad == bad = ""
PsLive == phase = "scan" => (cur \in LiveConts /\ \A i \in 1..Len(ps) : ps[i] \in LiveConts)
RECURSIVE Chain(_, _)
Chain(id, fuel) == id = 0 \/ (fuel > 0 /\ IsLiveLoop(id) /\ Chain(RecOf(id).parent, fuel - 1))
ChainLive == phase = "scan" => Chain(ltag, Fuel)
AllClosedAtEnd == phase = "end" => \A r \in LiveRecs : r.closed
\* ancestors: ids of the records on the way from the root to container c
RECURSIVE AncPaths(_, _, _)
AncPaths(c, anc, fuel) == {<<c, anc>>} \cup (IF fuel = 0 THEN {} ELSE
                          UNION {UNION {AncPaths(s, anc \cup {conts[c][i].id}, fuel - 1) : s \in Range(conts[c][i].subs)} : i \in 1..Len(conts[c])})
RECURSIVE ChainIds(_, _)
ChainIds(id, fuel) == IF id = 0 \/ fuel = 0 \/ ~IsLiveLoop(id) THEN {} ELSE {id} \cup ChainIds(RecOf(id).parent, fuel - 1)
\* at the end, whatever loop a surviving record may have matched is one of its ancestors (or was dropped: then its Level is
\* not an index the renderer has prepared - it must not have survived while the record did)
LoopsEnclose == phase = "end" =>
    \A p \in AncPaths(1, {}, Fuel) : \A i \in 1..Len(conts[p[1]]) :
        LET r == conts[p[1]][i] IN r.lt # 0 => (IsLiveLoop(r.lt) /\ ChainIds(r.lt, Fuel) \subseteq p[2])
LevelIsDepth == phase = "end" =>
    \A p \in AncPaths(1, {}, Fuel) : \A i \in 1..Len(conts[p[1]]) :
        LET r == conts[p[1]][i] IN r.k = "loop" => r.level = Cardinality(p[2])
=============================================================================
