---------------------------- MODULE OracleEscape ----------------------------
(* code -> spec batch oracle (E5) for C03.  Event {s, o, oo, esc}:           *)
(*  o  = StringUtils::EscapeHTMLSpecialChars(s) of the real code,            *)
(*  oo = the same function applied to o, esc = 1 when auto-escape is on.     *)
EXTENDS Integers, QEscape, Json, IOUtils
Tr == ndJsonDeserialize(IOEnv.TRACE)
VARIABLE l
EventOK(e) == IF e.esc = 1 THEN Laws(e.s, e.o) /\ e.oo = e.o
              ELSE e.o = e.s /\ e.oo = e.s
Drift(e) == e.esc = 1 /\ e.o # Escape(e.s)
\* one state per event; events are reached through NB block states so that all TLC workers share the evaluation
NB == 64
BSize == (Len(Tr) + NB - 1) \div NB
OInit == l = 0
ONext == \/ l = 0 /\ l' \in {0 - b : b \in 1..NB}
         \/ l < 0 /\ l' \in {i \in (((0 - l) - 1) * BSize + 1)..((0 - l) * BSize) : i <= Len(Tr)}
Check == \/ l <= 0
         \/ /\ (EventOK(Tr[l]) \/ PrintT(<<"MISMATCH", l>>))
            /\ (~Drift(Tr[l]) \/ PrintT(<<"DRIFT", l>>))
=============================================================================
