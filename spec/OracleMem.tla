------------------------------ MODULE OracleMem ------------------------------
(* code -> spec (E5) for C16: one recorded scope per event.  A scope is a    *)
(* stretch of a harness run whose objects are all created inside it; the     *)
(* ledger behind Memory::Allocate / Deallocate (the library's own accounting *)
(* seam) records every block: ev = the sequence of +instance / -instance / 0 *)
(* in the order they happened, z = 1 if every owner created in the scope is    *)
(* gone at its end.  A long scope is cut into segments: base = the instances *)
(* live when the segment began, base0 = when the scope began.  The event is accepted iff folding QMem's transition     *)
(* over ev (from base) never errs and, when z = 1, exactly base0 is live     *)
(* again.                                                                    *)
EXTENDS QMemDefs, Json, IOUtils
Tr == ndJsonDeserialize(IOEnv.TRACE)
VARIABLE l
EventOK(e) == LET base == {e.base[i] : i \in 1..Len(e.base)}
                  base0 == {e.base0[i] : i \in 1..Len(e.base0)}
                  r == Fold([live |-> base, err |-> ""], e.ev, 1) IN
              r.err = "" /\ (e.z = 0 \/ r.live = base0)
OInit == l = 0
ONext == \/ /\ l = 0 /\ l' \in {0 - b : b \in 1..64}
         \/ /\ l < 0 /\ l' \in {i \in 1..Len(Tr) : i % 64 = (0 - l) % 64}
         \/ /\ l > 0 /\ UNCHANGED l
Check == l <= 0 \/ EventOK(Tr[l]) \/ PrintT(<<"MISMATCH", l>>)
=============================================================================
