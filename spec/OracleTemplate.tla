---------------------------- MODULE OracleTemplate ----------------------------
(* code -> spec batch oracle (E5) for C02 / C03 / C17 / C18(loop group).       *)
(* Event {t, out, prefix, wsame, vsame, meta: {ast, doc}}: the template text t  *)
(* (unparsed from ast by the generator) rendered with the value doc gave out.  *)
EXTENDS QTemplate, Json, IOUtils
Tr == ndJsonDeserialize(IOEnv.TRACE)
VARIABLE l
Expected(e) == Render(e.meta.ast, e.meta.doc, <<>>)
Judgeable(x) == \A i \in 1..Len(x) : x[i] # -999
EventOK(e) == LET x == Expected(e) IN
              /\ e.prefix = 1 /\ e.wsame = 1 /\ e.vsame = 1        \* stream only appended to; same for every width; value untouched; second render identical
              /\ Judgeable(x) => e.out = x
NB == 64
BSize == (Len(Tr) + NB - 1) \div NB
OInit == l = 0
ONext == \/ l = 0 /\ l' \in {0 - b : b \in 1..NB}
         \/ l < 0 /\ l' \in {i \in (((0 - l) - 1) * BSize + 1)..((0 - l) * BSize) : i <= Len(Tr)}
Check == l <= 0 \/ EventOK(Tr[l]) \/ PrintT(<<"MISMATCH", l, Expected(Tr[l])>>)
=============================================================================
