---------------------------- MODULE OracleTemplate ----------------------------
(* code -> spec batch oracle (E5) for C02 / C03 / C17 / C18(loop group).       *)
(* Event {t, out, prefix, wsame, vsame, meta: {ast, doc}}: the template text t  *)
(* (unparsed from ast by the generator) rendered with the value doc gave out.  *)
EXTENDS QTemplate, Json, IOUtils
Tr == ndJsonDeserialize(IOEnv.TRACE)
VARIABLE l
Expected(e) == Render(e.meta.ast, e.meta.doc, <<>>)
Judgeable(x) == \A i \in 1..Len(x) : x[i] # -999
\* A node the specification does not judge (an expression outside QExpr's exact domain, an inline-if case without value)
\* leaves the marker -999 in the expected text: it stands for ANY text there; everything around it is still demanded.
RECURSIVE Segments(_, _, _)
Segments(x, i, acc) == IF i > Len(x) THEN << acc >>
                       ELSE IF x[i] = -999 THEN << acc >> \o Segments(x, i + 1, <<>>)
                       ELSE Segments(x, i + 1, Append(acc, x[i]))
\* leftmost position >= from where seg occurs in out and ends at or before limit (0 = none)
FindFrom(out, seg, from, limit) ==
    IF Len(seg) = 0 THEN (IF from <= limit + 1 THEN from ELSE 0)
    ELSE LET C == {i \in from..(limit - Len(seg) + 1) : out[i] = seg[1] /\ SubSeq(out, i, i + Len(seg) - 1) = seg} IN
         IF C = {} THEN 0 ELSE CHOOSE i \in C : \A j \in C : i <= j
RECURSIVE Middle(_, _, _, _, _)
Middle(out, segs, k, from, limit) ==          \* segs[k .. Len(segs)-1] occur in this order inside out[from .. limit]
    IF k >= Len(segs) THEN TRUE
    ELSE \E p \in {FindFrom(out, segs[k], from, limit)} :            \* (bound once: TLC would re-evaluate a LET at every use, 2^k searches)
             p # 0 /\ Middle(out, segs, k + 1, p + Len(segs[k]), limit)
MatchWild(out, x) ==
    LET segs == Segments(x, 1, <<>>)  n == Len(segs) IN
    IF n = 1 THEN out = x
    ELSE /\ Len(segs[1]) + Len(segs[n]) <= Len(out)
         /\ SubSeq(out, 1, Len(segs[1])) = segs[1]
         /\ SubSeq(out, Len(out) - Len(segs[n]) + 1, Len(out)) = segs[n]
         /\ Middle(out, segs, 2, Len(segs[1]) + 1, Len(out) - Len(segs[n]))
\* matching with wildcards is quadratic: an expected text with hundreds of unjudged nodes (nested loops over the root) is only
\* reported as skipped (quick tier: a handful of events)
Markers(x) == Cardinality({i \in 1..Len(x) : x[i] = -999})
TooBig(x) == ~Judgeable(x) /\ (Len(x) > 8000 \/ Markers(x) > 48)
EventOK(e) == LET x == Expected(e) IN
              /\ e.prefix = 1 /\ e.wsame = 1 /\ e.vsame = 1        \* stream only appended to; same for every width; value untouched; second render identical
              /\ (TooBig(x) \/ MatchWild(e.out, x))
NB == 64
BSize == (Len(Tr) + NB - 1) \div NB
OInit == l = 0
ONext == \/ l = 0 /\ l' \in {0 - b : b \in 1..NB}
         \/ l < 0 /\ l' \in {i \in (((0 - l) - 1) * BSize + 1)..((0 - l) * BSize) : i <= Len(Tr)}
Check == /\ (l <= 0 \/ EventOK(Tr[l]) \/ PrintT(<<"MISMATCH", l, Expected(Tr[l])>>))
         /\ (l <= 0 \/ Judgeable(Expected(Tr[l])) \/ PrintT(<<IF TooBig(Expected(Tr[l])) THEN "SKIPPED" ELSE "PARTIAL", l>>))
=============================================================================
