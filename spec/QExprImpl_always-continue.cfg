SPECIFICATION Spec
CONSTANTS MaxOps = 4
          Variant = "always-continue"
INVARIANTS Agree Consumes
CHECK_DEADLOCK FALSE
