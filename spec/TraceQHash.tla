----------------------------- MODULE TraceQHash -----------------------------
(* code -> spec (E4): validates ndjson traces recorded from the real        *)
(* HArray/HList by harness/h_hash.cpp against the actions of QHash.         *)
(* One state per consumed line; a rejected line = deadlock with l = line.   *)
EXTENDS QHash, Json, IOUtils

Tr == ndJsonDeserialize(IOEnv.TRACE)
VARIABLE l

Ev == Tr[l]
UnSlot(x) == IF x[3] = 1 THEN Slot(x[1], x[2]) ELSE Dead
UnProj(p) == [i \in 1..Len(p) |-> UnSlot(p[i])]
Logged(t) == UnProj(Ev.p[t])
LoggedAll == [t \in Tables |-> Logged(t)]

\* the action of the property specification, constrained to the logged successor
Step(A) == A /\ tb' = LoggedAll /\ l' = l + 1

TInit == tb = [t \in Tables |-> <<>>] /\ l = 1

A(i) == Ev.a[i]
TNext ==
  \/ /\ l <= Len(Tr)
     /\ \/ /\ Ev.op = "Reset" /\ tb' = [t \in Tables |-> <<>>] /\ l' = l + 1
        \/ /\ Ev.op = "Insert" /\ Step(Insert(A(1), A(2), A(3)))
        \/ /\ Ev.op = "GetOrCreate" /\ Step(GetOrCreate(A(1), A(2)))
        \/ /\ Ev.op = "Remove" /\ Step(Remove(A(1), A(2)))
        \/ /\ Ev.op = "RemoveIndex" /\ Step(RemoveIndex(A(1), A(2)))
        \/ /\ Ev.op = "Rename" /\ Step(Rename(A(1), A(2), A(3)))
           /\ Ev.ret = (IF RenameOK(tb[A(1)], A(2), A(3)) THEN 1 ELSE 0)
        \/ /\ Ev.op = "Resize" /\ Step(Resize(A(1), A(2)))
        \/ /\ Ev.op = "Expect" /\ Step(Expect(A(1)))
        \/ /\ Ev.op = "Compress" /\ Step(Compress(A(1)))
        \/ /\ Ev.op = "Clear" /\ Step(Clear(A(1)))
        \/ /\ Ev.op = "Sort"      \* under-specified placement of dead slots: accept by predicate, adopt the logged state
           /\ IsSortResult(tb[A(1)], Logged(A(1)), A(2) = 1)
           /\ \A u \in Tables \ {A(1)} : Logged(u) = tb[u]
           /\ tb' = LoggedAll /\ l' = l + 1
        \/ /\ Ev.op = "CopyFrom" /\ Step(CopyFrom(A(1), A(2)))
        \/ /\ Ev.op = "MoveFrom" /\ Step(MoveFrom(A(1), A(2)))
        \/ /\ Ev.op = "MergeCopy" /\ Step(MergeCopy(A(1), A(2)))
        \/ /\ Ev.op = "MergeMove" /\ Step(MergeMove(A(1), A(2)))
        \/ /\ Ev.op = "Has" /\ Ev.ret = (IF HasKey(tb[A(1)], A(2)) THEN 1 ELSE 0)
           /\ Step(UNCHANGED tb)
     /\ Ev.op = "Reset" \/ Ev.ok = 1      \* lookup API agreed with the positional view at this step
  \/ /\ l = Len(Tr) + 1 /\ UNCHANGED <<tb, l>>

TSpec == TInit /\ [][TNext]_<<tb, l>>
Consumed == l = Len(Tr) + 1
=============================================================================
