INIT OInit
NEXT ONext
INVARIANT Check
CONSTANTS Variant = "current"
          MaxLoops = 3
          MaxName = 2
          MaxRef = 4
CHECK_DEADLOCK FALSE
