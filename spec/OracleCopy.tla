----------------------------- MODULE OracleCopy -----------------------------
(* code -> spec batch oracle (E5) for the byte-copy / zero-fill primitives.  *)
(* Event {n, so, do, src, dst, guard, nonzero, zguard}: src = the n source   *)
(* bytes, dst = the n destination bytes after Memory::Copy, guard = 1 when    *)
(* the bytes in front of the destination are untouched, nonzero = number of  *)
(* non-zero bytes after Memory::SetToZero, zguard as guard.                  *)
EXTENDS Integers, Sequences, TLC, Json, IOUtils
Tr == ndJsonDeserialize(IOEnv.TRACE)
VARIABLE l
EventOK(e) == /\ Len(e.src) = e.n /\ Len(e.dst) = e.n
              /\ \A i \in 1..e.n : e.dst[i] = e.src[i]
              /\ e.guard = 1 /\ e.nonzero = 0 /\ e.zguard = 1
NB == 64
BSize == (Len(Tr) + NB - 1) \div NB
OInit == l = 0
ONext == \/ l = 0 /\ l' \in {0 - b : b \in 1..NB}
         \/ l < 0 /\ l' \in {i \in (((0 - l) - 1) * BSize + 1)..((0 - l) * BSize) : i <= Len(Tr)}
Check == l <= 0 \/ EventOK(Tr[l]) \/ PrintT(<<"MISMATCH", l>>)
=============================================================================
