--------------------------- MODULE OracleUnicode ---------------------------
(* code -> spec batch oracle (E5) for C20.  Event:                           *)
(*  {c, d8, d16, d32, j: <<9 entries>>, esc: [upper, lower]}                 *)
(*  d* = Unicode::ToUTF output; j[i] = <<>> when the JSON-escape decoding i is  *)
(*  unit-for-unit identical to the corresponding direct encoding, otherwise  *)
(*  the decoded units (harness-side compression of identical arrays).        *)
(*  esc = the escape texts the harness fed to JSON::Parse (checked too).     *)
EXTENDS QUnicodeImplDefs, Json, IOUtils
Tr == ndJsonDeserialize(IOEnv.TRACE)
VARIABLE l
Same(x, direct, want) == IF x = <<>> THEN direct = want ELSE x = want
EventOK(e) ==
    /\ IsScalar(e.c) /\ RoundTrip(e.c)
    /\ e.d8 = UTF8(e.c) /\ e.d16 = UTF16(e.c) /\ e.d32 = UTF32(e.c)
    /\ e.esc[1] = EscapeForm(e.c, TRUE) /\ e.esc[2] = EscapeForm(e.c, FALSE)
    /\ \A i \in 1..3 : Same(e.j[i], e.d8, UTF8(e.c))        \* upper, lower, inside a longer string
    /\ \A i \in 4..6 : Same(e.j[i], e.d16, UTF16(e.c))
    /\ \A i \in 7..9 : Same(e.j[i], e.d32, UTF32(e.c))
\* one state per event; events are reached through NB block states so that all TLC workers share the evaluation
NB == 64
BSize == (Len(Tr) + NB - 1) \div NB
OInit == l = 0
ONext == \/ l = 0 /\ l' \in {0 - b : b \in 1..NB}
         \/ l < 0 /\ l' \in {i \in (((0 - l) - 1) * BSize + 1)..((0 - l) * BSize) : i <= Len(Tr)}
\* the transcription (QUnicodeImplDefs, checked by TLC against QUnicode) is what the engine does
Drifts(e) == ~(e.d8 = ImplUTF8(e.c, "current") /\ e.d16 = ImplUTF16(e.c, "current") /\ e.d32 = ImplUTF32(e.c, "current"))
Check == /\ (l <= 0 \/ EventOK(Tr[l]) \/ PrintT(<<"MISMATCH", l>>))
         /\ (l <= 0 \/ ~Drifts(Tr[l]) \/ PrintT(<<"DRIFT", l>>))
=============================================================================
