-------------------------------- MODULE QMem --------------------------------
(* Specification for C16: the allocation ledger.                             *)
(* Every block the library obtains goes through Memory::Allocate and is      *)
(* returned through Memory::Deallocate (Memory.hpp; the seam the test-suite  *)
(* uses for its own accounting).  The abstract state is the set of live      *)
(* block instances; an event is +b (block instance b allocated), -b (b       *)
(* released) or 0 (a release of an address that is not live: a double        *)
(* release or a release of something never allocated).                       *)
(*   Apply(st, x)   the ledger transition (pure, shared with the trace       *)
(*                  oracle OracleMem, which folds it over recorded events)   *)
(* Properties:                                                               *)
(*   ExactlyOnce    no event ever puts the ledger in error: a block is       *)
(*                  released only while live (so at most once) ...           *)
(*   NetZero        ... and when the owners are gone (scope end) nothing is  *)
(*                  live that was not live when the scope began (so at       *)
(*                  least once)                                              *)
(* The model (Spec) is the most general client: it allocates, releases       *)
(* correctly, and - in the variants - releases twice or forgets; TLC shows   *)
(* that the properties separate them (QMem_*.cfg).  Use after release cannot *)
(* be seen in the ledger; the same executions run under ASan.                *)
EXTENDS QMemDefs

CONSTANTS Blocks,      \* block instances of the model
          Variant      \* "disciplined" | "double-release" | "leak"

VARIABLES st, used, closed
vars == <<st, used, closed>>
Init == st = [live |-> {}, err |-> ""] /\ used = {} /\ closed = FALSE
Alloc(b) == ~closed /\ b \notin used /\ st' = Apply(st, b) /\ used' = used \cup {b} /\ UNCHANGED closed
Release(b) == ~closed /\ b \in st.live /\ st' = Apply(st, Neg(b)) /\ UNCHANGED <<used, closed>>
ReleaseAgain(b) == Variant = "double-release" /\ ~closed /\ b \in used /\ b \notin st.live /\ st' = Apply(st, Neg(b)) /\ UNCHANGED <<used, closed>>
\* the owners go away: a disciplined client has released everything by then
ScopeEnd == ~closed /\ (Variant = "leak" \/ st.live = {}) /\ closed' = TRUE /\ UNCHANGED <<st, used>>
Next == (\E b \in Blocks : Alloc(b) \/ Release(b) \/ ReleaseAgain(b)) \/ ScopeEnd
Spec == Init /\ [][Next]_vars

ExactlyOnce == st.err = ""
NetZero == closed => st.live = {}
=============================================================================
