-------------------------------- MODULE QExpr --------------------------------
(* Property specification (P) for C04: the value of an expression of         *)
(* {math:...} / case="...".  An expression is a sequence alternating         *)
(* operands and operators; operands are number literals, variables (with the *)
(* document value they resolve to), text (only next to == / !=) and          *)
(* parenthesised sub-expressions.  Numbers are exact: value = n / 16.        *)
(* Admissible(e) is the set of results of ALL parse trees in which an        *)
(* operator of a tighter documented group binds tighter than one of a        *)
(* looser group; * / and + - associate to the left; inside the other groups  *)
(* the documentation fixes no order, so every shape is admissible.           *)
(* Results outside the exact domain are "unjudged".                          *)
EXTENDS Integers, Sequences, FiniteSets, TLC

Group(op) == CASE op \in {"^", "%"} -> 1 [] op \in {"*", "/"} -> 2 [] op \in {"+", "-"} -> 3 [] op \in {"&", "|"} -> 4
               [] op \in {"==", "!=", "<", ">", "<=", ">="} -> 5 [] op \in {"&&", "||"} -> 6
LeftAssoc(g) == g \in {2, 3}

None == [t |-> "none"]              \* no value: a math tag echoes its source, a condition is not satisfied
Unjudged == [t |-> "unjudged"]      \* outside the exact domain of this specification
Num(n) == [t |-> "num", n |-> n]    \* value n / 16
Limit == 33554432
Guard(n) == IF n > Limit \/ n < 0 - Limit THEN Unjudged ELSE Num(n)
IsInt(n) == (IF n < 0 THEN 0 - n ELSE n) % 16 = 0
Trunc(n) == IF n >= 0 THEN n \div 16 ELSE 0 - ((0 - n) \div 16)          \* integer part, toward zero

\* numeric meaning of a document value (variables): numbers; numeric strings; true = 1; false, null = 0
DocNum(d) == CASE d.kind \in {"u64", "i64", "real"} -> Num(d.n)
               [] d.kind = "str" -> (IF d.isnum = 1 THEN Num(d.n) ELSE None)
               [] d.kind = "true" -> Num(16)
               [] d.kind \in {"false", "null"} -> Num(0)
               [] OTHER -> None
DocText(d) == CASE d.kind = "str" -> [ok |-> TRUE, s |-> d.s]
                [] d.kind = "true" -> [ok |-> TRUE, s |-> <<116, 114, 117, 101>>]
                [] d.kind = "false" -> [ok |-> TRUE, s |-> <<102, 97, 108, 115, 101>>]
                [] d.kind = "null" -> [ok |-> TRUE, s |-> <<110, 117, 108, 108>>]
                [] OTHER -> [ok |-> FALSE, s |-> <<>>]
IsNumberKind(d) == d.kind \in {"u64", "i64", "real"}

\* an operand descriptor x: [t = "num", n] | [t = "var", d] | [t = "text", s] | None | Unjudged
AsNumber(x) == CASE x.t = "num" -> x [] x.t = "var" -> DocNum(x.d) [] x.t = "text" -> None [] OTHER -> x
Bad(x, y) == IF x.t = "unjudged" \/ y.t = "unjudged" THEN Unjudged ELSE None
RECURSIVE PowInt(_, _)
PowInt(b, e) == IF e = 0 THEN 1 ELSE b * PowInt(b, e - 1)                \* small integers only
RECURSIVE BAnd(_, _)
BAnd(a, b) == IF a = 0 \/ b = 0 THEN 0 ELSE (a % 2) * (b % 2) + 2 * BAnd(a \div 2, b \div 2)
RECURSIVE BOr(_, _)
BOr(a, b) == IF a = 0 THEN b ELSE IF b = 0 THEN a ELSE (IF (a % 2) + (b % 2) > 0 THEN 1 ELSE 0) + 2 * BOr(a \div 2, b \div 2)
\* bitwise operations on integers of either sign (two's complement, as on the 64-bit operands of the engine): ~x = -x - 1
BNot(x) == 0 - x - 1
IntAnd(a, b) == IF a >= 0 /\ b >= 0 THEN BAnd(a, b)
                ELSE IF a < 0 /\ b < 0 THEN BNot(BOr(BNot(a), BNot(b)))
                ELSE IF a >= 0 THEN a - BAnd(a, BNot(b))            \* the bits of a that are not in ~b
                ELSE b - BAnd(b, BNot(a))
IntOr(a, b) == IF a >= 0 /\ b >= 0 THEN BOr(a, b)
               ELSE IF a < 0 /\ b < 0 THEN BNot(BAnd(BNot(a), BNot(b)))
               ELSE IF a >= 0 THEN BNot(BNot(b) - BAnd(BNot(b), a))   \* ~(~b & ~a)
               ELSE BNot(BNot(a) - BAnd(BNot(a), b))
B(c) == Num(IF c THEN 16 ELSE 0)

Arith(op, a, b, pin) ==      \* a, b scaled integers
    CASE op = "+" -> Guard(a + b)
      [] op = "-" -> Guard(a - b)
      [] op = "*" -> IF a > 46000 \/ a < -46000 \/ b > 46000 \/ b < -46000 THEN Unjudged ELSE
                     LET x == a * b  ax == IF x < 0 THEN 0 - x ELSE x IN
                     IF ax % 16 = 0 THEN Guard(IF x < 0 THEN 0 - (ax \div 16) ELSE ax \div 16) ELSE Unjudged
      [] op = "/" -> IF b = 0 THEN None
                     ELSE LET x == a * 16  ax == IF x < 0 THEN 0 - x ELSE x  ab == IF b < 0 THEN 0 - b ELSE b
                              neg == (x < 0) # (b < 0) IN
                          IF ax % ab = 0 THEN Guard(IF neg THEN 0 - (ax \div ab) ELSE ax \div ab) ELSE Unjudged
      [] op = "%" -> IF Trunc(b) = 0 THEN None
                     ELSE LET x == Trunc(a)  y == Trunc(b)  ax == IF x < 0 THEN 0 - x ELSE x  ay == IF y < 0 THEN 0 - y ELSE y IN
                          Num(16 * (IF x < 0 THEN 0 - (ax % ay) ELSE ax % ay))                 \* truncating remainder: sign of the dividend
      [] op = "^" -> IF ~IsInt(b) \/ ~IsInt(a) THEN None                                       \* powers of / to fractions: no value
                     ELSE IF a = 0 /\ b = 0 THEN Unjudged                                       \* 0 ^ 0 is not fixed by the contract
                     ELSE IF a = 0 /\ b < 0 THEN None                                           \* division by zero
                     ELSE LET base == IF a < 0 THEN 0 - (a \div 16) ELSE a \div 16                 \* magnitudes (a, b are multiples of 16)
                              e == (IF b < 0 THEN 0 - b ELSE b) \div 16
                              neg == a < 0 /\ (e % 2 = 1 \/ (pin /\ b < 0)) IN
                          IF ~(base <= 1 \/ (base <= 2 /\ e <= 20) \/ (base <= 10 /\ e <= 6) \/ (base <= 64 /\ e <= 3)) THEN Unjudged
                          ELSE LET p == PowInt(base, e) IN
                               IF b >= 0 THEN Guard(IF neg THEN 0 - 16 * p ELSE 16 * p)
                               ELSE IF p <= 16 /\ 16 % p = 0 THEN Num(IF neg THEN 0 - (16 \div p) ELSE 16 \div p) ELSE Unjudged   \* reciprocal when exact
      [] op = "&" -> IF IsInt(a) /\ IsInt(b) THEN Num(16 * IntAnd(a \div 16, b \div 16)) ELSE Unjudged
      [] op = "|" -> IF IsInt(a) /\ IsInt(b) THEN Num(16 * IntOr(a \div 16, b \div 16)) ELSE Unjudged
      [] op = "<" -> B(a < b) [] op = ">" -> B(a > b) [] op = "<=" -> B(a <= b) [] op = ">=" -> B(a >= b)
      [] op = "&&" -> B(a > 0 /\ b > 0) [] op = "||" -> B(a > 0 \/ b > 0)

\* == / != : numeric when either side is a number, textual when neither is
IsNumberOperand(x) == x.t = "num" \/ (x.t = "var" /\ IsNumberKind(x.d))
TextOf(x) == IF x.t = "text" THEN [ok |-> TRUE, s |-> x.s] ELSE IF x.t = "var" THEN DocText(x.d) ELSE [ok |-> FALSE, s |-> <<>>]
Equal(x, y) ==
    IF x.t \in {"none", "unjudged"} \/ y.t \in {"none", "unjudged"} THEN Bad(x, y)
    ELSE IF IsNumberOperand(x) \/ IsNumberOperand(y)
         THEN LET a == AsNumber(x)  b == AsNumber(y) IN IF a.t = "num" /\ b.t = "num" THEN B(a.n = b.n) ELSE None
         ELSE LET a == TextOf(x)  b == TextOf(y) IN IF a.ok /\ b.ok THEN B(a.s = b.s) ELSE None
Apply(op, x, y, pin) ==
    IF op = "==" THEN Equal(x, y)
    ELSE IF op = "!=" THEN LET r == Equal(x, y) IN IF r.t = "num" THEN B(r.n = 0) ELSE r
    ELSE LET a == AsNumber(x)  b == AsNumber(y) IN
         IF a.t = "num" /\ b.t = "num" THEN Arith(op, a.n, b.n, pin) ELSE Bad(a, b)

\* the value of a whole (sub)expression from the descriptor of its root
Final(x) == CASE x.t = "num" -> x
              [] x.t = "var" -> LET v == DocNum(x.d) IN
                                IF v.t = "num" THEN v
                                ELSE Num(IF x.d.kind = "str" /\ Len(x.d.s) > 0 THEN 16 ELSE 0)   \* a lone variable: non-empty string = true
              [] x.t = "text" -> None
              [] OTHER -> x

\* ---- all admissible parse trees -------------------------------------------------------
Ops(l) == {i \in 1..Len(l) : i % 2 = 0}
MaxGroup(l) == CHOOSE g \in {Group(l[i]) : i \in Ops(l)} : \A i \in Ops(l) : Group(l[i]) <= g
Roots(l) == LET g == MaxGroup(l)  c == {i \in Ops(l) : Group(l[i]) = g} IN
            IF LeftAssoc(g) THEN {CHOOSE i \in c : \A j \in c : j <= i} ELSE c
RECURSIVE Results(_, _)
RECURSIVE Operand(_, _)
\* descriptors of an operand token
Operand(tok, pin) == IF tok.t = "sub" THEN {Final(r) : r \in Results(tok.e, pin)}
                ELSE IF tok.t = "lit" THEN {Num(tok.n)}
                ELSE IF tok.t = "var" THEN {[t |-> "var", d |-> tok.d]}
                ELSE {[t |-> "text", s |-> tok.s]}
Results(l, pin) == IF Len(l) = 1 THEN Operand(l[1], pin)
              ELSE UNION {{Apply(l[i], x, y, pin) : x \in Results(SubSeq(l, 1, i - 1), pin), y \in Results(SubSeq(l, i + 1, Len(l)), pin)} : i \in Roots(l)}
Admissible(l) == {Final(r) : r \in Results(l, FALSE)}
\* the values under the recorded defect "negative base ^ negative exponent is always negative" (known finding, pinned by the test-suite)
AdmissiblePinned(l) == {Final(r) : r \in Results(l, TRUE)}
\* decimal text of n / 16 for multiples of a quarter: integer, or integer.25 / .5 / .75
RECURSIVE DecDigits(_)
DecDigits(x) == IF x < 10 THEN <<48 + x>> ELSE DecDigits(x \div 10) \o <<48 + (x % 10)>>
QuarterText(n) == LET a == IF n < 0 THEN 0 - n ELSE n
                      ip == a \div 16  fr == a % 16
                  IN (IF n < 0 THEN <<45>> ELSE <<>>) \o DecDigits(ip) \o
                     (CASE fr = 0 -> <<>> [] fr = 4 -> <<46, 50, 53>> [] fr = 8 -> <<46, 53>> [] fr = 12 -> <<46, 55, 53>>)
=============================================================================
