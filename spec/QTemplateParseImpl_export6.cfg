SPECIFICATION Spec
CONSTANTS MaxLen = 6
          Fuel = 8
          Variant = "current"
INVARIANTS ExportPath
CHECK_DEADLOCK FALSE
VIEW View
