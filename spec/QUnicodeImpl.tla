---------------------------- MODULE QUnicodeImpl ----------------------------
(* Implementation specification (I) for C20: Unicode::ToUTF (Unicode.hpp)    *)
(* for 8-, 16- and 32-bit units and the surrogate-pair combination of        *)
(* JSONUtils::UnEscape, transcribed with the bit operations the code uses    *)
(* (Bitwise: |, &, ^, shifts), checked against QUnicode at every length      *)
(* boundary, in every plane and on a stride over the scalar range.           *)
(* Variants = seeded / plausible changes of the same lines (rejected):       *)
(*   "plane16-guard"    code points above 0xFFFFF are replaced by U+FFFD     *)
(*                      ("a surrogate pair carries 20 bits", seed C06-3)     *)
(*   "surrogate-guard"  (c & 0xF800) = 0xD800 is taken for a surrogate also  *)
(*                      above the BMP (seed C20-3)                           *)
(*   "pair-or"          the pair is combined with |= instead of +=  (C20-2)  *)
(*   "lead-mask"        the lead byte of a 4-byte sequence keeps 2 payload   *)
(*                      bits only (planes 4..16 lose their top bit)          *)
(*   "bmp-inclusive"    `<= 0x10000` at the UTF-16 boundary                  *)
EXTENDS QUnicodeImplDefs
CONSTANT Variant
VARIABLE c

Edges == {0, 127, 128, 2047, 2048, 4095, 4096, 55295, 57344, 65533, 65535, 65536, 65537, 66559, 66560, 120832, 122879, 131071, 131072, 196608, 262143, 262144,
          327679, 327680, 524288, 917504, 983040, 1048575, 1048576, 1103872, 1105919, 1114110, 1114111}
Init == c \in Edges \cup {x * 4099 : x \in 0..271} \cup {x * 65536 + 55296 + 7 : x \in 1..16}
Next == UNCHANGED c
Spec == Init /\ [][Next]_c
Agree == IsScalar(c) =>
         /\ ImplUTF8(c, Variant) = UTF8(c) /\ ImplUTF16(c, Variant) = UTF16(c) /\ ImplUTF32(c, Variant) = UTF32(c)
         /\ (c >= 65536 => ImplPair(UTF16(c)[1], UTF16(c)[2], Variant) = c)
=============================================================================
