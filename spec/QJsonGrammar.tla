---------------------------- MODULE QJsonGrammar ----------------------------
(* Property specification (P) for C05-C08: the JSON grammar of RFC 8259 as   *)
(* a recognizer with denotation.  A text is a sequence of code units; the    *)
(* denoted value is a document in the representation of QValue (objects are  *)
(* ordered maps keyed by the decoded key units; a duplicate key keeps its    *)
(* first position and takes the last value).  \uXXXX escapes (and surrogate  *)
(* pairs) denote a code point that is encoded for the target width Wd        *)
(* (8: UTF-8, 16: UTF-16, 32: UTF-32) by QUnicode; all other string units    *)
(* are copied.  Numbers: exact twice-the-value for small numerals, otherwise *)
(* marked approx (their value is the subject of C09).                        *)
EXTENDS Integers, Sequences, TLC, QUnicode

U == [t |-> "U"]
Z == [t |-> "Z"]
T == [t |-> "T"]
F == [t |-> "F"]
S(s) == [t |-> "S", s |-> s]
A(e) == [t |-> "A", e |-> e]
O(m) == [t |-> "O", m |-> m]
Fail == [ok |-> FALSE, p |-> 0, v |-> U]
Ok(p, v) == [ok |-> TRUE, p |-> p, v |-> v]

At(t, p) == IF p <= Len(t) THEN t[p] ELSE -1
IsWs(c) == c \in {32, 9, 10, 13}
IsDigit(c) == c >= 48 /\ c <= 57
RECURSIVE SkipWs(_, _)
SkipWs(t, p) == IF IsWs(At(t, p)) THEN SkipWs(t, p + 1) ELSE p

\* ---- strings -----------------------------------------------------------------
HexVal(c) == IF c >= 48 /\ c <= 57 THEN c - 48
             ELSE IF c >= 65 /\ c <= 70 THEN c - 55
             ELSE IF c >= 97 /\ c <= 102 THEN c - 87
             ELSE -1
Hex4At(t, p) == LET a == HexVal(At(t, p))  b == HexVal(At(t, p + 1))  c == HexVal(At(t, p + 2))  d == HexVal(At(t, p + 3)) IN
                IF a < 0 \/ b < 0 \/ c < 0 \/ d < 0 THEN -1 ELSE a * 4096 + b * 256 + c * 16 + d
Enc(cp, wd) == IF wd = 8 THEN UTF8(cp) ELSE IF wd = 16 THEN UTF16(cp) ELSE UTF32(cp)
SimpleEsc(c) == CASE c = 34 -> 34 [] c = 92 -> 92 [] c = 47 -> 47 [] c = 98 -> 8 [] c = 102 -> 12
                  [] c = 110 -> 10 [] c = 114 -> 13 [] c = 116 -> 9 [] OTHER -> -1
RECURSIVE PChars(_, _, _, _)
\* p points behind the opening quote; returns position behind the closing quote and the decoded units
PChars(t, p, acc, wd) ==
    LET c == At(t, p) IN
    IF c = -1 THEN Fail                                           \* unterminated
    ELSE IF c = 34 THEN Ok(p + 1, S(acc))
    ELSE IF c = 92 THEN
         LET e == At(t, p + 1) IN
         IF e = 117 THEN                                          \* \uXXXX
            LET u == Hex4At(t, p + 2) IN
            IF u < 0 THEN Fail
            ELSE IF u >= 55296 /\ u <= 56319 /\ At(t, p + 6) = 92 /\ At(t, p + 7) = 117
                    /\ Hex4At(t, p + 8) >= 56320 /\ Hex4At(t, p + 8) <= 57343
                 THEN PChars(t, p + 12, acc \o Enc(65536 + (u - 55296) * 1024 + (Hex4At(t, p + 8) - 56320), wd), wd)
                 ELSE PChars(t, p + 6, acc \o Enc(u, wd), wd)
         ELSE IF e # -1 /\ SimpleEsc(e) >= 0 THEN PChars(t, p + 2, Append(acc, SimpleEsc(e)), wd)
         ELSE Fail
    ELSE IF c >= 0 /\ c < 32 THEN Fail                            \* control characters must be escaped
    ELSE PChars(t, p + 1, Append(acc, c), wd)

\* ---- numbers -----------------------------------------------------------------
RECURSIVE DigitsEnd(_, _)
DigitsEnd(t, p) == IF IsDigit(At(t, p)) THEN DigitsEnd(t, p + 1) ELSE p
RECURSIVE DigitsVal(_, _, _, _)
\* value of digits t[p..q-1] as [v, big]; big when it would exceed 10^8
DigitsVal(t, p, q, acc) == IF p >= q THEN acc
                           ELSE IF acc.big \/ acc.v > 99999999 THEN [v |-> 0, big |-> TRUE]
                           ELSE DigitsVal(t, p + 1, q, [v |-> acc.v * 10 + (t[p] - 48), big |-> FALSE])
RECURSIVE Pow10(_)
Pow10(n) == IF n = 0 THEN 1 ELSE 10 * Pow10(n - 1)
\* a plain integer numeral (digit code units d, sign) that fits the 64-bit types: non-negative <= 2^64-1, negative >= -2^63
RECURSIVE DigitsLeq(_, _, _)
DigitsLeq(a, b, i) == IF i > Len(a) THEN TRUE ELSE IF a[i] < b[i] THEN TRUE ELSE IF a[i] > b[i] THEN FALSE ELSE DigitsLeq(a, b, i + 1)     \* equal lengths
MaxU64 == <<49, 56, 52, 52, 54, 55, 52, 52, 48, 55, 51, 55, 48, 57, 53, 53, 49, 54, 49, 53>>       \* 18446744073709551615
MinI64 == <<57, 50, 50, 51, 51, 55, 50, 48, 51, 54, 56, 53, 52, 55, 55, 53, 56, 48, 56>>           \* 9223372036854775808
FitsInt64(d, neg) == IF neg THEN (Len(d) < 19 \/ (Len(d) = 19 /\ DigitsLeq(d, MinI64, 1)))
                     ELSE (Len(d) < 20 \/ (Len(d) = 20 /\ DigitsLeq(d, MaxU64, 1)))
\* observed number y against the denoted number x
NumMatch(x, y) == IF x.k = "bigint" THEN (y.k = "big" /\ y.neg = x.neg /\ y.d = x.d /\ y.kind = (IF x.neg = 1 THEN "i64" ELSE "u64"))
                  ELSE (x.k = "approx" \/ y.k \in {"approx", "big"} \/ (x.m = y.m /\ (x.k = y.k \/ x.k = "real")))
PNumber(t, p0) ==
    LET neg == At(t, p0) = 45
        p1  == IF neg THEN p0 + 1 ELSE p0
        iend == DigitsEnd(t, p1)
    IN IF iend = p1 THEN Fail                                       \* no integer digits
       ELSE IF At(t, p1) = 48 /\ iend > p1 + 1 THEN Fail            \* leading zero
       ELSE LET hasfrac == At(t, iend) = 46
                fend == IF hasfrac THEN DigitsEnd(t, iend + 1) ELSE iend
            IN IF hasfrac /\ fend = iend + 1 THEN Fail               \* '.' without digits
               ELSE LET hasexp == At(t, fend) \in {101, 69}
                        es  == IF hasexp /\ At(t, fend + 1) \in {43, 45} THEN fend + 2 ELSE fend + 1
                        eend == IF hasexp THEN DigitsEnd(t, es) ELSE fend
                    IN IF hasexp /\ eend = es THEN Fail               \* exponent without digits
                       ELSE LET ip == DigitsVal(t, p1, iend, [v |-> 0, big |-> FALSE])
                                nf == IF hasfrac THEN fend - (iend + 1) ELSE 0
                                fp == IF hasfrac THEN DigitsVal(t, iend + 1, fend, [v |-> 0, big |-> FALSE]) ELSE [v |-> 0, big |-> FALSE]
                                ep == IF hasexp THEN DigitsVal(t, es, eend, [v |-> 0, big |-> FALSE]) ELSE [v |-> 0, big |-> FALSE]
                                eneg == hasexp /\ At(t, fend + 1) = 45
                                small == ~ip.big /\ ~fp.big /\ ~ep.big /\ nf <= 4 /\ ep.v <= 6 /\ ip.v < (IF hasfrac \/ hasexp THEN 100000 ELSE 40000000)
                                \* mantissa D = ip * 10^nf + fp ; decimal exponent k = (+-)ep - nf ; twice the value = 2 * D * 10^k
                                D == ip.v * Pow10(nf) + fp.v
                                k == (IF eneg THEN 0 - ep.v ELSE ep.v) - nf
                                twice == IF k >= 0 THEN [ok |-> D * Pow10(k) < 100000000, m |-> 2 * D * Pow10(k)]
                                         ELSE [ok |-> (2 * D) % Pow10(0 - k) = 0, m |-> (2 * D) \div Pow10(0 - k)]
                                kind == IF ~hasfrac /\ ~hasexp THEN (IF neg THEN "i64" ELSE "u64") ELSE "real"
                                num == IF small /\ twice.ok
                                       THEN [t |-> "N", k |-> (IF neg /\ D = 0 THEN "real" ELSE kind), m |-> (IF neg THEN 0 - twice.m ELSE twice.m)]
                                       ELSE IF ~hasfrac /\ ~hasexp /\ FitsInt64(SubSeq(t, p1, iend - 1), neg)
                                       THEN [t |-> "N", k |-> "bigint", m |-> 0, neg |-> (IF neg THEN 1 ELSE 0), d |-> SubSeq(t, p1, iend - 1)]   \* an integer that fits 64 bits: exact
                                       ELSE [t |-> "N", k |-> "approx", m |-> 0]
                            IN Ok(eend, num)

\* ---- values --------------------------------------------------------------------
KeyPos(m, k) == {i \in 1..Len(m) : m[i].k = k}
PutKey(m, k, v) == IF KeyPos(m, k) # {} THEN [m EXCEPT ![CHOOSE i \in KeyPos(m, k) : TRUE].v = v] ELSE Append(m, [k |-> k, v |-> v])
Lit(t, p, w) == \A i \in 1..Len(w) : At(t, p + i - 1) = w[i]

RECURSIVE PValue(_, _, _, _)
RECURSIVE PElems(_, _, _, _, _)
RECURSIVE PMembers(_, _, _, _, _)
\* depth: remaining nesting budget (documents deeper than the budget are treated as not generated)
PValue(t, p, wd, depth) ==
    LET c == At(t, p) IN
    IF depth = 0 THEN Fail
    ELSE IF c = 123 THEN LET q == SkipWs(t, p + 1) IN IF At(t, q) = 125 THEN Ok(q + 1, O(<<>>)) ELSE PMembers(t, q, <<>>, wd, depth)
    ELSE IF c = 91 THEN LET q == SkipWs(t, p + 1) IN IF At(t, q) = 93 THEN Ok(q + 1, A(<<>>)) ELSE PElems(t, q, <<>>, wd, depth)
    ELSE IF c = 34 THEN PChars(t, p + 1, <<>>, wd)
    ELSE IF c = 116 THEN (IF Lit(t, p, <<116, 114, 117, 101>>) THEN Ok(p + 4, T) ELSE Fail)
    ELSE IF c = 102 THEN (IF Lit(t, p, <<102, 97, 108, 115, 101>>) THEN Ok(p + 5, F) ELSE Fail)
    ELSE IF c = 110 THEN (IF Lit(t, p, <<110, 117, 108, 108>>) THEN Ok(p + 4, Z) ELSE Fail)
    ELSE IF c = 45 \/ IsDigit(c) THEN PNumber(t, p)
    ELSE Fail
\* p at the first unit of an element
PElems(t, p, acc, wd, depth) ==
    LET r == PValue(t, p, wd, depth - 1) IN
    IF ~r.ok THEN Fail
    ELSE LET q == SkipWs(t, r.p) IN
         IF At(t, q) = 44 THEN PElems(t, SkipWs(t, q + 1), Append(acc, r.v), wd, depth)
         ELSE IF At(t, q) = 93 THEN Ok(q + 1, A(Append(acc, r.v)))
         ELSE Fail
\* p at the opening quote of a member name
PMembers(t, p, acc, wd, depth) ==
    IF At(t, p) # 34 THEN Fail
    ELSE LET k == PChars(t, p + 1, <<>>, wd) IN
         IF ~k.ok THEN Fail
         ELSE LET q == SkipWs(t, k.p) IN
              IF At(t, q) # 58 THEN Fail
              ELSE LET r == PValue(t, SkipWs(t, q + 1), wd, depth - 1) IN
                   IF ~r.ok THEN Fail
                   ELSE LET q2 == SkipWs(t, r.p)  m2 == PutKey(acc, k.v.s, r.v) IN
                        IF At(t, q2) = 44 THEN PMembers(t, SkipWs(t, q2 + 1), m2, wd, depth)
                        ELSE IF At(t, q2) = 125 THEN Ok(q2 + 1, O(m2))
                        ELSE Fail

\* expected document (from the grammar) vs observed document: numbers marked approx are not compared here (C09),
\* a numeral with fraction / exponent may come back as an exact integer kind when its value is integral
RECURSIVE DocMatch(_, _)
DocMatch(x, y) ==
    IF x.t # y.t THEN FALSE
    ELSE IF x.t = "N" THEN NumMatch(x, y)
    ELSE IF x.t = "S" THEN x.s = y.s
    ELSE IF x.t = "A" THEN Len(x.e) = Len(y.e) /\ \A i \in 1..Len(x.e) : DocMatch(x.e[i], y.e[i])
    ELSE IF x.t = "O" THEN Len(x.m) = Len(y.m) /\ \A i \in 1..Len(x.m) : x.m[i].k = y.m[i].k /\ DocMatch(x.m[i].v, y.m[i].v)
    ELSE TRUE
MaxDepth == 12
Parse(t, wd) == LET r == PValue(t, SkipWs(t, 1), wd, MaxDepth) IN
                IF r.ok /\ SkipWs(t, r.p) = Len(t) + 1 THEN r ELSE Fail
IsJSON(t) == Parse(t, 8).ok
Denotes(t, wd) == Parse(t, wd).v
IsContainerDoc(t) == IsJSON(t) /\ Parse(t, 8).v.t \in {"A", "O"}
=============================================================================
