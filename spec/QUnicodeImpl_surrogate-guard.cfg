SPECIFICATION Spec
CONSTANT Variant = "surrogate-guard"
INVARIANT Agree
CHECK_DEADLOCK FALSE
