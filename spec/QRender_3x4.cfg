SPECIFICATION Spec
CONSTANTS Threads = {0,1,2}
          K = 4
          Variant = "pure"
INVARIANTS SoloEqual Sound
PROPERTIES PureShared AppendOnly OneWriter
CHECK_DEADLOCK FALSE
