------------------------------- MODULE QOrder -------------------------------
(* The order axioms of the property specification QOrderDefs, checked by    *)
(* TLC over all pairs / triples of strings up to MaxLen over Alphabet.      *)
EXTENDS QOrderDefs
CONSTANTS Alphabet, MaxLen
Strs == UNION {[1..n -> Alphabet] : n \in 0..MaxLen}
\* ---- the axioms, as invariants over all triples ---------------------------
VARIABLES a, b, c
Init == a \in Strs /\ b \in Strs /\ c \in Strs
Next == UNCHANGED <<a, b, c>>
B(x) == IF x THEN 1 ELSE 0
Trichotomy   == B(StrLess(a, b)) + B(a = b) + B(StrLess(b, a)) = 1
Irreflexive  == ~StrLess(a, a)
Transitive   == (StrLess(a, b) /\ StrLess(b, c)) => StrLess(a, c)
PrefixFirst  == (IsPrefix(a, b) /\ a # b) => StrLess(a, b)
UnionLaws    == /\ StrLeq(a, b) = (StrLess(a, b) \/ a = b)
                /\ StrGeq(a, b) = (StrGreater(a, b) \/ a = b)
FirstDiffDecides == \A i \in 1..Len(a) : (i <= Len(b) /\ SubSeq(a, 1, i - 1) = SubSeq(b, 1, i - 1) /\ a[i] < b[i]) => StrLess(a, b)
=============================================================================
