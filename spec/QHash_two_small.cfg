SPECIFICATION Spec
CONSTANTS
  Keys = {1,2,3}
  Vals = {1}
  Tables = {1,2}
  MaxSlots = 2
CONSTRAINT Bound
INVARIANTS NoDupLiveKeys DeadAreBlank TypeOK
PROPERTIES OrderStable NewKeysAtEnd
CHECK_DEADLOCK FALSE
