--------------------------- MODULE QExprParseImpl ---------------------------
(* Implementation specification (I) for C01 / C04: the expression PARSER of  *)
(* the template engine (TemplateCore::parseExpressions / getOperation /      *)
(* parseValue / isExpression, Template.hpp) at the level of code units.      *)
(* The text of an expression sits inside the template between an opening     *)
(* unit and a closing unit - for case="..." the scanner takes WHATEVER unit   *)
(* follows `case=` as the quote, so the unit behind the expression can be an  *)
(* operator character.  content = <<quote>> \o expr \o <<quote>>; the parser  *)
(* is called with [offset, end_offset) = the expression.                      *)
(* What the evaluator trusts (TemplateCore::evaluate walks `expr + 1` while   *)
(* Operation != NoOp): in every accepted list, and in every parenthesised     *)
(* sub-list, the LAST item has no operator.  What the parser owes the caller: *)
(* it reads no unit at or behind end_offset.  TLC checks both for every       *)
(* expression up to MaxLen units over the alphabet and every closing unit.    *)
(* Variant "unbounded-lookahead" is the parser before 47b169e: the second     *)
(* unit of || && == != >= <= was read without the bound (rejected).           *)
(* The accepted / rejected verdict and the operator list of every text are    *)
(* exported and replayed against the real parser (h_template exprparse).      *)
EXTENDS Integers, Sequences, FiniteSets, TLC, Json
CONSTANTS MaxLen, Variant, WithOpening      \* WithOpening: the buffer starts with the opening quote (as inside a template) or with the expression (public ParseExpressions)

Alphabet == {"1", ">", "<", "=", "!", "|", "&", "-", "*", "(", ")", " "}
Closers == {"q", "=", "|", "&", "1", ")", " "}

\* operator codes in the order of QOperation (two-unit operators come first: oper < Greater)
TwoUnit == {"||", "&&", "==", "!=", ">=", "<="}

VARIABLES expr, closer
vars == <<expr, closer>>
Content == (IF WithOpening THEN <<closer>> ELSE <<>>) \o expr \o <<closer>>
C(i) == Content[i + 1]                       \* 0-based, as in the code
Start == IF WithOpening THEN 1 ELSE 0
End == Start + Len(expr)

\* isExpression(content, offset): scans backwards (to the very beginning of the buffer) over spaces
RECURSIVE IsExpr(_)
IsExpr(offset) == IF offset = 0 THEN FALSE
                  ELSE LET ch == C(offset - 1) IN
                       IF ch = " " THEN IsExpr(offset - 1) ELSE ch \in {")", "1"}

\* getOperation: [op, offset, reads]   (reads = indices read by the look-ahead for the second unit)
RECURSIVE SkipParen(_, _, _)
SkipParen(offset, end, skip) ==              \* returns the offset where the scan stopped
    IF offset >= end THEN offset
    ELSE IF C(offset) = ")" THEN (IF skip = 0 THEN offset ELSE SkipParen(offset + 1, end, skip - 1))
    ELSE IF C(offset) = "(" THEN SkipParen(offset + 1, end, skip + 1)
    ELSE SkipParen(offset + 1, end, skip)
Second(offset, end, ch) == (Variant = "unbounded-lookahead" \/ offset + 1 < end) /\ C(offset + 1) = ch
RECURSIVE GetOp(_, _, _)
GetOp(offset, end, reads) ==
    IF offset >= end THEN [op |-> "NoOp", offset |-> offset, reads |-> reads]
    ELSE LET ch == C(offset)
             look == IF Variant = "unbounded-lookahead" \/ offset + 1 < end THEN reads \cup {offset + 1} ELSE reads IN
         CASE ch = "|" -> [op |-> IF Second(offset, end, "|") THEN "||" ELSE "|", offset |-> offset, reads |-> look]
           [] ch = "&" -> [op |-> IF Second(offset, end, "&") THEN "&&" ELSE "&", offset |-> offset, reads |-> look]
           [] ch = ">" -> [op |-> IF Second(offset, end, "=") THEN ">=" ELSE ">", offset |-> offset, reads |-> look]
           [] ch = "<" -> [op |-> IF Second(offset, end, "=") THEN "<=" ELSE "<", offset |-> offset, reads |-> look]
           [] ch = "!" -> [op |-> IF Second(offset, end, "=") THEN "!=" ELSE "Error", offset |-> offset, reads |-> look]
           [] ch = "=" -> [op |-> IF Second(offset, end, "=") THEN "==" ELSE "Error", offset |-> offset, reads |-> look]
           [] ch = "-" -> IF IsExpr(offset) THEN [op |-> "-", offset |-> offset, reads |-> reads] ELSE GetOp(offset + 1, end, reads)
           [] ch = "*" -> [op |-> "*", offset |-> offset, reads |-> reads]
           [] ch = "(" -> LET stop == SkipParen(offset + 1, end, 0) IN
                          IF stop < end THEN GetOp(stop, end, reads)            \* (`continue`: the ")" is looked at next and skipped)
                          ELSE [op |-> "Error", offset |-> stop, reads |-> reads]
           [] OTHER -> GetOp(offset + 1, end, reads)

RECURSIVE TrimL(_, _)
TrimL(offset, end) == IF offset < end /\ C(offset) = " " THEN TrimL(offset + 1, end) ELSE offset
RECURSIVE TrimR(_, _)
TrimR(offset, end) == IF end > offset /\ C(end - 1) = " " THEN TrimR(offset, end - 1) ELSE end
IsNumberText(offset, end) ==                 \* Digit::StringToNumber consumes the whole operand: -?1+
    LET from == IF C(offset) = "-" THEN offset + 1 ELSE offset IN
    from < end /\ \A i \in from..(end - 1) : C(i) = "1"

\* parseExpressions / parseValue: [ok, items, reads];  items: sequence of [k |-> "num" / "text" / "sub", op, sub]
RECURSIVE ParseExprs(_, _, _, _, _)
RECURSIVE ParseValue(_, _, _, _, _, _)
ParseExprs(offset, end, items, last, reads) ==
    IF offset >= end THEN [items |-> IF offset > end THEN items ELSE <<>>, reads |-> reads]
    ELSE LET g == GetOp(offset, end, reads) IN
         IF g.op = "Error" THEN [items |-> <<>>, reads |-> g.reads]          \* break: offset <= end, nothing is returned
         ELSE LET v == ParseValue(items, g.op, last, offset, g.offset, g.reads) IN
              IF ~v.ok THEN [items |-> (IF g.offset > end THEN v.items ELSE <<>>), reads |-> v.reads]
              ELSE ParseExprs(g.offset + (IF g.op \in TwoUnit THEN 2 ELSE 1), end, v.items, g.op, v.reads)
ParseValue(items, op, last, offset0, end0, reads) ==
    LET offset == TrimL(offset0, end0)
        end == TrimR(offset, end0) IN
    IF offset >= end THEN [ok |-> FALSE, items |-> items, reads |-> reads]
    ELSE IF C(offset) = "("
         THEN LET sub == ParseExprs(offset + 1, end - 1, <<>>, "NoOp", reads) IN
              IF last # op \/ op # "NoOp"
              THEN [ok |-> sub.items # <<>>, items |-> Append(items, [k |-> "sub", op |-> op, sub |-> sub.items]), reads |-> sub.reads]
              ELSE [ok |-> sub.items # <<>>, items |-> sub.items, reads |-> sub.reads]          \* the entire expression is inside (...)
         ELSE IF IsNumberText(offset, end)
              THEN [ok |-> TRUE, items |-> Append(items, [k |-> "num", op |-> op, sub |-> <<>>]), reads |-> reads]
              ELSE IF last \in {"==", "!="} \/ op \in {"==", "!="}
                   THEN [ok |-> TRUE, items |-> Append(items, [k |-> "text", op |-> op, sub |-> <<>>]), reads |-> reads]
                   ELSE [ok |-> FALSE, items |-> items, reads |-> reads]

Parsed == ParseExprs(Start, End, <<>>, "NoOp", {})

RECURSIVE LastIsNoOp(_)
LastIsNoOp(items) == items = <<>> \/
                     /\ items[Len(items)].op = "NoOp"
                     /\ \A i \in 1..Len(items) : items[i].k = "sub" => (items[i].sub # <<>> /\ LastIsNoOp(items[i].sub))
\* what evaluate() relies on, and the parser's own bound
EvaluatorSafe == LastIsNoOp(Parsed.items)
StaysInside == \A i \in Parsed.reads : i < End

Init == expr = <<>> /\ closer \in Closers
Next == Len(expr) < MaxLen /\ UNCHANGED closer /\ \E ch \in Alphabet : expr' = Append(expr, ch)
Spec == Init /\ [][Next]_vars

\* spec -> code (E2): text, closing unit, verdict and top-level operator list of every state
RECURSIVE Ops(_)
Ops(items) == [i \in 1..Len(items) |-> IF items[i].k = "sub" THEN <<items[i].op, Ops(items[i].sub)>> ELSE <<items[i].op, items[i].k>>]
Export == PrintT("XP " \o ToJson([e |-> expr, c |-> closer, n |-> Len(Parsed.items), ops |-> [i \in 1..Len(Parsed.items) |-> Parsed.items[i].op]]))
=============================================================================
