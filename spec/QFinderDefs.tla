----------------------------- MODULE QFinderDefs -----------------------------
(* The word list of the template engine and the specification (P) of the     *)
(* scanner: Scan(text, from).  Shared by QFinder (transcription checked by   *)
(* TLC) and OracleFinder (recorded runs of the real Finder).                 *)
EXTENDS Integers, Sequences, FiniteSets, TLC
\* code units: { } < > / : and letters, as in the real patterns
Words == << <<125>>,                                   \* 1  }
            <<123, 118, 97, 114, 58>>,                 \* 2  {var:
            <<123, 114, 97, 119, 58>>,                 \* 3  {raw:
            <<123, 109, 97, 116, 104, 58>>,            \* 4  {math:
            <<123, 115, 118, 97, 114, 58>>,            \* 5  {svar:
            <<123, 105, 102>>,                         \* 6  {if
            <<60, 108, 111, 111, 112>>,                \* 7  <loop
            <<60, 47, 108, 111, 111, 112, 62>>,        \* 8  </loop>
            <<60, 105, 102>>,                          \* 9  <if
            <<60, 47, 105, 102, 62>>,                  \* 10 </if>
            <<60, 101, 108, 115, 101>> >>              \* 11 <else
IsPrefixOf(a, b) == Len(a) <= Len(b) /\ SubSeq(b, 1, Len(a)) = a
PrefixFree == \A i, j \in 1..Len(Words) : i # j => ~IsPrefixOf(Words[i], Words[j])
ASSUME PrefixFree

\* ---- (P) ----
StartsAt(text, p, w) == p + Len(w) <= Len(text) /\ SubSeq(text, p + 1, p + Len(w)) = w        \* p is 0-based
WordAt(text, p) == IF \E i \in 1..Len(Words) : StartsAt(text, p, Words[i])
                   THEN CHOOSE i \in 1..Len(Words) : StartsAt(text, p, Words[i]) ELSE 0
RECURSIVE Scan(_, _)
Scan(text, from) == IF from >= Len(text) THEN <<0, IF from > Len(text) THEN from ELSE Len(text)>>
                    ELSE LET i == WordAt(text, from) IN
                         IF i # 0 THEN <<i, from + Len(Words[i])>> ELSE Scan(text, from + 1)

=============================================================================
