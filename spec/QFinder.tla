------------------------------- MODULE QFinder -------------------------------
(* Specification (P) and transcription (I) of the multi-pattern scanner      *)
(* Finder (Finder.hpp) with the template word list Tags::List (Tags.hpp):    *)
(* the component that turns template TEXT into the tokens the tag scanner    *)
(* (QTemplateParseImpl) dispatches.                                          *)
(*                                                                           *)
(* (P)  Scan(text, from): the leftmost word of the list that starts at or    *)
(*      after `from` (0-based offset), as <<id, offset just behind it>>, or  *)
(*      <<0, Len(text)>> when there is none.  No word is a prefix of another *)
(*      one (PrefixFree), so "the" word starting at a position is unique.    *)
(* (I)  Next(): the cursor loop of Finder::Next with every read of the       *)
(*      buffer explicit: first-character dispatch, per word the LAST unit is *)
(*      compared first (guarded by word_end_offset < length), then the units *)
(*      in between, the offset is restored when a word fails.                *)
(* TLC: for every text up to MaxLen over Alphabet and every sequence of      *)
(* Next() calls: every read is inside the buffer (InBounds), each call       *)
(* returns Scan(text, offset before the call) (Agrees), offsets never move   *)
(* backwards across calls, and every call returns (CallReturns, checked under    *)
(* weak fairness on a smaller bound).                                                           *)
EXTENDS QFinderDefs

CONSTANTS Alphabet, MaxLen
\* ---- (I) ----
Group(first) == IF first = 123 THEN <<2, 3, 4, 5, 6>> ELSE <<7, 8, 9, 10, 11>>          \* GetGroupedByFirstChar
VARIABLES text, phase, offset, match, start, gi, woff, bad, expect, calls
vars == <<text, phase, offset, match, start, gi, woff, bad, expect, calls>>
Init == /\ text = <<>> /\ phase = "build" /\ offset = 0 /\ match = 0 /\ start = 0 /\ gi = 0 /\ woff = 0 /\ bad = "" /\ expect = <<0, 0>> /\ calls = 0
At(i) == text[i + 1]                                   \* content_[i]; only evaluated under an in-bounds guard
Same(v) == UNCHANGED v
Build == /\ phase = "build"
         /\ \/ /\ Len(text) < MaxLen /\ \E a \in Alphabet : text' = Append(text, a)
               /\ Same(<<phase, offset, match, start, gi, woff, bad, expect, calls>>)
            \/ /\ phase' = "idle" /\ Same(<<text, offset, match, start, gi, woff, bad, expect, calls>>)
\* Next(): match_ = 0; while (offset_ < length_) ...
Call == /\ phase = "idle" /\ calls < MaxLen + 2 /\ phase' = "loop" /\ match' = 0 /\ expect' = Scan(text, offset) /\ calls' = calls + 1
        /\ Same(<<text, offset, start, gi, woff, bad>>)
Loop == /\ phase = "loop"
        /\ IF offset < Len(text)
           THEN IF At(offset) \in {123, 60}                                   \* GetFirstCharID(content_[offset_]) < FirstCharsCount
                THEN /\ offset' = offset + 1 /\ start' = offset + 1 /\ gi' = 1 /\ phase' = "word" /\ Same(<<text, match, woff, bad, expect, calls>>)
                ELSE IF At(offset) = 125                                      \* the single character
                THEN /\ match' = 1 /\ offset' = offset + 1 /\ phase' = "ret" /\ Same(<<text, start, gi, woff, bad, expect, calls>>)
                ELSE /\ offset' = offset + 1 /\ Same(<<text, phase, match, start, gi, woff, bad, expect, calls>>)
           ELSE /\ phase' = "ret" /\ Same(<<text, offset, match, start, gi, woff, bad, expect, calls>>)
\* one word of the group: compare the last unit first, then the units in between
Word == /\ phase = "word"
        /\ LET g == Group(At(start - 1))  w == Words[g[gi]]  wlen == Len(w) - 2  wend == offset + wlen IN   \* wlen = GetWordLength: units between first and last
           IF wend < Len(text) /\ At(wend) = w[Len(w)]
           THEN /\ phase' = "mid" /\ woff' = 0 /\ Same(<<text, offset, match, start, gi, bad, expect, calls>>)
           ELSE IF gi < Len(g) THEN /\ gi' = gi + 1 /\ Same(<<text, phase, offset, match, start, woff, bad, expect, calls>>)
                ELSE /\ phase' = "loop" /\ Same(<<text, offset, match, start, gi, woff, bad, expect, calls>>)       \* continue
Mid == /\ phase = "mid"
       /\ LET g == Group(At(start - 1))  w == Words[g[gi]]  wend == start + Len(w) - 2 IN
          IF offset < wend /\ (IF offset < Len(text) THEN At(offset) = w[woff + 2] ELSE FALSE)
          THEN /\ offset' = offset + 1 /\ woff' = woff + 1 /\ bad' = (IF offset >= Len(text) THEN "read beyond the buffer" ELSE bad)
               /\ Same(<<text, phase, match, start, gi, expect, calls>>)
          ELSE IF offset = wend
          THEN /\ match' = g[gi] /\ offset' = offset + 1 /\ phase' = "ret" /\ Same(<<text, start, gi, woff, bad, expect, calls>>)
          ELSE /\ offset' = start                                            \* the word failed: back to the unit after the first one
               /\ IF gi < Len(g) THEN gi' = gi + 1 /\ phase' = "word" ELSE gi' = gi /\ phase' = "loop"
               /\ Same(<<text, match, start, woff, bad, expect, calls>>)
Ret == /\ phase = "ret" /\ phase' = (IF match = 0 THEN "done" ELSE "idle")
       /\ Same(<<text, offset, match, start, gi, woff, bad, expect, calls>>)
Next == Build \/ Call \/ Loop \/ Word \/ Mid \/ Ret
Spec == Init /\ [][Next]_vars /\ WF_vars(Next)

InBounds == bad = ""
Agrees == phase = "ret" => <<match, offset>> = expect
Monotone == [][offset' >= offset \/ phase = "mid"]_vars          \* only a failing word moves the cursor back, and only to `start`
BackOnlyToStart == [][offset' < offset => offset' = start]_vars
CallReturns == [](phase = "loop" => <>(phase \in {"idle", "done"}))   \* (with fairness) every call of Next() returns
=============================================================================
