SPECIFICATION Spec
CONSTANTS Alphabet = {60,101,108,115,47,105,102}
          MaxLen = 7
INVARIANTS InBounds Agrees
PROPERTIES BackOnlyToStart
CHECK_DEADLOCK FALSE
