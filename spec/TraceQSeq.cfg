INIT TInit
NEXT TNext
CONSTANTS
  Items = {1,2,3}
  Objs = {1,2}
  MaxLen = 1000
  WS = 3
  Ops = {"Copy","Move","AppendItem","AppendSeq","AppendMove","Clear","ReserveInit","Resize","ResizeInit","Keep","Drop","Reverse","InsertAt","Trim","Plus","SetLength","Buffer","GetString","Assign"}
INVARIANT TypeOK
CHECK_DEADLOCK TRUE
