SPECIFICATION Spec
CONSTANTS
  MaxEntries = 3
  Variant = "own-type"
INVARIANT Agree
CHECK_DEADLOCK FALSE
