SPECIFICATION Spec
CONSTANTS
  MaxEntries = 3
  Variant = "current"
INVARIANT Export
CHECK_DEADLOCK FALSE
