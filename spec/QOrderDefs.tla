------------------------------- MODULE QOrderDefs -------------------------------
(* Property specification (P) of the order users rely on (C15):             *)
(* strings compare lexicographically by code unit, a proper prefix first;   *)
(* numbers of one kind by magnitude; for everything else only the order     *)
(* axioms are demanded.  TLC checks the axioms of the specification itself  *)
(* over all strings up to length MaxLen over Alphabet (pairs and triples).  *)
EXTENDS Naturals, Sequences, FiniteSets, TLC


RECURSIVE StrLess(_, _)
StrLess(a, b) == IF b = <<>> THEN FALSE
                 ELSE IF a = <<>> THEN TRUE
                 ELSE IF Head(a) < Head(b) THEN TRUE
                 ELSE IF Head(a) > Head(b) THEN FALSE
                 ELSE StrLess(Tail(a), Tail(b))
StrLeq(a, b) == a = b \/ StrLess(a, b)
StrGreater(a, b) == StrLess(b, a)
StrGeq(a, b) == a = b \/ StrLess(b, a)
IsPrefix(a, b) == Len(a) <= Len(b) /\ SubSeq(b, 1, Len(a)) = a


\* ordered permutation (the Sort contract); leq is the comparison of the element kind
IsPerm(a, b) == /\ Len(a) = Len(b)
                /\ \A x \in {a[i] : i \in 1..Len(a)} \cup {b[i] : i \in 1..Len(b)} :
                     Cardinality({i \in 1..Len(a) : a[i] = x}) = Cardinality({i \in 1..Len(b) : b[i] = x})
IsOrdered(s, Leq(_, _), asc) == \A i \in 1..(Len(s) - 1) : IF asc THEN Leq(s[i], s[i + 1]) ELSE Leq(s[i + 1], s[i])
=============================================================================
