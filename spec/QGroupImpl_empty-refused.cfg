SPECIFICATION GSpec
CONSTANTS
  Roots = {1}
  PathTable <- PT_small
  ValTable <- VT_small
  MaxSize = 100
  MaxWeight = 100
  MaxRecs = 2
  Variant = "empty-refused"
INVARIANTS Agree Partition
CHECK_DEADLOCK FALSE
