INIT OInit
NEXT ONext
INVARIANT Check
CHECK_DEADLOCK FALSE
