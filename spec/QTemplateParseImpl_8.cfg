SPECIFICATION Spec
CONSTANTS MaxLen = 8
          Fuel = 10
          Variant = "current"
INVARIANTS NoBad PsLive ChainLive AllClosedAtEnd LoopsEnclose LevelIsDepth
CHECK_DEADLOCK FALSE
VIEW View
