SPECIFICATION Spec
CONSTANT Variant = "plane16-guard"
INVARIANT Agree
CHECK_DEADLOCK FALSE
