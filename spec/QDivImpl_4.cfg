INIT Init
NEXT Next
CONSTANT WB = 4
INVARIANTS DivExact MulExact
CHECK_DEADLOCK FALSE
