------------------------------- MODULE QRender -------------------------------
(* Specification for C17: renders through one parsed tag array.              *)
(*                                                                           *)
(* What the threads share: the tag array, the value(s), the template text -  *)
(* `shared` (one abstract token: 0 = as parsed).  What is private to a       *)
(* render: the renderer object (TemplateCore: value_, stream_, loops_items_) *)
(* and the caller's stream - `out[t]`, the sequence of chunks the render has *)
(* appended, and `pc[t]`, the number of steps (tags) it has expanded.        *)
(* A step expands one tag: it READS shared and appends one chunk to its own  *)
(* stream.  The chunk a pure step appends depends only on (render, step):    *)
(* Chunk(t, k).                                                              *)
(*                                                                           *)
(* Properties (all interleavings):                                           *)
(*   PureShared   no step changes what is shared                             *)
(*   AppendOnly   a step only appends to its own stream; nobody else's       *)
(*                stream changes                                             *)
(*   SoloEqual    when a render has finished, its stream is what the same    *)
(*                render produces alone                                      *)
(* Variant selects the design: "pure" is the library's; the others are the   *)
(* impurities the property text names, kept to show that the properties      *)
(* reject them (and to document what the conformance harness must sense):    *)
(*   "static-scratch"  a step formats into a function-static buffer and then *)
(*                     copies it out (two sub-steps)                         *)
(*   "tag-patched"     a step memoises something inside the tag record       *)
(*   "shared-context"  the per-render loop context lives in a static         *)
(*   "lazy-parse"      every render first parses into the shared tag array   *)
(*                     when it finds it empty (Template::Render with a cache *)
(*                     argument): fine for one render at a time, a write to  *)
(*                     shared state when renders overlap - the documented    *)
(*                     precondition "parse before the threads start"         *)
(* The state graph of the "pure" variant is the set of schedules the harness *)
(* forces on real threads (every path is replayed).                          *)
EXTENDS Integers, Sequences, FiniteSets, TLC

CONSTANTS Threads,     \* set of render ids
          K,           \* steps of each render
          Variant

VARIABLES pc, out, shared, scratch, ctx, half
vars == <<pc, out, shared, scratch, ctx, half>>

IsPrefix(s, t) == Len(s) <= Len(t) /\ SubSeq(t, 1, Len(s)) = s
Chunk(t, k) == <<t, k>>
Solo(t) == [k \in 1..K |-> Chunk(t, k)]

Init == /\ pc = [t \in Threads |-> 0] /\ out = [t \in Threads |-> <<>>] /\ shared = (IF Variant = "lazy-parse" THEN 0 - 1 ELSE 0)
        /\ scratch = <<>> /\ ctx = [t \in Threads |-> t] /\ half = [t \in Threads |-> FALSE]

\* the library's design: read shared, append to the own stream
PureStep(t) == /\ pc[t] < K /\ pc' = [pc EXCEPT ![t] = @ + 1]
               /\ out' = [out EXCEPT ![t] = Append(@, Chunk(t, pc[t] + 1))]
               /\ UNCHANGED <<shared, scratch, ctx, half>>

\* impurity 1: format into a static buffer, then copy it to the stream
Fill(t) == /\ pc[t] < K /\ ~half[t] /\ scratch' = Chunk(t, pc[t] + 1) /\ half' = [half EXCEPT ![t] = TRUE]
           /\ UNCHANGED <<pc, out, shared, ctx>>
Flush(t) == /\ half[t] /\ out' = [out EXCEPT ![t] = Append(@, scratch)] /\ pc' = [pc EXCEPT ![t] = @ + 1]
            /\ half' = [half EXCEPT ![t] = FALSE] /\ UNCHANGED <<shared, scratch, ctx>>
\* impurity 2: memoise inside the shared tag record
PatchStep(t) == /\ pc[t] < K /\ pc' = [pc EXCEPT ![t] = @ + 1]
                /\ out' = [out EXCEPT ![t] = Append(@, Chunk(t, pc[t] + 1))]
                /\ shared' = shared + 1 /\ UNCHANGED <<scratch, ctx, half>>
\* impurity 3: the loop context (which item is current) is one static object: a step first stores its own item, the next step reads it
CtxStep(t) == /\ pc[t] < K /\ pc' = [pc EXCEPT ![t] = @ + 1]
              /\ IF pc[t] % 2 = 0
                 THEN /\ ctx' = [u \in Threads |-> t] /\ out' = [out EXCEPT ![t] = Append(@, Chunk(t, pc[t] + 1))]      \* renderLoop: set the current item
                 ELSE /\ out' = [out EXCEPT ![t] = Append(@, Chunk(ctx[t], pc[t] + 1))] /\ UNCHANGED ctx                \* {var:item}: read it
              /\ UNCHANGED <<shared, scratch, half>>

\* the cache-filling overload: shared = 0 stands for "parsed", -1 for "still empty"
LazyStep(t) == IF shared = 0 - 1 /\ pc[t] = 0
               THEN /\ shared' = 0 /\ UNCHANGED <<pc, out, scratch, ctx, half>>       \* parse into the shared array
               ELSE PureStep(t)

Step(t) == CASE Variant = "pure" -> PureStep(t)
             [] Variant = "lazy-parse" -> LazyStep(t)
             [] Variant = "static-scratch" -> Fill(t) \/ Flush(t)
             [] Variant = "tag-patched" -> PatchStep(t)
             [] Variant = "shared-context" -> CtxStep(t)
Next == \E t \in Threads : Step(t)
Spec == Init /\ [][Next]_vars

PureShared == [][shared' = shared]_vars
AppendOnly == [][\A t \in Threads : IsPrefix(out[t], out'[t])]_vars
OneWriter == [][Cardinality({t \in Threads : out'[t] # out[t]}) <= 1]_vars
SoloEqual == \A t \in Threads : pc[t] = K => out[t] = Solo(t)
Sound == \A t \in Threads : IsPrefix(out[t], Solo(t))        \* (stronger: every intermediate stream is a prefix of the solo output)
=============================================================================
