----------------------------- MODULE OracleAlias -----------------------------
(* code -> spec batch oracle (E5) for C12: operations whose SOURCE lives      *)
(* inside the value they change, values constructed over dirty memory and    *)
(* then used as containers, kind changes by tag, a null pointer-to-value.     *)
(* The abstract document model has no addresses: v = v[i] is the assignment  *)
(* of (a copy of) the child, arr += arr[i] appends (a copy of) the element,   *)
(* v.Merge(v) merges a copy - whatever the storage does meanwhile.            *)
(* Event {kind, dst, src, i, after}: documents before (dst, src) and after.   *)
EXTENDS QValue, Json, IOUtils
Tr == ndJsonDeserialize(IOEnv.TRACE)
VARIABLE l
One == N("u64", 1)
Expected(e) ==
    LET d == Unstrip(e.dst)  x == Unstrip(e.src) IN
    CASE e.kind = "assign-own" -> x
      [] e.kind = "append-own" -> ApplyOp(d, "appendval", x)
      [] e.kind = "append-own-move" -> ApplyOp(A([d.e EXCEPT ![e.i + 1] = U]), "appendval", x)          \* the moved-from element is Undefined
      [] e.kind = "merge-self" -> ApplyOp(d, "merge", d)
      [] e.kind = "merge-own-move" -> ApplyOp(A([d.e EXCEPT ![e.i + 1] = U]), "merge", x)               \* (Merge of a non-container changes nothing)
      [] e.kind = "then-key" -> WriteAt(d, <<e.i>>, "assign", One)
      [] e.kind = "then-index" -> WriteAt(d, <<0 - 1>>, "assign", One)
      [] e.kind = "then-append" -> ApplyOp(d, "appendval", One)
      [] e.kind = "retag-array" -> EmptyArr
      [] e.kind = "null-pointer" -> U
EventOK(e) == Unstrip(e.after) = Expected(e)
NB == 64
BSize == (Len(Tr) + NB - 1) \div NB
OInit == l = 0 /\ doc = [r \in Roots |-> U]
ONext == /\ UNCHANGED doc
         /\ \/ l = 0 /\ l' \in {0 - b : b \in 1..NB}
            \/ l < 0 /\ l' \in {i \in (((0 - l) - 1) * BSize + 1)..((0 - l) * BSize) : i <= Len(Tr)}
Check == l <= 0 \/ EventOK(Tr[l]) \/ PrintT(<<"MISMATCH", l>>)
=============================================================================
