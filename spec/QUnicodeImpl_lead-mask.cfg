SPECIFICATION Spec
CONSTANT Variant = "lead-mask"
INVARIANT Agree
CHECK_DEADLOCK FALSE
