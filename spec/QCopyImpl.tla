----------------------------- MODULE QCopyImpl -----------------------------
\*  Implementation specification (I): Memory::Copy / Memory::SetToZero
\*  (Memory.hpp:31-92): a loop of whole SIMD blocks followed by a scalar
\*  tail.  B is the block size in bytes (stand-ins 4 and 8 for 16 and 32;
\*  0 = scalar build).  Memory is modelled with Pad guard cells on both
\*  sides of the destination.  TLC checks for every n <= MaxN that exactly
\*  dst[0..n) = src[0..n) afterwards, that no guard cell is written, that no
\*  source cell outside [0,n) is read, and that the loops terminate.
EXTENDS Naturals, Sequences, TLC
CONSTANTS B, MaxN, Pad

VARIABLES n, dst, pc, off, mi, rd, zero   \* zero: TRUE = SetToZero instead of Copy
vars == <<n, dst, pc, off, mi, rd, zero>>
Src(i) == 1 + ((i * 7) % 5)                  \* source byte at offset i (never 0, never the guard value 9)
Guard == 9
Cells == 0..(MaxN + 2 * Pad - 1)
D(i) == i + Pad                             \* destination offset i lives in cell i + Pad
Blocks == IF B = 0 THEN 0 ELSE n \div B     \* m_size = size >> Shift

Init == /\ n \in 0..MaxN /\ zero \in BOOLEAN
        /\ dst = [c \in Cells |-> Guard]
        /\ pc = "start" /\ off = 0 /\ mi = 0 /\ rd = {}
Start == /\ pc = "start"
         /\ IF B # 0 /\ Blocks # 0 THEN pc' = "blocks" /\ off' = Blocks * B      \* offset = m_size << Shift
            ELSE pc' = "tail" /\ off' = 0
         /\ UNCHANGED <<n, dst, mi, rd, zero>>
BlockStep == /\ pc = "blocks"                                                   \* do { Store(m_to, Load(m_from)) } while (m_from < end)
             /\ dst' = [c \in Cells |-> IF c >= D(mi * B) /\ c < D(mi * B) + B THEN (IF zero THEN 0 ELSE Src(c - Pad)) ELSE dst[c]]
             /\ rd' = IF zero THEN rd ELSE rd \cup {i \in (mi * B)..(mi * B + B - 1) : TRUE}
             /\ mi' = mi + 1
             /\ pc' = IF mi + 1 < Blocks THEN "blocks" ELSE "tail"
             /\ UNCHANGED <<n, off, zero>>
TailStep == /\ pc = "tail"
            /\ IF off < n
               THEN /\ dst' = [dst EXCEPT ![D(off)] = IF zero THEN 0 ELSE Src(off)]
                    /\ rd' = IF zero THEN rd ELSE rd \cup {off}
                    /\ off' = off + 1 /\ pc' = "tail"
               ELSE /\ pc' = "done" /\ UNCHANGED <<dst, rd, off>>
            /\ UNCHANGED <<n, mi, zero>>
Next == Start \/ BlockStep \/ TailStep \/ (pc = "done" /\ UNCHANGED vars)
Spec == Init /\ [][Next]_vars /\ WF_vars(Start \/ BlockStep \/ TailStep)

Exact == pc = "done" => \A c \in Cells :
            dst[c] = IF c >= Pad /\ c < Pad + n THEN (IF zero THEN 0 ELSE Src(c - Pad)) ELSE Guard
NoStrayWrite == \A c \in Cells : (c < Pad \/ c >= Pad + n) => dst[c] = Guard
ReadInBounds == \A i \in rd : i < n
Terminates == <>(pc = "done")
=============================================================================
