-------------------------- MODULE QUnicodeImplDefs --------------------------
(* Unicode::ToUTF and the surrogate-pair combination of JSONUtils::UnEscape  *)
(* as pure operators (see QUnicodeImpl); shared by the model and by the      *)
(* batch oracle (OracleUnicode: the engine's units must be the               *)
(* transcription's - drift otherwise).                                       *)
EXTENDS QUnicode, Integers, Bitwise
BOr(a, b) == a | b
BAnd(a, b) == a & b
BXor(a, b) == a ^^ b
Shr(a, n) == shiftR(a, n)
Shl(a, n) == a * (2 ^ n)

Guard(u, Variant) == IF Variant = "plane16-guard" /\ u > 1048575 THEN 65533
            ELSE IF Variant = "surrogate-guard" /\ BAnd(u, 63488) = 55296 THEN 65533
            ELSE u
ImplUTF8(u0, Variant) ==
    LET u == Guard(u0, Variant) IN
    IF u < 128 THEN <<u>>
    ELSE (IF u < 2048 THEN <<BOr(192, Shr(u, 6))>>
          ELSE IF u < 65536 THEN <<BOr(224, Shr(u, 12)), BOr(128, BAnd(Shr(u, 6), 63))>>
          ELSE <<BOr(240, IF Variant = "lead-mask" THEN BAnd(Shr(u, 18), 3) ELSE Shr(u, 18)), BOr(128, BAnd(Shr(u, 12), 63)), BOr(128, BAnd(Shr(u, 6), 63))>>)
         \o <<BOr(128, BAnd(u, 63))>>
ImplUTF16(u0, Variant) ==
    LET u == Guard(u0, Variant) IN
    IF (IF Variant = "bmp-inclusive" THEN u <= 65536 ELSE u < 65536) THEN <<u % 65536>>          \* Char_T(unicode): 16 bits
    ELSE LET d == u - 65536 IN <<BOr(55296, Shr(d, 10)), BOr(56320, BAnd(d, 1023))>>
ImplUTF32(u0, Variant) == <<Guard(u0, Variant)>>
\* UnEscape: the first \uXXXX gave `hi` with (hi & 0xFC00) = 0xD800, the second gives `lo`
ImplPair(hi, lo, Variant) ==
    LET a == Shl(BXor(hi, 55296), 10) IN
    IF Variant = "pair-or" THEN BOr(BOr(a, BAnd(lo, 1023)), 65536) ELSE a + BAnd(lo, 1023) + 65536

=============================================================================
