----------------------------- MODULE OracleFinder -----------------------------
(* code -> spec (E5) for the template word scanner: the harness runs the     *)
(* real Finder<Tags::List<Ch>, Ch, SizeT> over a text (exact-size buffer,    *)
(* ASan) calling Next() until it reports no match and logs every             *)
(* (match id, offset) pair; the event is accepted iff that is exactly        *)
(* QFinder.Scan applied repeatedly.                                          *)
EXTENDS QFinderDefs, Json, IOUtils
Tr == ndJsonDeserialize(IOEnv.TRACE)
VARIABLE l
RECURSIVE ScanAll(_, _, _)
ScanAll(text, from, fuel) == LET r == Scan(text, from) IN
                             IF r[1] = 0 \/ fuel = 0 THEN << r >> ELSE << r >> \o ScanAll(text, r[2], fuel - 1)
EventOK(e) == e.m = ScanAll(e.s, 0, Len(e.s) + 1)
OInit == l = 0
ONext == \/ /\ l = 0 /\ l' \in {0 - b : b \in 1..64}
         \/ /\ l < 0 /\ l' \in {i \in 1..Len(Tr) : i % 64 = (0 - l) % 64}
         \/ /\ l > 0 /\ UNCHANGED l
Check == l <= 0 \/ EventOK(Tr[l]) \/ PrintT(<<"MISMATCH", l>>)
=============================================================================
