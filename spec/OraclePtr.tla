------------------------------ MODULE OraclePtr ------------------------------
(* code -> spec batch oracle (E5) for C12, pointer-to-value: a Value that    *)
(* points to another Value reads as that Value.  Event {t, views, gi, gd,    *)
(* gb, nt, size, tsize, eq}: t = the target document, views = what is seen   *)
(* through a pointer, a pointer to that pointer, an array item and an object *)
(* member that are pointers; gi / gd / gb / nt = the typed getters called on *)
(* the pointer, judged with QValue's coercion rules of the TARGET document.  *)
EXTENDS QValue, Json, IOUtils
Tr == ndJsonDeserialize(IOEnv.TRACE)
VARIABLE l
EventOK(e) == LET d == Unstrip(e.t) IN
              /\ \A i \in 1..Len(e.views) : e.views[i] = e.t
              /\ e.gi = GetInt(d) /\ e.gd = GetDouble2(d) /\ e.gb = BoolOf(d) /\ e.nt \in NumKind(d)
              /\ e.size = e.tsize /\ e.eq = 1
NB == 64
BSize == (Len(Tr) + NB - 1) \div NB
OInit == l = 0 /\ doc = [r \in Roots |-> U]
ONext == /\ UNCHANGED doc
         /\ \/ l = 0 /\ l' \in {0 - b : b \in 1..NB}
            \/ l < 0 /\ l' \in {i \in (((0 - l) - 1) * BSize + 1)..((0 - l) * BSize) : i <= Len(Tr)}
Check == l <= 0 \/ EventOK(Tr[l]) \/ PrintT(<<"MISMATCH", l>>)
=============================================================================
