SPECIFICATION Spec
CONSTANTS Blocks = {1, 2, 3}
          Variant = "double-release"
INVARIANTS ExactlyOnce NetZero
CHECK_DEADLOCK FALSE
