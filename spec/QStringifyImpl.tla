--------------------------- MODULE QStringifyImpl ---------------------------
(* Implementation specification (I) for C08: the writers of Value::Stringify *)
(* (stringifyObject / stringifyArray / stringifyValue, Value.hpp) on the     *)
(* REPRESENTATION of a tree: objects are sequences of slots (a removed       *)
(* member leaves a dead slot), arrays may hold Undefined elements, an entry  *)
(* may be a pointer to another value (also to an Undefined one, also to a    *)
(* pointer).  The text is a sequence of tokens { } [ ] , : key scalar,       *)
(* appended to a stream that already holds something.                        *)
(*   object: write {; for every slot that is live and has a defined value at *)
(*   the end of its pointer links: key : value , ; then overwrite the LAST   *)
(*   UNIT OF THE STREAM with } if it is a comma, else append }.  Arrays the  *)
(*   same with [ ].  A pointer is written as what it points to.              *)
(* TLC builds every container of up to MaxEntries entries (scalars,          *)
(* Undefined, dead slots, pointers, nested containers that are empty or end  *)
(* in an omitted entry) after both kinds of previous stream content and      *)
(* checks that the tokens are the canonical text of the abstract tree        *)
(* (entries without a defined value omitted) and that the previous content   *)
(* is intact.  Variants:                                                     *)
(*   "own-type"      the Undefined test looks at the entry's own kind only   *)
(*                   (before 6202e25: `"k":,`)                               *)
(*   "comma-first"   the separator is written before every entry but the     *)
(*                   first slot (a leading comma after an omitted first one) *)
(*   "always-patch"  the closing bracket always overwrites the last unit     *)
EXTENDS Integers, Sequences, FiniteSets, TLC, Json
CONSTANTS MaxEntries, Variant

Sc == [t |-> "s"]                       \* a scalar (its text is one token)
Un == [t |-> "U"]
Ptr(v) == [t |-> "P", to |-> v]
Arr(e) == [t |-> "A", e |-> e]
Obj(s) == [t |-> "O", s |-> s]          \* s: sequence of [k, v, live]
Slot(k, v) == [k |-> k, v |-> v, live |-> TRUE]
DeadSlot == [k |-> 0, v |-> Un, live |-> FALSE]
KeyName(k) == <<"k1", "k2", "k3", "k4", "k5", "k6", "k7", "k8">>[k]      \* key tokens

RECURSIVE Target(_)
Target(v) == IF v.t = "P" THEN Target(v.to) ELSE v
Defined(v) == IF Variant = "own-type" THEN v.t # "U" ELSE Target(v).t # "U"

\* ---- the writers --------------------------------------------------------------------------
Close(stream, ch) == IF Variant = "always-patch" \/ (stream # <<>> /\ stream[Len(stream)] = ",")
                     THEN [stream EXCEPT ![Len(stream)] = ch] ELSE Append(stream, ch)
RECURSIVE WriteValue(_, _)
RECURSIVE WriteSlots(_, _, _)
RECURSIVE WriteElems(_, _, _)
WriteValue(v, stream) ==
    CASE v.t = "O" -> Close(WriteSlots(v.s, 1, Append(stream, "{")), "}")
      [] v.t = "A" -> Close(WriteElems(v.e, 1, Append(stream, "[")), "]")
      [] v.t = "P" -> WriteValue(v.to, stream)
      [] v.t = "s" -> Append(stream, "s")
      [] OTHER -> stream                                                  \* Undefined: nothing
WriteSlots(s, i, stream) ==
    IF i > Len(s) THEN stream
    ELSE IF s[i].live /\ Defined(s[i].v)
         THEN IF Variant = "comma-first"
              THEN WriteSlots(s, i + 1, WriteValue(s[i].v, (IF i > 1 THEN Append(stream, ",") ELSE stream) \o <<KeyName(s[i].k), ":">>))
              ELSE WriteSlots(s, i + 1, Append(WriteValue(s[i].v, stream \o <<KeyName(s[i].k), ":">>), ","))
         ELSE WriteSlots(s, i + 1, stream)
WriteElems(e, i, stream) ==
    IF i > Len(e) THEN stream
    ELSE IF Defined(e[i])
         THEN IF Variant = "comma-first"
              THEN WriteElems(e, i + 1, WriteValue(e[i], IF i > 1 THEN Append(stream, ",") ELSE stream))
              ELSE WriteElems(e, i + 1, Append(WriteValue(e[i], stream), ","))
         ELSE WriteElems(e, i + 1, stream)

\* ---- the abstract tree and its canonical text ----------------------------------------------
RECURSIVE Canon(_)
RECURSIVE Join(_, _)
Join(parts, i) == IF i > Len(parts) THEN <<>> ELSE (IF i > 1 THEN <<",">> ELSE <<>>) \o parts[i] \o Join(parts, i + 1)
Canon(v0) ==
    LET v == Target(v0) IN
    CASE v.t = "s" -> <<"s">>
      [] v.t = "A" -> LET keep == SelectSeq(v.e, LAMBDA x : Target(x).t # "U") IN
                      <<"[">> \o Join([i \in 1..Len(keep) |-> Canon(keep[i])], 1) \o <<"]">>
      [] v.t = "O" -> LET keep == SelectSeq(v.s, LAMBDA x : x.live /\ Target(x.v).t # "U") IN
                      <<"{">> \o Join([i \in 1..Len(keep) |-> <<KeyName(keep[i].k), ":">> \o Canon(keep[i].v)], 1) \o <<"}">>
      [] OTHER -> <<>>

\* ---- the model -----------------------------------------------------------------------------
Leaves == {Sc, Un, Ptr(Un), Ptr(Sc), Ptr(Ptr(Un))}
Inner == {Arr(<<>>), Obj(<<>>), Arr(<<Un>>), Arr(<<Sc, Un>>), Arr(<<Ptr(Un)>>), Obj(<<DeadSlot>>), Obj(<<Slot(7, Sc), DeadSlot>>),
          Obj(<<Slot(7, Ptr(Un))>>), Obj(<<Slot(7, Sc), Slot(8, Un)>>), Ptr(Arr(<<Un>>)), Arr(<<Sc>>), Obj(<<Slot(7, Sc)>>)}
Entries == Leaves \cup Inner
DeadMark == [t |-> "dead"]
VARIABLES kind, entries, before
vars == <<kind, entries, before>>
Init == kind \in {"A", "O"} /\ entries = <<>> /\ before \in {<<"x">>, <<"x", ",">>}
Next == /\ Len(entries) < MaxEntries /\ UNCHANGED <<kind, before>>
        /\ \/ \E x \in Entries : entries' = Append(entries, x)
           \/ kind = "O" /\ entries' = Append(entries, DeadMark)
Spec == Init /\ [][Next]_vars
Tree == IF kind = "A" THEN Arr(SelectSeq(entries, LAMBDA x : x.t # "dead"))
        ELSE Obj([i \in 1..Len(entries) |-> IF entries[i].t = "dead" THEN DeadSlot ELSE Slot(i, entries[i])])
Agree == WriteValue(Tree, before) = before \o Canon(Tree)
\* spec -> code (E2): every state with the model's text, replayed through the public API by h_json sreplay
Export == PrintT("SV " \o ToJson([tree |-> Tree, before |-> before, tokens |-> WriteValue(Tree, before)]))
=============================================================================
