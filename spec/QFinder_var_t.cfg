SPECIFICATION Spec
CONSTANTS Alphabet = {123,118,97,114,58,125,115}
          MaxLen = 7
INVARIANTS InBounds Agrees
PROPERTIES BackOnlyToStart
CHECK_DEADLOCK FALSE
