SPECIFICATION Spec
CONSTANTS
  MaxEntries = 3
  Variant = "comma-first"
INVARIANT Agree
CHECK_DEADLOCK FALSE
