------------------------------- MODULE QEscape -------------------------------
(* Property specification (P) for C03: HTML escaping of {var:} output.      *)
(* Strings are sequences of code units (naturals).                          *)
EXTENDS Naturals, Sequences, TLC

AMP == 38  LT == 60  GT == 62  QUOT == 34  APOS == 39  SEMI == 59
EAmp  == <<38, 97, 109, 112, 59>>        \* &amp;
ELt   == <<38, 108, 116, 59>>            \* &lt;
EGt   == <<38, 103, 116, 59>>            \* &gt;
EQuot == <<38, 113, 117, 111, 116, 59>>  \* &quot;
EApos == <<38, 97, 112, 111, 115, 59>>   \* &apos;
Entities == {EAmp, ELt, EGt, EQuot, EApos}

StartsWith(s, i, e) == i + Len(e) - 1 <= Len(s) /\ SubSeq(s, i, i + Len(e) - 1) = e
EntityAt(s, i) == {e \in Entities : StartsWith(s, i, e)}

\* ---- what "HTML-safe" means (the property statement)
Safe(s) == \A i \in 1..Len(s) :
             /\ s[i] \notin {LT, GT, QUOT, APOS}
             /\ (s[i] = AMP => EntityAt(s, i) # {})

\* decoding the five entities, left to right
RECURSIVE DecodeFrom(_, _)
DecodeFrom(s, i) ==
    IF i > Len(s) THEN <<>>
    ELSE IF s[i] = AMP /\ EntityAt(s, i) # {}
         THEN LET e == CHOOSE x \in EntityAt(s, i) : TRUE
                  ch == CASE e = EAmp -> AMP [] e = ELt -> LT [] e = EGt -> GT [] e = EQuot -> QUOT [] e = EApos -> APOS
              IN <<ch>> \o DecodeFrom(s, i + Len(e))
         ELSE <<s[i]>> \o DecodeFrom(s, i + 1)
Decode(s) == DecodeFrom(s, 1)

\* ---- the documented escaping: specials become entities, existing entities pass through
RECURSIVE EscapeFrom(_, _)
EscapeFrom(s, i) ==
    IF i > Len(s) THEN <<>>
    ELSE CASE s[i] = LT   -> ELt   \o EscapeFrom(s, i + 1)
           [] s[i] = GT   -> EGt   \o EscapeFrom(s, i + 1)
           [] s[i] = QUOT -> EQuot \o EscapeFrom(s, i + 1)
           [] s[i] = APOS -> EApos \o EscapeFrom(s, i + 1)
           [] s[i] = AMP  -> IF EntityAt(s, i) # {}
                             THEN LET e == CHOOSE x \in EntityAt(s, i) : TRUE IN e \o EscapeFrom(s, i + Len(e))
                             ELSE EAmp \o EscapeFrom(s, i + 1)
           [] OTHER -> <<s[i]>> \o EscapeFrom(s, i + 1)
Escape(s) == EscapeFrom(s, 1)

\* the three laws a result r must satisfy for input s (used on recorded outputs of the real code)
Laws(s, r) == Safe(r) /\ Decode(r) = Decode(s)
=============================================================================
