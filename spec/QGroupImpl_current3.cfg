SPECIFICATION GSpec
CONSTANTS
  Roots = {1}
  PathTable <- PT_small
  ValTable <- VT_small
  MaxSize = 100
  MaxWeight = 100
  MaxRecs = 3
  Variant = "current"
INVARIANTS Agree Partition
CHECK_DEADLOCK FALSE
