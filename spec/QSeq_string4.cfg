SPECIFICATION Spec
CONSTANTS
  Items = {1,2,3}
  Objs = {1,2}
  MaxLen = 4
  WS = 3
  Ops = {"Assign","Copy","Move","AppendItem","AppendSeq","AppendMove","Clear","Drop","Reverse","InsertAt","Trim","Plus"}
CONSTRAINT Bound
INVARIANT TypeOK
PROPERTIES AppendsKeepPrefix OthersUntouched
CHECK_DEADLOCK FALSE
