SPECIFICATION Spec
CONSTANTS
  Items = {1,2,3}
  Objs = {1,2}
  MaxLen = 3
  WS = 3
  Ops = {"Copy","Move","AppendItem","AppendSeq","AppendMove","Clear","ReserveInit","Resize","ResizeInit","Keep","Drop"}
CONSTRAINT Bound
INVARIANT TypeOK
PROPERTIES AppendsKeepPrefix OthersUntouched
CHECK_DEADLOCK FALSE
