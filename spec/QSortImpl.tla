----------------------------- MODULE QSortImpl -----------------------------
(* Implementation specification (I): transcription of Memory::Sort          *)
(* (Include/Memory.hpp:108-141), the in-place partition sort used by        *)
(* Array::Sort, HArray::Sort and Value::Sort, over an abstract comparison.   *)
(* TLC checks, for every array up to MaxN over Vals, that the result is an  *)
(* ordered permutation when the comparison is a strict weak order.          *)
EXTENDS Naturals, Sequences, FiniteSets, TLC
CONSTANTS Vals, MaxN

Swap(s, i, j) == [s EXCEPT ![i] = s[j], ![j] = s[i]]
Before(x, y, asc) == IF asc THEN x < y ELSE x > y     \* arr[offset] < item  /  arr[offset] > item

\* the while (offset < end) loop; arrays are 1-based here, [start, end) half open as in the code (0-based there)
RECURSIVE Part(_, _, _, _, _, _)
Part(s, start, idx, off, end, asc) ==
    IF off >= end THEN [s |-> s, idx |-> idx]
    ELSE IF Before(s[off + 1], s[start + 1], asc)
         THEN Part(Swap(s, idx + 2, off + 1), start, idx + 1, off + 1, end, asc)   \* ++index; Swap(arr[index], arr[offset])
         ELSE Part(s, start, idx, off + 1, end, asc)

RECURSIVE QSort(_, _, _, _)
QSort(s, start, end, asc) ==
    IF start = end THEN s
    ELSE LET p  == Part(s, start, start, start + 1, end, asc)
             s1 == IF p.idx # start THEN Swap(p.s, p.idx + 1, start + 1) ELSE p.s
             s2 == QSort(s1, start, p.idx, asc)
         IN QSort(s2, p.idx + 1, end, asc)

SortAll(s, asc) == QSort(s, 0, Len(s), asc)

VARIABLES arr, asc
Init == arr \in UNION {[1..n -> Vals] : n \in 0..MaxN} /\ asc \in BOOLEAN
Next == UNCHANGED <<arr, asc>>

IsPerm(x, y) == /\ Len(x) = Len(y)
                /\ \A v \in Vals : Cardinality({i \in 1..Len(x) : x[i] = v}) = Cardinality({i \in 1..Len(y) : y[i] = v})
Ordered(s, up) == \A i \in 1..(Len(s) - 1) : IF up THEN s[i] <= s[i + 1] ELSE s[i] >= s[i + 1]
SortedPermutation == LET r == SortAll(arr, asc) IN IsPerm(arr, r) /\ Ordered(r, asc)
=============================================================================
