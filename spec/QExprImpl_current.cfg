SPECIFICATION Spec
CONSTANTS MaxOps = 4
          Variant = "current"
INVARIANTS Agree Consumes
CHECK_DEADLOCK FALSE
