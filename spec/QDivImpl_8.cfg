INIT Init
NEXT Next
CONSTANT WB = 8
INVARIANTS DivExact MulExact
CHECK_DEADLOCK FALSE
