---------------------------- MODULE QUnicodeSelf ----------------------------
(* self-check of the specification: round trip and well-formedness of the   *)
(* encoders at every length boundary and a stride over the scalar range     *)
EXTENDS QUnicode
VARIABLE c
Edges == {0, 127, 128, 2047, 2048, 55295, 57344, 65535, 65536, 65537, 66559, 66560, 327679, 327680, 1114111}
Init == c \in Edges \cup {x * 4099 : x \in 0..271}
Next == UNCHANGED c
OK == IsScalar(c) => RoundTrip(c)
=============================================================================
