INIT OInit
NEXT ONext
INVARIANT Check
CHECK_DEADLOCK FALSE
CONSTANTS Blocks = {1}
          Variant = "disciplined"
