----------------------------- MODULE QLoopVarDefs -----------------------------
(* Definitions of QLoopVar shared with OracleLoopVar: names, references, the  *)
(* specified binding (SpecBind), the scanner's outward walk (ImplBind) and    *)
(* the domain on which the documentation fixes the meaning (Delimited).       *)
EXTENDS Naturals, Sequences, FiniteSets, TLC
CONSTANTS Variant, MaxLoops, MaxName, MaxRef
Letters == {1, 2}            \* a, b
Bracket == 3                 \* [
RECURSIVE SeqsUpTo(_, _)
SeqsUpTo(S, n) == IF n = 0 THEN {<<>>} ELSE LET P == SeqsUpTo(S, n - 1) IN P \cup {Append(p, x) : p \in {q \in P : Len(q) = n - 1}, x \in S}
Names == SeqsUpTo(Letters, MaxName)                         \* <<>> = a loop without value=
Refs == {r \in SeqsUpTo(Letters \cup {Bracket}, MaxRef) : r # <<>> /\ r[1] # Bracket}

\* the identifier of a reference: its units before the first '['
RECURSIVE IdLen(_, _)
IdLen(r, i) == IF i > Len(r) \/ r[i] = Bracket THEN i - 1 ELSE IdLen(r, i + 1)
Ident(r) == SubSeq(r, 1, IdLen(r, 1))

\* (P) loops[1] is the outermost, loops[Len] the innermost; result = index of the bound loop, 0 = root path
RECURSIVE SpecBind(_, _, _)
SpecBind(loops, r, i) == IF i = 0 THEN 0 ELSE IF loops[i] # <<>> /\ loops[i] = Ident(r) THEN i ELSE SpecBind(loops, r, i - 1)

\* (I) the outward walk
StartsWith(r, name) == Len(name) <= Len(r) /\ SubSeq(r, 1, Len(name)) = name      \* IsEqual(var, value, ValueLength) (the reference is long enough: it is followed by '}' in the text, which is not a name unit)
RECURSIVE ImplBind(_, _, _)
ImplBind(loops, r, i) ==
    IF i = 0 THEN 0
    ELSE IF Variant = "stops-at-longer-name" /\ Len(r) < Len(loops[i]) THEN 0
    ELSE IF (Variant = "empty-name-captures" \/ loops[i] # <<>>) /\ StartsWith(r, loops[i])
         THEN (IF loops[i] = <<>> THEN 0 ELSE i)          \* (an empty binding is no binding: the reference goes to the root)
    ELSE ImplBind(loops, r, i - 1)

\* a reference is well delimited w.r.t. the loops around it: whenever a loop's name starts it, the name is its whole identifier
Delimited(loops, r) == \A i \in 1..Len(loops) : (loops[i] # <<>> /\ StartsWith(r, loops[i])) => loops[i] = Ident(r)

=============================================================================
