SPECIFICATION Spec
CONSTANTS
  W = 4
  L = 2
INVARIANTS Exact IndexNormalised ReturnsExact LimbAccessInBounds
CHECK_DEADLOCK FALSE
