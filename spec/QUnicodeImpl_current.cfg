SPECIFICATION Spec
CONSTANT Variant = "current"
INVARIANT Agree
CHECK_DEADLOCK FALSE
