------------------------------- MODULE QDecNat -------------------------------
(* Naturals as little-endian sequences of base-10^4 limbs.  A decimal        *)
(* numeral converts to limbs by grouping digits, 10^k is a limb shift plus a *)
(* small multiplication, and 2^e is a chain of multiplications by 2^13 - so  *)
(* the oracles of C09-C11 only need MulSmall / AddSmall / Sub / Cmp.         *)
EXTENDS Integers, Sequences, TLC
Base == 10000
RECURSIVE DNorm(_)
DNorm(a) == IF a # <<>> /\ a[Len(a)] = 0 THEN DNorm(SubSeq(a, 1, Len(a) - 1)) ELSE a
Limb(a, i) == IF i <= Len(a) THEN a[i] ELSE 0
RECURSIVE MulSmallFrom(_, _, _, _, _)
MulSmallFrom(a, x, i, carry, acc) ==            \* x <= 10^4
    IF i > Len(a) THEN (IF carry = 0 THEN acc ELSE Append(acc, carry))
    ELSE LET p == a[i] * x + carry IN MulSmallFrom(a, x, i + 1, p \div Base, Append(acc, p % Base))
MulSmall(a, x) == IF x = 0 THEN <<>> ELSE MulSmallFrom(a, x, 1, 0, <<>>)
RECURSIVE AddSmallFrom(_, _, _, _)
AddSmallFrom(a, i, carry, acc) ==
    IF carry = 0 THEN acc \o SubSeq(a, i, Len(a))
    ELSE IF i > Len(a) THEN Append(acc, carry)
    ELSE LET s == a[i] + carry IN AddSmallFrom(a, i + 1, s \div Base, Append(acc, s % Base))
AddSmall(a, x) == AddSmallFrom(a, 1, x, <<>>)    \* x < 2^30
RECURSIVE DPow10(_)
DPow10(n) == IF n = 0 THEN 1 ELSE 10 * DPow10(n - 1)
MulPow10(a, k) == IF DNorm(a) = <<>> THEN <<>> ELSE [i \in 1..(k \div 4) |-> 0] \o MulSmall(a, DPow10(k % 4))
RECURSIVE DPow2(_)
DPow2(n) == IF n = 0 THEN 1 ELSE 2 * DPow2(n - 1)
RECURSIVE MulPow2(_, _)
MulPow2(a, e) == IF e >= 13 THEN MulPow2(MulSmall(a, 8192), e - 13) ELSE MulSmall(a, DPow2(e))
RECURSIVE DCmpFrom(_, _, _)
DCmpFrom(a, b, i) == IF i = 0 THEN 0
                     ELSE IF Limb(a, i) < Limb(b, i) THEN -1
                     ELSE IF Limb(a, i) > Limb(b, i) THEN 1
                     ELSE DCmpFrom(a, b, i - 1)
DCmp(a, b) == DCmpFrom(a, b, IF Len(a) > Len(b) THEN Len(a) ELSE Len(b))
DLess(a, b) == DCmp(a, b) = -1
DLeq(a, b) == DCmp(a, b) # 1
DEq(a, b) == DCmp(a, b) = 0
RECURSIVE DSubFrom(_, _, _, _, _)
DSubFrom(a, b, i, borrow, acc) ==                \* a - b, a >= b
    IF i > Len(a) THEN acc
    ELSE LET d == a[i] - Limb(b, i) - borrow IN
         IF d < 0 THEN DSubFrom(a, b, i + 1, 1, Append(acc, d + Base)) ELSE DSubFrom(a, b, i + 1, 0, Append(acc, d))
DSub(a, b) == DNorm(DSubFrom(a, b, 1, 0, <<>>))
DAbsDiff(a, b) == IF DLess(a, b) THEN DSub(b, a) ELSE DSub(a, b)
\* digits (most significant first) -> limbs
RECURSIVE GroupDigits(_, _, _)
GroupDigits(ds, hi, acc) ==       \* consume digits ds[1..hi] from the least significant end, four at a time
    IF hi <= 0 THEN acc
    ELSE LET lo == IF hi - 3 >= 1 THEN hi - 3 ELSE 1
             v  == LET RECURSIVE V(_, _) V(i, x) == IF i > hi THEN x ELSE V(i + 1, x * 10 + ds[i]) IN V(lo, 0)
         IN GroupDigits(ds, lo - 1, Append(acc, v))
FromDigits(ds) == DNorm(GroupDigits(ds, Len(ds), <<>>))
\* bytes (little endian, <= 8) -> limbs
RECURSIVE FromBytesFrom(_, _, _)
FromBytesFrom(bs, i, acc) == IF i = 0 THEN acc ELSE FromBytesFrom(bs, i - 1, AddSmall(MulSmall(acc, 256), bs[i]))
FromBytes(bs) == DNorm(FromBytesFrom(bs, Len(bs), <<>>))
\* limbs -> decimal digits, most significant first (no leading zeros; zero -> <<0>>)
Digits4(x) == <<x \div 1000, (x \div 100) % 10, (x \div 10) % 10, x % 10>>
RECURSIVE ToDigitsFrom(_, _)
ToDigitsFrom(a, i) == IF i = 0 THEN <<>> ELSE Digits4(a[i]) \o ToDigitsFrom(a, i - 1)
RECURSIVE StripZeros(_)
StripZeros(s) == IF Len(s) > 1 /\ s[1] = 0 THEN StripZeros(Tail(s)) ELSE s
ToDigits(a) == LET n == DNorm(a) IN IF n = <<>> THEN <<0>> ELSE StripZeros(ToDigitsFrom(n, Len(n)))
=============================================================================
