------------------------------ MODULE TraceQSeq ------------------------------
(* code -> spec (E4): traces recorded from the real Array / String /         *)
(* StringStream / StringView by harness/h_seq.cpp validated against QSeq.    *)
EXTENDS QSeq, Json, IOUtils
Tr == ndJsonDeserialize(IOEnv.TRACE)
VARIABLE l
Ev == Tr[l]
A(i) == Ev.a[i]
Logged == [o \in Objs |-> Ev.p[o]]
Step(Act) == Act /\ obj' = Logged /\ l' = l + 1
TInit == obj = [o \in Objs |-> <<>>] /\ l = 1
TNext ==
  \/ /\ l <= Len(Tr)
     /\ \/ /\ Ev.op = "Reset" /\ obj' = [o \in Objs |-> <<>>] /\ l' = l + 1
        \/ /\ Ev.op = "Copy" /\ Step(Copy(A(1), A(2)))
        \/ /\ Ev.op = "SelfCopy" /\ Step(SelfCopy(A(1)))
        \/ /\ Ev.op = "Move" /\ Step(Move(A(1), A(2)))
        \/ /\ Ev.op = "AppendItem" /\ Step(AppendItem(A(1), A(2)))
        \/ /\ Ev.op = "AppendSeq" /\ Step(AppendSeq(A(1), A(2)))
        \/ /\ Ev.op = "AppendMove" /\ Step(AppendMove(A(1), A(2)))
        \/ /\ Ev.op = "Clear" /\ Step(Clear(A(1)))
        \/ /\ Ev.op = "ReserveInit" /\ Step(ReserveInit(A(1), A(2)))
        \/ /\ Ev.op = "Resize" /\ Step(Resize(A(1), A(2)))
        \/ /\ Ev.op = "ResizeInit" /\ Step(ResizeInit(A(1), A(2)))
        \/ /\ Ev.op = "Keep" /\ Step(Keep(A(1)))
        \/ /\ Ev.op = "Drop" /\ Step(Drop(A(1), A(2)))
        \/ /\ Ev.op = "Reverse" /\ Step(Reverse(A(1), A(2)))
        \/ /\ Ev.op = "InsertAt" /\ Step(InsertAt(A(1), A(2), A(3)))
        \/ /\ Ev.op = "Trim" /\ Step(Trim(A(1), A(2)))
        \/ /\ Ev.op = "Plus" /\ Step(Plus(A(1), A(2)))
        \/ /\ Ev.op = "SetLength" /\ Step(SetLength(A(1), A(2)))
        \/ /\ Ev.op = "Buffer" /\ Step(Buffer(A(1), A(2), A(3)))
        \/ /\ Ev.op = "Assign" /\ Step(Assign(A(1), A(2)))
        \/ /\ Ev.op = "GetString" /\ Step(GetString(A(1)))
     /\ Ev.op = "Reset" \/ Ev.ok = 1
  \/ /\ l = Len(Tr) + 1 /\ UNCHANGED <<obj, l>>
=============================================================================
