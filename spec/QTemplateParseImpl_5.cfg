SPECIFICATION Spec
CONSTANT MaxLen = 5
INVARIANTS NoBad OwnerOnTop LoopTagLive AllClosedAtEnd
CHECK_DEADLOCK FALSE
