SPECIFICATION Spec
CONSTANTS Threads = {0,1}
          K = 4
          Variant = "lazy-parse"
INVARIANTS SoloEqual Sound
PROPERTIES PureShared AppendOnly OneWriter
CHECK_DEADLOCK FALSE
