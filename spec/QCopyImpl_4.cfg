SPECIFICATION Spec
CONSTANTS
  B = 4
  MaxN = 15
  Pad = 4
INVARIANTS Exact NoStrayWrite ReadInBounds
PROPERTY Terminates
