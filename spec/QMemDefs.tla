------------------------------ MODULE QMemDefs ------------------------------
(* The allocation ledger's transition function, shared by the specification  *)
(* QMem (TLC explores clients of it) and by the trace oracle OracleMem       *)
(* (TLC folds it over recorded events).  State: [live: set of block          *)
(* instances, err: "" or what went wrong]; event: +b allocate, -b release,   *)
(* 0 release of an address that is not live.                                 *)
EXTENDS Integers, Sequences, FiniteSets, TLC
Neg(b) == 0 - b
Apply(st, x) == IF st.err # "" THEN st
                ELSE IF x > 0 THEN (IF x \in st.live THEN [st EXCEPT !.err = "instance id reused"] ELSE [st EXCEPT !.live = @ \cup {x}])
                ELSE IF x < 0 THEN (IF Neg(x) \in st.live THEN [st EXCEPT !.live = @ \ {Neg(x)}] ELSE [st EXCEPT !.err = "release of a block that is not live"])
                ELSE [st EXCEPT !.err = "release of an address that is not live"]
RECURSIVE Fold(_, _, _)
Fold(st, ev, i) == IF i > Len(ev) THEN st ELSE Fold(Apply(st, ev[i]), ev, i + 1)

=============================================================================
