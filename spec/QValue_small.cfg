SPECIFICATION Spec
CONSTANTS
  Roots = {1,2}
  PathTable <- PT_small
  ValTable <- VT_small
  MaxSize = 2
  MaxWeight = 4
CONSTRAINT BoundW
INVARIANT DocsWellFormed
PROPERTIES Independent MovedFromUndefined
CHECK_DEADLOCK FALSE
