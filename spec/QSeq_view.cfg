SPECIFICATION Spec
CONSTANTS
  Items = {1,2,3}
  Objs = {1,2}
  MaxLen = 3
  WS = 3
  Ops = {"Assign","Copy","Move","Clear"}
CONSTRAINT Bound
INVARIANT TypeOK
PROPERTIES AppendsKeepPrefix OthersUntouched
CHECK_DEADLOCK FALSE
