---------------------------- MODULE OracleOrder ----------------------------
(* code -> spec batch oracle (E5) for C15: every recorded comparison /      *)
(* sort event of the real String, StringView, Value, Array is evaluated      *)
(* against QOrder.  One initial state per event; mismatches are printed.     *)
EXTENDS QOrderDefs, Json, IOUtils, Integers

Tr == ndJsonDeserialize(IOEnv.TRACE)
VARIABLE l

Bit(x) == IF x THEN 1 ELSE 0
Six(lt, eq, gt) == <<Bit(lt), Bit(lt \/ eq), Bit(gt), Bit(gt \/ eq), Bit(eq), Bit(~eq)>>   \* < <= > >= == !=

StrOK(e) == e.r = Six(StrLess(e.a, e.b), e.a = e.b, StrLess(e.b, e.a))

\* the order axioms on a recorded pair of six-tuples (a?b and b?a)
Axioms(x, y) == /\ x[1] + x[5] + x[3] = 1              \* exactly one of < == >
                /\ x[2] = Bit(x[1] = 1 \/ x[5] = 1)      \* <= is the union
                /\ x[4] = Bit(x[3] = 1 \/ x[5] = 1)      \* >= is the union
                /\ x[6] = 1 - x[5]
                /\ x[1] = y[3] /\ x[3] = y[1] /\ x[5] = y[5]   \* antisymmetry / symmetry of ==
                /\ y[1] + y[5] + y[3] = 1 /\ y[2] = Bit(y[1] = 1 \/ y[5] = 1) /\ y[4] = Bit(y[3] = 1 \/ y[5] = 1) /\ y[6] = 1 - y[5]
NumKinds == {"u64", "i64", "real"}
ValOK(e) == /\ Axioms(e.rab, e.rba)
            /\ (e.ka \in NumKinds /\ e.kb \in NumKinds) => e.rab = Six(e.ma < e.mb, e.ma = e.mb, e.ma > e.mb)     \* numbers compare by value, whatever their kinds (m = rank of the value)
            /\ (e.ka = e.kb /\ e.ka = "str") => e.rab = Six(StrLess(e.sa, e.sb), e.sa = e.sb, StrLess(e.sb, e.sa))

TableOK(e) == LET n == Len(e.lt)  L(i, j) == e.lt[i][j] = 1  E(i, j) == e.eq[i][j] = 1 IN
              /\ \A i, j, k \in 1..n : (L(i, j) /\ L(j, k)) => L(i, k)
              /\ \A i, j, k \in 1..n : (E(i, j) /\ E(j, k)) => E(i, k)
              /\ \A i, j, k \in 1..n : (E(i, j) /\ L(j, k)) => L(i, k)
              /\ \A i, j, k \in 1..n : (L(i, j) /\ E(j, k)) => L(i, k)

NumLeq(x, y) == x <= y
SortOK(e) == /\ IsPerm(e.in, e.out)
             /\ IF e.el = "str" THEN IsOrdered(e.out, StrLeq, e.asc = 1) ELSE IsOrdered(e.out, NumLeq, e.asc = 1)

EventOK(e) == CASE e.k = "str" -> StrOK(e)
                [] e.k = "val" -> ValOK(e)
                [] e.k = "table" -> TableOK(e)
                [] e.k = "sort" -> SortOK(e)
                [] OTHER -> FALSE

\* one state per event; events are reached through NB block states so that all TLC workers share the evaluation
NB == 64
BSize == (Len(Tr) + NB - 1) \div NB
OInit == l = 0
ONext == \/ l = 0 /\ l' \in {0 - b : b \in 1..NB}
         \/ l < 0 /\ l' \in {i \in (((0 - l) - 1) * BSize + 1)..((0 - l) * BSize) : i <= Len(Tr)}
Check == l <= 0 \/ EventOK(Tr[l]) \/ PrintT(<<"MISMATCH", l>>)
=============================================================================
