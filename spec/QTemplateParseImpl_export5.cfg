SPECIFICATION Spec
CONSTANTS MaxLen = 5
          Fuel = 7
          Variant = "current"
INVARIANTS ExportPath
CHECK_DEADLOCK FALSE
VIEW View
