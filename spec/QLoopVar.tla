------------------------------- MODULE QLoopVar -------------------------------
(* Binding of a variable reference to an enclosing loop (C02 / C01):          *)
(* TemplateCore::checkLoopVariable (Template.hpp).                            *)
(*                                                                           *)
(* (P) A reference `id` or `id[...]...` inside nested loops denotes the item  *)
(*     of the INNERMOST enclosing loop whose value name is exactly `id`; if    *)
(*     no enclosing loop has that name it is a path from the root value.       *)
(* (I) The scanner walks from the innermost loop outwards and takes the first  *)
(*     loop whose value name, over the name's own length, equals the first     *)
(*     units of the reference (the remaining units are the index part).        *)
(* The two agree whenever the reference is well delimited: after the matched   *)
(* name the reference ends or continues with '[' (Delimited) - which is what   *)
(* the documentation's "value accepts only strings for matching" leaves open   *)
(* otherwise (a loop named `n` captures `{var:name}`: CaptureExists shows the  *)
(* example, the generators avoid it).  TLC checks Agree for every stack of up  *)
(* to 3 loops with names up to 2 units over {a, b} (including loops without a  *)
(* value name) and every reference up to 4 units over {a, b, [}, and rejects   *)
(* the scanner's two earlier / seeded behaviours:                             *)
(*   "empty-name-captures"  a loop without value= matched every reference      *)
(*                          with length 0 and ended the walk (fixed)           *)
(*   "stops-at-longer-name" the walk ends at a loop whose name is longer than  *)
(*                          the reference (seeded change C02-2)                *)
EXTENDS QLoopVarDefs

VARIABLES loops, ref
Init == loops \in UNION {[1..n -> Names] : n \in 0..MaxLoops} /\ ref \in Refs
Next == UNCHANGED <<loops, ref>>
Spec == Init /\ [][Next]_<<loops, ref>>

Agree == Delimited(loops, ref) => ImplBind(loops, ref, Len(loops)) = SpecBind(loops, ref, Len(loops))
\* outside Delimited the two differ: a loop named `a` captures the reference `ab` (documented nowhere; not generated)
CaptureExists == ~(loops = << <<1>> >> /\ ref = <<1, 2>> /\ ImplBind(loops, ref, 1) = 1 /\ SpecBind(loops, ref, 1) = 0)
=============================================================================
