------------------------------- MODULE QBigInt -------------------------------
(* Property specification (P) for C19: a BigInt of WBits bits holds the      *)
(* mathematical integer v.  Operations whose mathematical result does not    *)
(* fit are outside the property and therefore disabled.  `ret` is the value   *)
(* returned by the last operation (remainder, bit index) or -1.              *)
EXTENDS Integers, Sequences, TLC
CONSTANTS WBits,       \* total width in bits (24 for BigInt<SizeT8, 24>)
          WordBits,    \* bits per word (8)
          Operands,    \* word-sized operands
          Wide,        \* double-word operands (for the templated +=, -=, |=, &=, = overloads)
          Shifts, MaxSteps

VARIABLES v, ret, steps
vars == <<v, ret, steps>>

RECURSIVE Pow2(_)
Pow2(n) == IF n = 0 THEN 1 ELSE 2 * Pow2(n - 1)
Limit == Pow2(WBits)
Word == Pow2(WordBits)
Fits(x) == x >= 0 /\ x < Limit

\* bit operations on naturals
RECURSIVE BitAnd(_, _)
BitAnd(a, b) == IF a = 0 \/ b = 0 THEN 0 ELSE (a % 2) * (b % 2) + 2 * BitAnd(a \div 2, b \div 2)
RECURSIVE BitOr(_, _)
BitOr(a, b) == IF a = 0 THEN b ELSE IF b = 0 THEN a ELSE (IF (a % 2) + (b % 2) > 0 THEN 1 ELSE 0) + 2 * BitOr(a \div 2, b \div 2)
RECURSIVE LowBit(_)
LowBit(a) == IF a % 2 = 1 THEN 0 ELSE 1 + LowBit(a \div 2)        \* a > 0
RECURSIVE HighBit(_)
HighBit(a) == IF a < 2 THEN 0 ELSE 1 + HighBit(a \div 2)            \* a > 0

Init == v = 0 /\ ret = -1 /\ steps = 0
Step(nv, r) == steps < MaxSteps /\ v' = nv /\ ret' = r /\ steps' = steps + 1

Set(x)    == TRUE /\ Step(x, -1)
Add(x)    == Fits(v + x) /\ Step(v + x, -1)
Sub(x)    == v - x >= 0 /\ Step(v - x, -1)
Mul(x)    == (IF x = 0 THEN TRUE ELSE v <= (Limit - 1) \div x) /\ Step(v * x, -1)
Div(x)    == x # 0 /\ Step(v \div x, v % x)                        \* returns the remainder
ShlFits(k) == IF k >= WBits THEN v = 0 ELSE v <= (Limit - 1) \div Pow2(k)
Shl(k)    == ShlFits(k) /\ Step(IF v = 0 THEN 0 ELSE v * Pow2(k), -1)
Shr(k)    == TRUE /\ Step(IF k >= WBits THEN 0 ELSE v \div Pow2(k), -1)
Or(x)     == TRUE /\ Step(BitOr(v, x), -1)
And(x)    == TRUE /\ Step(BitAnd(v, x), -1)
FirstBit  == v # 0 /\ Step(v, LowBit(v))
LastBit   == v # 0 /\ Step(v, HighBit(v))
\* comparisons with a word: ret encodes <, <=, >, >=, ==, != as a 6-bit number
B(c) == IF c THEN 1 ELSE 0
Cmp(x)    == TRUE /\ Step(v, 32 * B(v < x) + 16 * B(v <= x) + 8 * B(v > x) + 4 * B(v >= x) + 2 * B(v = x) + B(v # x))
Narrow    == TRUE /\ Step(v, v % (Word * Word))                             \* explicit conversion to a double-word integer
IsZero    == TRUE /\ Step(v, B(v = 0))

Next == \/ \E x \in Operands \cup Wide : Set(x) \/ Add(x) \/ Sub(x) \/ Or(x) \/ And(x)
        \/ \E x \in Operands : Mul(x) \/ Div(x) \/ Cmp(x)
        \/ \E k \in Shifts : Shl(k) \/ Shr(k)
        \/ FirstBit \/ LastBit \/ Narrow \/ IsZero
Spec == Init /\ [][Next]_vars
TypeOK == Fits(v)
=============================================================================
