// Array<T>: appending one of the array's own elements while the array is full
// reads the element from the block that resize() has just released.
//   clang++ -std=c++17 -march=native -DQENTEM_SSE2=1 -w -g -fsanitize=address,undefined -fno-sanitize-recover=all -IInclude repro_1.cpp
//   ./a.out      -> const& overload (heap-use-after-free in String copy constructor)
//   ./a.out m    -> &&    overload (heap-use-after-free in String move constructor)
#include <new>
#include <cstdio>
#include <string>
#include <vector>
#include "Array.hpp"
#include "String.hpp"
using namespace Qentem;

int main(int argc, char **argv) {
    Array<String<char>>      arr;
    std::vector<std::string> model;

    arr += String<char>("first element, long enough to live on the heap");
    arr += String<char>("second");
    model.push_back("first element, long enough to live on the heap");
    model.push_back("second");
    // Size() == Capacity() == 2 now

    if (argc > 1) {
        arr.Insert(Memory::Move(arr.Storage()[0])); // Array::operator+=(Type_T &&)
        model.push_back(std::move(model[0]));
        return 0;
    }

    arr += arr.First()[0]; // Array::operator+=(const Type_T &); std::vector: v.push_back(v[0]) is fine
    model.push_back(model[0]);

    if (arr.Size() != 3 || model[2] != arr.First()[2].First()) {
        printf("content differs\n");
        return 1;
    }
    return 0;
}
