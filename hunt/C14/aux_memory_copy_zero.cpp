#include <new>
#include <cstdio>
#include <cstring>
#include <cstdlib>
#include "Memory.hpp"
using namespace Qentem;
int main() {
    // exact-size heap blocks so ASan sees any overrun
    for (unsigned len = 0; len <= 4096; len++) {
        for (unsigned sa = 0; sa < 33; sa += (len > 300 ? 7 : 1)) {
            for (unsigned da = 0; da < 33; da += (len > 300 ? 5 : 1)) {
                unsigned char *src = (unsigned char *)malloc(sa + len);
                unsigned char *dst = (unsigned char *)malloc(da + len + 0);
                for (unsigned i = 0; i < sa + len; i++) src[i] = (unsigned char)(i * 7 + len);
                memset(dst, 0xAA, da + len);
                Memory::Copy(dst + da, src + sa, len);
                if (memcmp(dst + da, src + sa, len) != 0) { printf("Copy mismatch len=%u sa=%u da=%u\n", len, sa, da); return 1; }
                for (unsigned i = 0; i < da; i++) if (dst[i] != 0xAA) { printf("Copy underrun len=%u\n", len); return 1; }
                // also with SizeT64 / int types
                memset(dst, 0xAA, da + len);
                Memory::Copy(dst + da, src + sa, (unsigned long long)len);
                if (memcmp(dst + da, src + sa, len) != 0) { printf("Copy64 mismatch len=%u sa=%u da=%u\n", len, sa, da); return 1; }
                memset(dst, 0xAA, da + len);
                Memory::SetToZero(dst + da, len);
                for (unsigned i = 0; i < len; i++) if (dst[da + i] != 0) { printf("SetToZero mismatch len=%u da=%u\n", len, da); return 1; }
                for (unsigned i = 0; i < da; i++) if (dst[i] != 0xAA) { printf("SetToZero underrun len=%u\n", len); return 1; }
                free(src); free(dst);
            }
        }
    }
    // forward-overlapping copy (dst < src), used by StringStream = view-of-self
    for (unsigned len = 0; len < 200; len++) for (unsigned gap = 1; gap < 40; gap++) {
        unsigned char *b = (unsigned char *)malloc(len + gap), *r = (unsigned char *)malloc(len + gap);
        for (unsigned i = 0; i < len + gap; i++) r[i] = b[i] = (unsigned char)(i * 13 + 1);
        Memory::Copy(b, b + gap, len); memmove(r, r + gap, len);
        if (memcmp(b, r, len + gap) != 0) { printf("overlap mismatch len=%u gap=%u\n", len, gap); return 1; }
        free(b); free(r);
    }
    printf("ok\n");
    return 0;
}
