// Appending a container to itself through the r-value overloads.
//  Array::operator+=(Array &&): with src == *this the items are relocated, the block is released through
//     'src', and the array is emptied without disposing the items -> every item's storage leaks (LeakSanitizer),
//     content is lost.
//  String::operator+=(String &&): s += Move(s) first doubles the string and then Reset()s it: content lost.
// (the l-value overloads handle self-append correctly)
#include <new>
#include <cstdio>
#include "Array.hpp"
#include "String.hpp"
using namespace Qentem;

int main() {
    int bad = 0;

    String<char> s("abc");
    s += Memory::Move(s);
    if (s.Length() != 6 && s.Length() != 3) {
        printf("String: s += Move(s) left Length() == %u (content lost)\n", s.Length());
        bad = 1;
    }

    Array<String<char>> arr;
    arr += String<char>("an item that owns heap memory ......");
    arr += Memory::Move(arr);
    if (arr.Size() != 2 && arr.Size() != 1) {
        printf("Array: arr += Move(arr) left Size() == %u (content lost, items leaked)\n", arr.Size());
        bad = 1;
    }

    return bad; // + LeakSanitizer report at exit
}
