// String's generic operator<<(Stream_T &, const String &) hands First() to the stream as a C string:
//  - an empty (default / moved-from / Reset) String passes nullptr -> std::ostream goes bad and drops
//    everything written afterwards (formally undefined behaviour);
//  - content after an embedded NUL is lost, although Length() says otherwise.
// StringView and StringStream print Length() characters one by one and behave.
#include <new>
#include <cstdio>
#include <sstream>
#include "String.hpp"
#include "StringView.hpp"
using namespace Qentem;

int main() {
    int bad = 0;

    std::ostringstream os;
    String<char>       a("abc");
    String<char>       empty;
    os << a << empty << a;
    if (os.str() != "abcabc" || !os.good()) {
        printf("1: got '%s' good=%d, expected 'abcabc' good=1\n", os.str().c_str(), (int)os.good());
        bad = 1;
    }

    std::ostringstream os2;
    String<char>       nul("a\0b", 3);
    os2 << nul;
    if (os2.str().size() != 3) {
        printf("2: wrote %zu characters of a String with Length() == %u\n", os2.str().size(), nul.Length());
        bad = 1;
    }

    std::ostringstream os3; // the sibling class is right
    os3 << StringView<char>("a\0b", 3) << StringView<char>();
    if (os3.str().size() != 3 || !os3.good()) {
        printf("3: StringView wrong as well\n");
        bad = 1;
    }

    return bad;
}
