#include <new>
#include <cstdio>
#include <cstdlib>
#include <string>
#include <vector>
#include <random>
#include <algorithm>
#include "Array.hpp"
#include "String.hpp"
using namespace Qentem;

static std::mt19937_64 rng;
static std::vector<std::string> hist;
static unsigned long long g_seed;
static unsigned R(unsigned n) { return n ? (unsigned)(rng() % n) : 0; }
static void fail(const char *what, int line) {
    printf("FAIL seed=%llu line=%d: %s\nhistory (last 25):\n", g_seed, line, what);
    size_t b = hist.size() > 25 ? hist.size() - 25 : 0;
    for (size_t i = b; i < hist.size(); i++) printf("  %s\n", hist[i].c_str());
    fflush(stdout);
    exit(1);
}
#define CHECK(c) do { if (!(c)) fail(#c, __LINE__); } while (0)
#define H(...) do { char b_[256]; snprintf(b_, sizeof b_, __VA_ARGS__); hist.push_back(b_); } while (0)

#ifndef SELF_ELEM
#define SELF_ELEM 0
#endif

// Element adaptors
struct ElS {
    using Q = String<char>;
    using M = std::string;
    static M rnd() { unsigned n = R(3) ? R(4) : 20 + R(30); M s; for (unsigned i = 0; i < n; i++) s.push_back((char)('a' + R(4))); return s; }
    static Q mk(const M &m) { return Q(m.c_str(), (SizeT)m.size()); }
    static bool eq(const Q &q, const M &m) { return q.Length() == m.size() && std::equal(m.begin(), m.end(), q.First()); }
    static M def() { return M(); }
};
struct ElI {
    using Q = unsigned long long;
    using M = unsigned long long;
    static M rnd() { return R(20); }
    static Q mk(const M &m) { return m; }
    static bool eq(const Q &q, const M &m) { return q == m; }
    static M def() { return 0; }
};
struct ElA { // nested arrays
    using Q = Array<String<char>>;
    using M = std::vector<std::string>;
    static M rnd() { M v; unsigned n = R(4); for (unsigned i = 0; i < n; i++) v.push_back(ElS::rnd()); return v; }
    static Q mk(const M &m) { Q q; for (auto &x : m) q += ElS::mk(x); return q; }
    static bool eq(const Q &q, const M &m) { if (q.Size() != m.size()) return false; for (size_t i = 0; i < m.size(); i++) if (!ElS::eq(q.First()[i], m[i])) return false; return true; }
    static M def() { return M(); }
};

template <typename E>
static void chk(const Array<typename E::Q> &a, const std::vector<typename E::M> &m, int line) {
    if (a.Size() != m.size()) fail("size", line);
    if (a.Size() > a.Capacity()) fail("size>capacity", line);
    if (a.Capacity() != 0 && a.First() == nullptr) fail("null storage with capacity", line);
    if (a.Capacity() == 0 && a.First() != nullptr) fail("storage with capacity 0", line);
    for (size_t i = 0; i < m.size(); i++) if (!E::eq(a.First()[i], m[i])) fail("content", line);
    if (a.IsEmpty() != m.empty() || a.IsNotEmpty() == m.empty()) fail("IsEmpty", line);
    if (a.End() != a.First() + m.size()) fail("End", line);
    if (m.empty()) { if (a.Last() != nullptr) fail("Last on empty", line); }
    else if (a.Last() != a.First() + (m.size() - 1)) fail("Last", line);
}
#define CHK(a, m) chk<E>(a, m, __LINE__)

template <typename E>
static Array<typename E::Q> mkArr(const std::vector<typename E::M> &m, unsigned extra_cap) {
    Array<typename E::Q> a((SizeT)(m.size() + extra_cap));
    for (auto &x : m) a += E::mk(x);
    return a;
}
template <typename E>
static std::vector<typename E::M> rvec() { std::vector<typename E::M> v; unsigned n = R(3) ? R(5) : R(40); for (unsigned i = 0; i < n; i++) v.push_back(E::rnd()); return v; }

template <typename E, bool Sortable>
static void fuzzArray(unsigned steps) {
    using Q = typename E::Q; using M = typename E::M; using V = std::vector<M>;
    constexpr unsigned N = 3;
    Array<Q> a[N]; V m[N];
    for (unsigned step = 0; step < steps; step++) {
        unsigned i = R(N), j = R(N);
        unsigned op = R(40);
        switch (op) {
        case 0: { M x = E::rnd(); Q q = E::mk(x); H("a%u += const item (size=%u cap=%u)", i, a[i].Size(), a[i].Capacity()); a[i] += (const Q &)q; m[i].push_back(x); CHECK(E::eq(q, x)); break; }
        case 1: { M x = E::rnd(); H("a%u += move item (size=%u cap=%u)", i, a[i].Size(), a[i].Capacity()); a[i] += E::mk(x); m[i].push_back(x); break; }
        case 2: { M x = E::rnd(); Q q = E::mk(x); H("a%u Insert(const item)", i); Q &r = a[i].Insert((const Q &)q); m[i].push_back(x); CHECK(&r == a[i].Last()); CHECK(E::eq(r, x)); break; }
        case 3: { M x = E::rnd(); H("a%u Insert(move item)", i); Q &r = a[i].Insert(E::mk(x)); m[i].push_back(x); CHECK(&r == a[i].Last()); CHECK(E::eq(r, x)); break; }
        case 4: { H("a%u += a%u const (size %u cap %u += size %u)", i, j, a[i].Size(), a[i].Capacity(), a[j].Size()); V x = m[j]; a[i] += (const Array<Q> &)a[j]; m[i].insert(m[i].end(), x.begin(), x.end()); break; }
        case 5: { if (i == j) break; H("a%u += move a%u (size %u cap %u += size %u cap %u)", i, j, a[i].Size(), a[i].Capacity(), a[j].Size(), a[j].Capacity());
                  a[i] += Memory::Move(a[j]); m[i].insert(m[i].end(), m[j].begin(), m[j].end()); m[j].clear(); CHECK(a[j].Capacity() == 0 && a[j].First() == nullptr); break; }
        case 6: { H("a%u Insert(const a%u)", i, j); V x = m[j]; a[i].Insert((const Array<Q> &)a[j]); m[i].insert(m[i].end(), x.begin(), x.end()); break; }
        case 7: { if (i == j) break; H("a%u Insert(move a%u)", i, j); a[i].Insert(Memory::Move(a[j])); m[i].insert(m[i].end(), m[j].begin(), m[j].end()); m[j].clear(); break; }
        case 8: { V x = rvec<E>(); unsigned ex = R(3); H("a%u += move fresh(size %zu, extra cap %u)", i, x.size(), ex); a[i] += mkArr<E>(x, ex); m[i].insert(m[i].end(), x.begin(), x.end()); break; }
        case 9: { if (!SELF_ELEM || m[i].empty()) break; unsigned k = R((unsigned)m[i].size()); H("a%u += own element %u (const) size=%u cap=%u", i, k, a[i].Size(), a[i].Capacity());
                  M x = m[i][k]; a[i] += a[i].First()[k]; m[i].push_back(x); break; }
        case 10: { H("a%u Clear", i); SizeT c = a[i].Capacity(); a[i].Clear(); m[i].clear(); CHECK(a[i].Capacity() == c); break; }
        case 11: { H("a%u Reset", i); a[i].Reset(); m[i].clear(); CHECK(a[i].Capacity() == 0); break; }
        case 12: { H("a%u Detach", i); SizeT n = a[i].Size(); Q *p = a[i].Detach(); CHECK(a[i].Capacity() == 0 && a[i].Size() == 0 && a[i].First() == nullptr);
                   for (size_t k = 0; k < m[i].size(); k++) CHECK(E::eq(p[k], m[i][k]));
                   Memory::Dispose(p, p + n); Memory::Deallocate(p); m[i].clear(); break; }
        case 13: { unsigned n = R(6); bool init = R(2); H("a%u Reserve(%u,%d)", i, n, init); a[i].Reserve(n, init); m[i].clear(); if (init) m[i].resize(n, E::def()); CHECK(a[i].Capacity() == n); break; }
        case 14: { unsigned n = R(2) ? R((unsigned)m[i].size() + 1) : (unsigned)m[i].size() + R(5); H("a%u Resize(%u) size=%zu cap=%u", i, n, m[i].size(), a[i].Capacity());
                   a[i].Resize(n); if (n < m[i].size()) m[i].resize(n); CHECK(a[i].Capacity() == n); break; }
        case 15: { unsigned n = R(2) ? R((unsigned)m[i].size() + 1) : (unsigned)m[i].size() + R(5); H("a%u ResizeAndInitialize(%u) size=%zu", i, n, m[i].size());
                   a[i].ResizeAndInitialize(n); m[i].resize(n, E::def()); CHECK(a[i].Capacity() == n); break; }
        case 16: { unsigned n = R(6); H("a%u Expect(%u)", i, n); a[i].Expect(n); CHECK(a[i].Capacity() >= m[i].size() + n); break; }
        case 17: { if (m[i].empty()) break; unsigned x = R((unsigned)m[i].size()), y = R(3) ? R((unsigned)m[i].size()) : x; H("a%u Swap(%u,%u)", i, x, y);
                   a[i].Swap(a[i].Storage()[x], a[i].Storage()[y]); std::swap(m[i][x], m[i][y]); break; }
        case 18: { if constexpr (Sortable) { bool asc = R(2); H("a%u Sort(%d)", i, asc); a[i].Sort(asc);
                   if (asc) std::sort(m[i].begin(), m[i].end()); else std::sort(m[i].begin(), m[i].end(), [](const M &x, const M &y) { return y < x; }); } break; }
        case 19: { H("a%u Compress size=%zu cap=%u", i, m[i].size(), a[i].Capacity()); a[i].Compress(); CHECK(a[i].Capacity() == m[i].size()); break; }
        case 20: { unsigned n = R(4) == 0 ? (unsigned)m[i].size() + R(3) : R((unsigned)m[i].size() + 1); H("a%u Drop(%u) size=%zu", i, n, m[i].size());
                   a[i].Drop(n); if (n <= m[i].size()) m[i].resize(m[i].size() - n); break; }
        case 21: { H("a%u = copy a%u", i, j); a[i] = (const Array<Q> &)a[j]; m[i] = m[j]; break; }
        case 22: { H("a%u = move a%u", i, j); a[i] = Memory::Move(a[j]); if (i != j) { m[i] = m[j]; m[j].clear(); CHECK(a[j].Capacity() == 0 && a[j].First() == nullptr); } break; }
        case 23: { H("copy-construct a%u", i); Array<Q> t(a[i]); CHK(t, m[i]); CHECK(t.Capacity() == m[i].size()); break; }
        case 24: { H("move-construct a%u and back", i); Array<Q> t(Memory::Move(a[i])); CHK(t, m[i]); CHK(a[i], V()); a[i] = Memory::Move(t); break; }
        case 25: { unsigned n = R(6); bool init = R(2); H("a%u = Array(%u,%d)", i, n, init); a[i] = Array<Q>(n, init); m[i].clear(); if (init) m[i].resize(n, E::def()); CHECK(a[i].Capacity() == n); break; }
        case 26: { H("iterate a%u", i); size_t k = 0; for (const Q &q : (const Array<Q> &)a[i]) { CHECK(E::eq(q, m[i][k])); k++; } CHECK(k == m[i].size());
                   k = 0; for (Q &q : a[i]) { CHECK(E::eq(q, m[i][k])); k++; } CHECK(k == m[i].size()); break; }
        case 27: { H("Memory::Swap a%u a%u", i, j); Memory::Swap(a[i], a[j]); if (i != j) std::swap(m[i], m[j]); break; }
        case 28: { H("a%u fill to capacity", i); while (a[i].Size() < a[i].Capacity()) { M x = E::rnd(); a[i] += E::mk(x); m[i].push_back(x); } break; }
        case 29: { H("a%u self copy-assign / self move-assign", i); Array<Q> &r = a[i]; a[i] = (const Array<Q> &)r; a[i] = Memory::Move(r); break; }
        case 30: { if (m[i].empty()) break; unsigned k = R((unsigned)m[i].size()); M x = E::rnd(); H("a%u [%u] = new item via Storage()", i, k); a[i].Storage()[k] = E::mk(x); m[i][k] = x; break; }
        case 31: { H("a%u += move empty-with-capacity", i); Array<Q> t(3); a[i] += Memory::Move(t); CHECK(t.Capacity() == 0); break; }
        default: break;
        }
        for (unsigned k = 0; k < N; k++) CHK(a[k], m[k]);
    }
}

int main(int argc, char **argv) {
    unsigned long long seed0 = argc > 1 ? strtoull(argv[1], 0, 10) : 1;
    unsigned           runs  = argc > 2 ? atoi(argv[2]) : 200;
    unsigned           steps = argc > 3 ? atoi(argv[3]) : 300;
    for (unsigned r = 0; r < runs; r++) {
        g_seed = seed0 + r;
        rng.seed(g_seed); hist.clear(); H("-- Array<String<char>>"); fuzzArray<ElS, true>(steps);
        rng.seed(g_seed); hist.clear(); H("-- Array<u64>"); fuzzArray<ElI, true>(steps);
        rng.seed(g_seed); hist.clear(); H("-- Array<Array<String>>"); fuzzArray<ElA, false>(steps);
    }
    printf("ok %u runs from seed %llu\n", runs, seed0);
    return 0;
}
