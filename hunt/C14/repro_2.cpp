// String<Char_T>::operator=(const Char_T *) releases the old buffer before it measures / copies the
// argument, so assigning (a tail of) the string's own C string reads freed memory.
//   std::string s = "abcdef"; s = s.c_str() + 1;  -> "bcdef"
#include <new>
#include <cstdio>
#include <string>
#include "String.hpp"
using namespace Qentem;

int main() {
    String<char> s("abcdef");
    std::string  m("abcdef");

    s = s.First() + 1; // heap-use-after-free in StringUtils::Count (String.hpp:98-99)
    m = m.c_str() + 1;

    if (s.Length() != m.size() || m != s.First()) {
        printf("got '%s' expected '%s'\n", s.First(), m.c_str());
        return 1;
    }
    return 0;
}
