#include <new>
#include <cstdio>
#include <cstdlib>
#include <string>
#include <vector>
#include <random>
#include <sstream>
#include <algorithm>
#include "Array.hpp"
#include "String.hpp"
#include "StringView.hpp"
#include "StringStream.hpp"
using namespace Qentem;

static std::mt19937_64 rng;
static std::vector<std::string> hist;
static unsigned long long g_seed;
static unsigned R(unsigned n) { return n ? (unsigned)(rng() % n) : 0; }
static void fail(const char *what, int line) {
    printf("FAIL seed=%llu line=%d: %s\nhistory (last 25):\n", g_seed, line, what);
    size_t b = hist.size() > 25 ? hist.size() - 25 : 0;
    for (size_t i = b; i < hist.size(); i++) printf("  %s\n", hist[i].c_str());
    fflush(stdout);
    exit(1);
}
#define CHECK(c) do { if (!(c)) fail(#c, __LINE__); } while (0)
#define H(...) do { char b_[256]; snprintf(b_, sizeof b_, __VA_ARGS__); hist.push_back(b_); } while (0)

static unsigned rlen() {
    static const unsigned edges[] = {0,1,2,3,7,8,9,15,16,17,31,32,33,47,48,49,63,64,65,100,127,128,129};
    unsigned k = R(10);
    if (k < 5) return R(6);
    if (k < 9) return edges[R(sizeof edges / sizeof edges[0])];
    return R(300);
}

template <typename C> using BS = std::basic_string<C>;

template <typename C>
static BS<C> rstr(bool allow_nul, int len = -1) {
    unsigned n = len < 0 ? rlen() : (unsigned)len;
    BS<C> s;
    unsigned mode = R(4);
    for (unsigned i = 0; i < n; i++) {
        unsigned k = R(mode == 0 ? 6 : 14);
        C c;
        switch (k) {
        case 0: c = ' '; break; case 1: c = '\n'; break; case 2: c = '\t'; break; case 3: c = '\r'; break;
        case 4: c = (C)(allow_nul ? 0 : 'z'); break;
        case 5: c = (C)(sizeof(C) == 1 ? 0xE9 : (sizeof(C) == 2 ? 0x8001 : 0x80000001u)); break;
        default: c = (C)('a' + R(3));
        }
        s.push_back(c);
    }
    return s;
}

// Qentem's ordering for the model: element compare using Char_T's own '<' (signed for char).
template <typename C>
static int qcmp(const BS<C> &a, const BS<C> &b) {
    size_t n = a.size() < b.size() ? a.size() : b.size();
    for (size_t i = 0; i < n; i++) {
        if (a[i] < b[i]) return -1;
        if (a[i] > b[i]) return 1;
    }
    return a.size() < b.size() ? -1 : (a.size() > b.size() ? 1 : 0);
}

template <typename C>
static void chkS(const String<C> &s, const BS<C> &m, int line) {
    if (s.Length() != m.size()) fail("String length", line);
    if (s.Length() != 0 && s.First() == nullptr) fail("String null storage with length", line);
    for (size_t i = 0; i < m.size(); i++) if (s.First()[i] != m[i]) fail("String content", line);
    if (s.First() != nullptr && s.First()[m.size()] != C{0}) fail("String not NUL-terminated", line);
    if (s.IsEmpty() != m.empty() || s.IsNotEmpty() == m.empty()) fail("IsEmpty", line);
    if (s.End() != s.First() + m.size()) fail("End", line);
    if (m.empty()) { if (s.Last() != nullptr) fail("Last on empty", line); }
    else if (s.Last() != s.First() + (m.size() - 1)) fail("Last", line);
}
#define CHKS(s, m) chkS(s, m, __LINE__)

template <typename C>
static void chkSS(const StringStream<C> &s, const BS<C> &m, int line) {
    if (s.Length() != m.size()) fail("Stream length", line);
    if (s.Length() > s.Capacity()) fail("Stream length>capacity", line);
    if (s.Capacity() != 0 && s.First() == nullptr) fail("Stream null storage with capacity", line);
    for (size_t i = 0; i < m.size(); i++) if (s.First()[i] != m[i]) fail("Stream content", line);
    if (s.IsEmpty() != m.empty() || s.IsNotEmpty() == m.empty()) fail("IsEmpty", line);
    if (s.End() != s.First() + m.size()) fail("End", line);
    if (m.empty()) { if (s.Last() != nullptr) fail("Last on empty", line); }
    else if (s.Last() != s.First() + (m.size() - 1)) fail("Last", line);
}
#define CHKSS(s, m) chkSS(s, m, __LINE__)

template <typename C>
static BS<C> mtrim(const BS<C> &m) {
    size_t b = 0, e = m.size();
    auto ws = [](C c) { return c == ' ' || c == '\n' || c == '\t' || c == '\r'; };
    while (b < e && ws(m[b])) b++;
    while (e > b && ws(m[e - 1])) e--;
    return m.substr(b, e - b);
}

template <typename C>
static void compareAll(const String<C> &a, const BS<C> &ma, const String<C> &b, const BS<C> &mb) {
    int c = qcmp(ma, mb);
    CHECK((a == b) == (ma == mb));
    CHECK((a != b) == (ma != mb));
    CHECK((a < b) == (c < 0));
    CHECK((a <= b) == (c <= 0));
    CHECK((a > b) == (c > 0));
    CHECK((a >= b) == (c >= 0));
    CHECK(a.IsEqual(b.First(), b.Length()) == (ma == mb));
    StringView<C> va{a.First(), a.Length()}, vb{b.First(), b.Length()};
    CHECK((va == vb) == (ma == mb));
    CHECK((va != vb) == (ma != mb));
    CHECK((va < vb) == (c < 0));
    CHECK((va <= vb) == (c <= 0));
    CHECK((va > vb) == (c > 0));
    CHECK((va >= vb) == (c >= 0));
    CHECK(va.IsEqual(b.First(), b.Length()) == (ma == mb));
    // against C string (b as C string: truncated at first NUL)
    if (b.First() != nullptr) {
        BS<C> mc(mb.c_str());
        int   cc = qcmp(ma, mc);
        const C *p = b.First();
        CHECK((a == p) == (ma == mc));
        CHECK((a != p) == (ma != mc));
        CHECK((a < p) == (cc < 0));
        CHECK((a <= p) == (cc <= 0));
        CHECK((a > p) == (cc > 0));
        CHECK((a >= p) == (cc >= 0));
        CHECK((va == p) == (ma == mc));
        CHECK((va != p) == (ma != mc));
        CHECK((va < p) == (cc < 0));
        CHECK((va <= p) == (cc <= 0));
        CHECK((va > p) == (cc > 0));
        CHECK((va >= p) == (cc >= 0));
    }
    const C *np = nullptr;
    CHECK((a == np) == ma.empty());
    CHECK((a != np) == !ma.empty());
}

template <typename C>
static void fuzzString(unsigned steps) {
    constexpr unsigned N = 3;
    String<C> s[N];
    BS<C>     m[N];
    for (unsigned step = 0; step < steps; step++) {
        unsigned i = R(N), j = R(N);
        unsigned op = R(40);
        switch (op) {
        case 0: { BS<C> x = rstr<C>(true); H("s%u = String(ptr,len=%zu) copy", i, x.size());
                  s[i] = String<C>(x.c_str(), (SizeT)x.size()); m[i] = x; break; }
        case 1: { BS<C> x = rstr<C>(false); H("s%u = String(cstr len=%zu)", i, x.size());
                  s[i] = String<C>(x.c_str()); m[i] = x; break; }
        case 2: { unsigned n = rlen(); H("s%u = String(len=%u) filled", i, n);
                  String<C> t(n); BS<C> x = rstr<C>(true, n);
                  for (unsigned k = 0; k < n; k++) t.Storage()[k] = x[k];
                  s[i] = Memory::Move(t); m[i] = x; CHECK(t.Length() == 0 && t.First() == nullptr); break; }
        case 3: { BS<C> x = rstr<C>(true); H("s%u = String(owned ptr,len=%zu)", i, x.size());
                  C *p = Memory::Allocate<C>((SizeT)x.size() + 1);
                  for (size_t k = 0; k < x.size(); k++) p[k] = x[k];
                  p[x.size()] = 0;
                  s[i] = String<C>(p, (SizeT)x.size()); m[i] = x; break; }
        case 4: { H("s%u = copy s%u", i, j); s[i] = s[j]; m[i] = m[j]; break; }
        case 5: { H("s%u = move s%u", i, j); s[i] = Memory::Move(s[j]); if (i != j) { m[i] = m[j]; m[j].clear(); CHECK(s[j].First() == nullptr); } break; }
        case 6: { H("copy-construct from s%u", i); String<C> t(s[i]); CHKS(t, m[i]); CHKS(s[i], m[i]); break; }
        case 7: { H("move-construct from s%u then move back", i); String<C> t(Memory::Move(s[i])); CHKS(t, m[i]); CHKS(s[i], BS<C>());
                  CHECK(s[i].First() == nullptr); s[i] = Memory::Move(t); break; }
        case 8: { BS<C> x = rstr<C>(false); H("s%u = cstr len=%zu", i, x.size()); s[i] = x.c_str(); m[i] = x; break; }
        case 9: { H("s%u = (const C*)nullptr", i); s[i] = (const C *)nullptr; m[i].clear(); break; }
        case 10: { H("s%u += s%u (const)", i, j); s[i] += s[j]; m[i] += BS<C>(m[j]); break; }
        case 11: { if (i == j) break; H("s%u += move s%u", i, j); s[i] += Memory::Move(s[j]); m[i] += m[j]; m[j].clear(); CHECK(s[j].First() == nullptr); break; }
        case 12: { BS<C> x = rstr<C>(false); H("s%u += cstr len=%zu", i, x.size()); s[i] += x.c_str(); m[i] += x; break; }
        case 13: { C c = (C)('a' + R(3)); if (R(8) == 0) c = 0; H("s%u += char %u", i, (unsigned)c); s[i] += c;
                   if (true) m[i].push_back(c); break; }
        case 14: { H("t = s%u + s%u", i, j); String<C> t = s[i] + s[j]; CHKS(t, m[i] + m[j]); break; }
        case 15: { H("t = s%u + move(copy of s%u)", i, j); String<C> c2(s[j]); String<C> t = s[i] + Memory::Move(c2); CHKS(t, m[i] + m[j]); CHKS(c2, BS<C>()); break; }
        case 16: { BS<C> x = rstr<C>(false); H("t = s%u + cstr", i); String<C> t = s[i] + x.c_str(); CHKS(t, m[i] + x); break; }
        case 17: { BS<C> x = rstr<C>(false); H("s%u << cstr << s%u", i, j); BS<C> mj = m[j]; s[i] << x.c_str(); m[i] += x; CHKS(s[i], m[i]); s[i] << s[j]; m[i] += (i == j ? m[i] : mj); break; }
        case 18: { H("compare s%u s%u", i, j); compareAll(s[i], m[i], s[j], m[j]); break; }
        case 19: { H("s%u Reset", i); s[i].Reset(); m[i].clear(); CHECK(s[i].First() == nullptr); break; }
        case 20: { H("s%u Detach", i); C *p = s[i].Detach(); CHECK(s[i].First() == nullptr && s[i].Length() == 0);
                   if (p) { for (size_t k = 0; k < m[i].size(); k++) CHECK(p[k] == m[i][k]); CHECK(p[m[i].size()] == 0); }
                   Memory::Deallocate(p); m[i].clear(); break; }
        case 21: { H("t = Merge(s%u,s%u)", i, j); String<C> t = String<C>::Merge(s[i], s[j]); CHKS(t, m[i] + m[j]); break; }
        case 22: { BS<C> x = rstr<C>(true); H("s%u Write(ext,len=%zu)", i, x.size()); s[i].Write(x.c_str(), (SizeT)x.size()); m[i] += x; break; }
        case 23: { if (m[i].empty()) break; unsigned off = R((unsigned)m[i].size()); unsigned n = R((unsigned)m[i].size() - off + 1);
                   H("s%u Write(self+%u,%u)", i, off, n); BS<C> x = m[i].substr(off, n); s[i].Write(s[i].First() + off, n); m[i] += x; break; }
        case 24: { H("t = Trim(s%u)", i); String<C> t = String<C>::Trim(s[i]); CHKS(t, mtrim(m[i])); break; }
        case 25: { unsigned n = R(4) == 0 ? (unsigned)m[i].size() + R(3) : R((unsigned)m[i].size() + 1); H("s%u StepBack(%u)", i, n);
                   s[i].StepBack(n); if (n <= m[i].size()) m[i].resize(m[i].size() - n); break; }
        case 26: { unsigned n = R((unsigned)m[i].size() + 3); H("s%u Reverse(%u)", i, n); s[i].Reverse(n);
                   if (n < m[i].size()) std::reverse(m[i].begin() + n, m[i].end()); break; }
        case 27: { H("s%u Reverse()", i); s[i].Reverse(); std::reverse(m[i].begin(), m[i].end()); break; }
        case 28: { unsigned n = R((unsigned)m[i].size() + 3); C c = (C)('A' + R(3)); H("s%u InsertAt(%u,%u) len=%zu", i, (unsigned)c, n, m[i].size());
                   s[i].InsertAt(c, n); if (n < m[i].size()) m[i].insert(m[i].begin() + n, c); break; }
        case 29: { H("s%u self copy-assign", i); String<C> &r = s[i]; s[i] = r; break; }
        case 30: { H("s%u self move-assign", i); String<C> &r = s[i]; s[i] = Memory::Move(r); break; }
        case 31: { H("iterate s%u", i); BS<C> x; for (const C &c : (const String<C> &)s[i]) x.push_back(c); CHECK(x == m[i]);
                   size_t k = 0; for (C &c : s[i]) { CHECK(c == m[i][k]); k++; } CHECK(k == m[i].size()); break; }
        case 32: { H("Memory::Swap s%u s%u", i, j); Memory::Swap(s[i], s[j]); if (i != j) std::swap(m[i], m[j]); break; }
        case 33: { H("view of s%u", i); StringView<C> v{s[i].First(), s[i].Length()}; StringView<C> v2(v); StringView<C> v3; v3 = v2;
                   StringView<C> v4(Memory::Move(v2)); CHECK(v2.Length() == 0 && v2.First() == nullptr);
                   CHECK(v3.Length() == m[i].size() && v4.First() == s[i].First() && v3 == v4);
                   CHECK(v4.End() == s[i].End()); CHECK(v4.Last() == ((const String<C> &)s[i]).Last());
                   StringView<C> &rv = v4; v4 = rv; v4 = Memory::Move(rv); CHECK(v4.Length() == m[i].size());
                   BS<C> x; for (const C &c : v4) x.push_back(c); CHECK(x == m[i]);
                   v4.Reset(); CHECK(v4.IsEmpty() && !v4.IsNotEmpty() && v4.First() == nullptr && v4.Last() == nullptr);
                   if (s[i].First() != nullptr) { StringView<C> v5(s[i].First()); BS<C> mc(m[i].c_str()); CHECK(v5.Length() == mc.size());
                       StringView<C> v6; v6 = s[i].First(); CHECK(v6 == v5); }
                   break; }
        case 34: { H("s%u << s%u into StringStream & back", i, j);
                   StringStream<C> ss; ss << s[i]; ss += s[j]; ss << s[i]; BS<C> e = m[i] + m[j] + m[i]; CHKSS(ss, e);
                   CHECK(ss == String<C>(e.c_str(), (SizeT)e.size()));
                   String<C> g = ss.GetString(); CHKS(g, e); CHKSS(ss, BS<C>()); CHECK(ss.Capacity() == 0 && ss.First() == nullptr); break; }
        default: break;
        }
        for (unsigned k = 0; k < N; k++) CHKS(s[k], m[k]);
    }
}

template <typename C>
static void fuzzStream(unsigned steps) {
    constexpr unsigned N = 3;
    StringStream<C> s[N];
    BS<C>           m[N];
    for (unsigned step = 0; step < steps; step++) {
        unsigned i = R(N), j = R(N);
        unsigned op = R(48);
        switch (op) {
        case 0: { unsigned n = rlen(); H("ss%u = StringStream(%u)", i, n); s[i] = StringStream<C>(n); m[i].clear(); CHECK(s[i].Capacity() >= n); break; }
        case 1: { H("ss%u = copy ss%u", i, j); s[i] = s[j]; m[i] = m[j]; break; }
        case 2: { H("ss%u = move ss%u", i, j); s[i] = Memory::Move(s[j]); if (i != j) { m[i] = m[j]; m[j].clear(); CHECK(s[j].First() == nullptr && s[j].Capacity() == 0); } break; }
        case 3: { H("copy-construct ss%u", i); StringStream<C> t(s[i]); CHKSS(t, m[i]); break; }
        case 4: { H("move-construct ss%u and back", i); StringStream<C> t(Memory::Move(s[i])); CHKSS(t, m[i]); CHKSS(s[i], BS<C>()); CHECK(s[i].Capacity() == 0 && s[i].First() == nullptr); s[i] = Memory::Move(t); break; }
        case 5: { BS<C> x = rstr<C>(false); H("ss%u = cstr len=%zu", i, x.size()); s[i] = x.c_str(); m[i] = x; break; }
        case 6: { BS<C> x = rstr<C>(true); H("ss%u = String len=%zu", i, x.size()); s[i] = String<C>(x.c_str(), (SizeT)x.size()); m[i] = x; break; }
        case 7: { BS<C> x = rstr<C>(true); H("ss%u = StringView len=%zu", i, x.size()); s[i] = StringView<C>(x.c_str(), (SizeT)x.size()); m[i] = x; break; }
        case 8: { if (m[i].empty()) break; unsigned off = R((unsigned)m[i].size()); unsigned n = R((unsigned)m[i].size() - off + 1);
                  H("ss%u = StringView(self+%u,%u)", i, off, n); BS<C> x = m[i].substr(off, n); s[i] = StringView<C>(s[i].First() + off, n); m[i] = x; break; }
        case 9: { C c = (C)('a' + R(3)); if (R(8) == 0) c = 0; H("ss%u += char", i); s[i] += c; m[i].push_back(c); break; }
        case 10: { H("ss%u += ss%u", i, j); BS<C> x = m[j]; s[i] += s[j]; m[i] += x; break; }
        case 11: { BS<C> x = rstr<C>(true); H("ss%u += String len=%zu", i, x.size()); s[i] += String<C>(x.c_str(), (SizeT)x.size()); m[i] += x; break; }
        case 12: { BS<C> x = rstr<C>(false); H("ss%u += cstr len=%zu", i, x.size()); s[i] += x.c_str(); m[i] += x; break; }
        case 13: { H("ss%u << ss%u", i, j); BS<C> x = m[j]; s[i] << s[j]; m[i] += x; break; }
        case 14: { BS<C> x = rstr<C>(true); H("ss%u << String << StringView << char << cstr", i); BS<C> y = rstr<C>(false);
                   s[i] << String<C>(x.c_str(), (SizeT)x.size()) << StringView<C>(x.c_str(), (SizeT)x.size()) << C('q') << y.c_str();
                   m[i] += x; m[i] += x; m[i].push_back(C('q')); m[i] += y; break; }
        case 15: { if (m[i].empty()) break; unsigned off = R((unsigned)m[i].size()); unsigned n = R((unsigned)m[i].size() - off + 1);
                   H("ss%u << StringView(self+%u,%u) cap=%u len=%u", i, off, n, s[i].Capacity(), s[i].Length()); BS<C> x = m[i].substr(off, n);
                   s[i] << StringView<C>(s[i].First() + off, n); m[i] += x; break; }
        case 16: { if (m[i].empty()) break; unsigned off = R((unsigned)m[i].size()); unsigned n = R((unsigned)m[i].size() - off + 1);
                   H("ss%u Write(self+%u,%u) cap=%u len=%u", i, off, n, s[i].Capacity(), s[i].Length()); BS<C> x = m[i].substr(off, n);
                   s[i].Write(s[i].First() + off, n); m[i] += x; break; }
        case 17: { BS<C> x = rstr<C>(true); H("ss%u Write(ext,%zu)", i, x.size()); s[i].Write(x.c_str(), (SizeT)x.size()); m[i] += x; break; }
        case 18: { H("compare ss%u ss%u", i, j); bool e = (m[i] == m[j]); CHECK((s[i] == s[j]) == e); CHECK((s[i] != s[j]) == !e);
                   String<C> t(m[j].c_str(), (SizeT)m[j].size()); CHECK((s[i] == t) == e); CHECK((s[i] != t) == !e);
                   StringView<C> v(m[j].c_str(), (SizeT)m[j].size()); CHECK((s[i] == v) == e); CHECK((s[i] != v) == !e);
                   CHECK(s[i].IsEqual(m[j].c_str(), (SizeT)m[j].size()) == e);
                   BS<C> mc(m[j].c_str()); bool ec = (m[i] == mc); CHECK((s[i] == mc.c_str()) == ec); CHECK((s[i] != mc.c_str()) == !ec);
                   const C *np = nullptr; CHECK((s[i] == np) == m[i].empty());
                   break; }
        case 19: { H("ss%u Clear", i); SizeT c = s[i].Capacity(); s[i].Clear(); m[i].clear(); CHECK(s[i].Capacity() == c); break; }
        case 20: { H("ss%u Reset", i); s[i].Reset(); m[i].clear(); CHECK(s[i].Capacity() == 0 && s[i].First() == nullptr); break; }
        case 21: { unsigned n = R(4) == 0 ? (unsigned)m[i].size() + R(3) : R((unsigned)m[i].size() + 1); H("ss%u StepBack(%u)", i, n);
                   s[i].StepBack(n); if (n <= m[i].size()) m[i].resize(m[i].size() - n); break; }
        case 22: { unsigned n = R((unsigned)m[i].size() + 3); H("ss%u Reverse(%u)", i, n); s[i].Reverse(n);
                   if (n < m[i].size()) std::reverse(m[i].begin() + n, m[i].end()); break; }
        case 23: { H("ss%u Reverse()", i); s[i].Reverse(); std::reverse(m[i].begin(), m[i].end()); break; }
        case 24: { unsigned n = R((unsigned)m[i].size() + 3); C c = (C)('A' + R(3)); H("ss%u InsertAt(%u) len=%zu cap=%u", i, n, m[i].size(), s[i].Capacity());
                   s[i].InsertAt(c, n); if (n < m[i].size()) m[i].insert(m[i].begin() + n, c); break; }
        case 25: { unsigned n = R(2) ? R((unsigned)m[i].size() + 1) : (unsigned)m[i].size() + rlen(); H("ss%u SetLength(%u) len=%zu", i, n, m[i].size());
                   size_t old = m[i].size(); s[i].SetLength(n); m[i].resize(n);
                   for (size_t k = old; k < n; k++) { C c = (C)('0' + k % 10); s[i].Storage()[k] = c; m[i][k] = c; } break; }
        case 26: { unsigned n = rlen(); H("ss%u Buffer(%u) len=%zu cap=%u", i, n, m[i].size(), s[i].Capacity()); C *p = s[i].Buffer(n);
                   CHECK(p == s[i].Storage() + m[i].size());
                   for (unsigned k = 0; k < n; k++) { C c = (C)('0' + k % 10); p[k] = c; m[i].push_back(c); }
                   unsigned back = R(n + 1); s[i].StepBack(back); m[i].resize(m[i].size() - back); break; }
        case 27: { unsigned n = rlen(); H("ss%u Expect(%u)", i, n); s[i].Expect(n); CHECK(s[i].Capacity() >= m[i].size() + n); break; }
        case 28: { unsigned n = rlen(); H("ss%u Reserve(%u)", i, n); s[i].Reserve(n); m[i].clear(); CHECK(s[i].Capacity() >= n); break; }
        case 29: { H("ss%u Detach", i); C *p = s[i].Detach(); for (size_t k = 0; k < m[i].size(); k++) CHECK(p[k] == m[i][k]);
                   Memory::Deallocate(p); m[i].clear(); CHECK(s[i].Capacity() == 0 && s[i].First() == nullptr); break; }
        case 30: { H("ss%u GetString len=%zu cap=%u", i, m[i].size(), s[i].Capacity()); String<C> g = s[i].GetString(); CHKS(g, m[i]); m[i].clear();
                   CHECK(s[i].Capacity() == 0 && s[i].First() == nullptr); break; }
        case 31: { H("ss%u GetStringView len=%zu cap=%u", i, m[i].size(), s[i].Capacity()); StringView<C> v = s[i].GetStringView();
                   CHECK(v.Length() == m[i].size() && v.First() == s[i].First()); CHECK(v.First()[v.Length()] == 0);
                   CHECK(s[i].Capacity() > s[i].Length()); break; }
        case 32: { H("ss%u InsertNull len=%zu cap=%u", i, m[i].size(), s[i].Capacity()); s[i].InsertNull(); CHECK(s[i].First()[m[i].size()] == 0); break; }
        case 33: { H("ss%u self copy-assign", i); StringStream<C> &r = s[i]; s[i] = r; break; }
        case 34: { H("ss%u self move-assign", i); StringStream<C> &r = s[i]; s[i] = Memory::Move(r); break; }
        case 35: { H("iterate ss%u", i); BS<C> x; for (const C &c : (const StringStream<C> &)s[i]) x.push_back(c); CHECK(x == m[i]);
                   size_t k = 0; for (C &c : s[i]) { CHECK(c == m[i][k]); k++; } CHECK(k == m[i].size()); break; }
        case 36: { H("Memory::Swap ss%u ss%u", i, j); Memory::Swap(s[i], s[j]); if (i != j) std::swap(m[i], m[j]); break; }
        case 37: { H("ss%u << ss%u << ss%u (chain)", i, j, i); BS<C> e = m[i] + m[j]; if (i == j) e = m[i] + m[i]; BS<C> e2 = e + e;
                   s[i] << s[j] << s[i]; m[i] = e2; break; }
        case 38: { H("other stream << ss%u", i); StringStream<C> o; String<C> str(m[j].c_str(), (SizeT)m[j].size());
                   // generic template operator<< for foreign stream types is exercised with a minimal stream
                   struct Mini { BS<C> d; Mini &operator<<(C c) { d.push_back(c); return *this; } } mini;
                   mini << s[i]; CHECK(mini.d == m[i]); Mini mini2; mini2 << StringView<C>(s[i].First(), s[i].Length()); CHECK(mini2.d == m[i]); break; }
        case 39: { H("ss%u fill to capacity then += / InsertAt / GetString", i);
                   while (s[i].Length() < s[i].Capacity()) { s[i] += C('f'); m[i].push_back(C('f')); }
                   break; }
        default: break;
        }
        for (unsigned k = 0; k < N; k++) CHKSS(s[k], m[k]);
    }
}

int main(int argc, char **argv) {
    unsigned long long seed0 = argc > 1 ? strtoull(argv[1], 0, 10) : 1;
    unsigned           runs  = argc > 2 ? atoi(argv[2]) : 200;
    unsigned           steps = argc > 3 ? atoi(argv[3]) : 300;
    for (unsigned r = 0; r < runs; r++) {
        g_seed = seed0 + r;
        rng.seed(g_seed); hist.clear(); H("-- String<char>"); fuzzString<char>(steps);
        rng.seed(g_seed); hist.clear(); H("-- String<char16_t>"); fuzzString<char16_t>(steps);
        rng.seed(g_seed); hist.clear(); H("-- String<char32_t>"); fuzzString<char32_t>(steps);
        rng.seed(g_seed); hist.clear(); H("-- StringStream<char>"); fuzzStream<char>(steps);
        rng.seed(g_seed); hist.clear(); H("-- StringStream<char16_t>"); fuzzStream<char16_t>(steps);
        rng.seed(g_seed); hist.clear(); H("-- StringStream<char32_t>"); fuzzStream<char32_t>(steps);
    }
    printf("ok %u runs from seed %llu\n", runs, seed0);
    return 0;
}
