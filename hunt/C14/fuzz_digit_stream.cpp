#include <new>
#include <cstdio>
#include <cstring>
#include <cstdlib>
#include <random>
#include <string>
#include "StringStream.hpp"
#include "Digit.hpp"
using namespace Qentem;
static std::mt19937_64 rng(12345);
static char last[256];
extern "C" void __asan_on_error() { puts(last); fflush(stdout); }

template <typename C, typename N>
static void one(N num, Digit::RealFormatInfo fmt, unsigned prefix, unsigned slack) {
    snprintf(last, sizeof last, "CASE sizeofC=%zu sizeofN=%zu prefix=%u slack=%u prec=%u type=%u num=%.17g", sizeof(C), sizeof(N), prefix, slack, fmt.Precision, (unsigned)fmt.Type, (double)num);
    StringStream<C> big(512);
    Digit::NumberToString(big, num, fmt);
    std::basic_string<C> expect(big.First(), big.Length());
    StringStream<C> s(prefix + slack);
    for (unsigned i = 0; i < prefix; i++) s += C('P');
    Digit::NumberToString(s, num, fmt);
    bool ok = s.Length() == prefix + expect.size();
    for (unsigned i = 0; ok && i < prefix; i++) ok = s.First()[i] == C('P');
    for (unsigned i = 0; ok && i < expect.size(); i++) ok = s.First()[prefix + i] == expect[i];
    if (!ok) {
        printf("MISMATCH prefix=%u slack=%u prec=%u type=%u num=%.17g\n", prefix, slack, fmt.Precision, (unsigned)fmt.Type, (double)num);
        exit(1);
    }
}
template <typename C>
static void run(unsigned iters) {
    for (unsigned it = 0; it < iters; it++) {
        Digit::RealFormatInfo fmt;
        fmt.Precision = (unsigned)(rng() % 22);
        unsigned t = rng() % 3; fmt.Type = t == 0 ? Digit::RealFormatType::Default : (t == 1 ? Digit::RealFormatType::Fixed : Digit::RealFormatType::SemiFixed);
        unsigned prefix = rng() % 20, slack = rng() % 6; if (fmt.Precision == 0 && getenv("NOP0")) fmt.Precision = 1;
        double d;
        switch (rng() % 6) {
        case 0: { unsigned long long b = rng(); memcpy(&d, &b, 8); break; }
        case 1: d = (double)(long long)(rng() % 2000000) / 1000.0; break;
        case 2: d = 9.999999999 * (double)(rng() % 1000); break;
        case 3: d = 1.0 / (double)(1 + rng() % 100000); break;
        case 4: d = (double)(rng() % 100) * 1e20; break;
        default: d = 0.5 * (double)(rng() % 64) + 0.05; break;
        }
        if (rng() % 2) d = -d;
        one<C>(d, fmt, prefix, slack);
        one<C>((float)d, fmt, prefix, slack);
        one<C>((long long)rng(), fmt, prefix, slack);
        one<C>((unsigned)rng(), fmt, prefix, slack);
        one<C>((short)rng(), fmt, prefix, slack);
    }
}
int main() { run<char>(150000); run<char16_t>(50000); run<char32_t>(50000); printf("ok\n"); }
