#include <new>
#include <cstdio>
#include <cstdlib>
#include <string>
#include <random>
#include "StringUtils.hpp"
using namespace Qentem;
static std::mt19937_64 rng(7);
template <typename C> static bool ws(C c) { return c == ' ' || c == '\n' || c == '\t' || c == '\r'; }
template <typename C> static void run() {
    for (unsigned it = 0; it < 300000; it++) {
        unsigned n = rng() % 70;
        // exact-size heap buffer so ASan sees over-reads
        C *b = (C *)malloc((n ? n : 1) * sizeof(C));
        for (unsigned i = 0; i < n; i++) { unsigned k = rng() % 8; b[i] = k == 0 ? ' ' : k == 1 ? '\n' : k == 2 ? '\t' : k == 3 ? '\r' : k == 4 ? (C)0x0B : k == 5 ? (C)0xA0 : (C)('A' + rng() % 3); }
        unsigned off = n ? rng() % (n + 1) : 0; unsigned len = rng() % (n - off + 1);
        { SizeT o = off, l = len; StringUtils::Trim(b, o, l);
          unsigned mo = off, me = off + len; while (mo < me && ws(b[mo])) mo++; while (me > mo && ws(b[me - 1])) me--;
          if (len != 0 && (o != mo || l != me - mo)) { printf("Trim mismatch n=%u off=%u len=%u -> %u,%u expected %u,%u\n", n, off, len, o, l, mo, me - mo); exit(1); }
          if (len == 0 && (o != off || l != 0)) { printf("Trim(len 0) changed\n"); exit(1); } }
        { SizeT o = off; StringUtils::TrimLeft(b, o, SizeT(off + len)); unsigned mo = off; while (mo < off + len && ws(b[mo])) mo++; if (o != mo) { printf("TrimLeft mismatch\n"); exit(1); } }
        { SizeT e = off + len; StringUtils::TrimRight(b, SizeT(off), e); unsigned me = off + len; while (me > off && ws(b[me - 1])) me--; if (e != me) { printf("TrimRight mismatch\n"); exit(1); } }
        { std::basic_string<C> x(b + off, len); C *c = (C *)malloc((len + 1) * sizeof(C)); for (unsigned i = 0; i < len; i++) c[i] = b[off + i]; c[len] = 0;
          if (StringUtils::Count(c) != len) { printf("Count mismatch\n"); exit(1); }
          StringUtils::ToLowerCase(c, len); for (unsigned i = 0; i < len; i++) { C e = x[i]; if (e >= 'A' && e <= 'Z') e += 32; if (c[i] != e) { printf("ToLowerCase mismatch\n"); exit(1); } }
          free(c); }
        free(b);
    }
}
int main() { run<char>(); run<char16_t>(); run<char32_t>(); run<wchar_t>(); puts("ok"); }
