// StringStream growth is computed in 32-bit SizeT: grow() asks for new_capacity * 4, which wraps for any
// request of 1 GiB or more (also Memory::AlignSize() for > 2 GiB). The stream then owns a tiny block while
// Length()/Buffer() pretend the space is there.
#include <new>
#include <cstdio>
#include "StringStream.hpp"
using namespace Qentem;

int main() {
    StringStream<char> ss;
    ss << "abc";

    const SizeT want = 0x40000001U; // 1 GiB + 1 characters
    ss.Expect(want);
    printf("Expect(%u): Capacity() = %u\n", want, ss.Capacity()); // 16

    char *buf = ss.Buffer(want); // "room for 'want' characters"
    printf("Buffer(%u): Length() = %u Capacity() = %u\n", want, ss.Length(), ss.Capacity());

    Memory::SetToZero(buf, 64U); // heap-buffer-overflow: the block has 16 bytes
    return (ss.Capacity() >= ss.Length()) ? 0 : 1;
}
