// Digit::roundStringNumber() stores the carry digit at stream.Storage()[stream.Length()] (and, for a
// rounding digit '5', reads First()[Length()]) without looking at Capacity().
//  ./a.out    -> the stream is exactly full when the number is rounded: heap-buffer-overflow (WRITE)
//  ./a.out h  -> the value read past the end is whatever an earlier, cleared content left there:
//                the same number is printed differently depending on the stream's history.
// No QENTEM_VERIF needed: StringStream(32) has a capacity of exactly 32.
#include <new>
#include <cstdio>
#include <string>
#include "StringStream.hpp"
#include "Digit.hpp"
using namespace Qentem;

static std::string after(const char *earlier) {
    StringStream<char> s(64);
    s << earlier;
    s.Clear();
    Digit::NumberToString(s, 0.5, Digit::RealFormatInfo{0U, Digit::RealFormatType::SemiFixed});
    return std::string(s.First(), s.Length());
}

int main(int argc, char **argv) {
    if (argc > 1) {
        const std::string a = after("2222222222");
        const std::string b = after("1111111111");
        printf("0.5, precision 0: '%s' after \"222...\", '%s' after \"111...\"\n", a.c_str(), b.c_str());
        return (a == b) ? 0 : 1;
    }

    StringStream<char> s(32);
    for (int i = 0; i < 29; i++) {
        s += 'P';
    }
    // 0.06 -> digits "6.." fill the stream up to its capacity; rounding to one decimal carries out of the
    // most significant stored digit.
    Digit::NumberToString(s, 0.06, Digit::RealFormatInfo{1U, Digit::RealFormatType::Fixed});
    printf("'%.*s'\n", (int)s.Length(), s.First()); // expected PPP...P0.1
    return 0;
}
