#include <new>
// Defect 1: LoopTag::Level / VariableTag::Level are 8 bits; a loop at nesting depth 256 gets Level 0 and
// overwrites loops_items_[0] of the outermost loop with a pointer into its own (local, sorted) copy of the set.
// After the inner loop returns, {var:v} of the outer loop reads freed memory (heap-use-after-free).
#include <cstdio>
#include <cstdlib>
#include <cstring>
#include <string>
#include "JSON.hpp"
#include "Template.hpp"
using namespace Qentem;
int main() {
    const char *js = R"({"a":["s1","s2"],"b":["zzzzzzzzzzzzzzzzzzzzzzzzzzzzzzzzzzzzzzzz","yyyyyyyyyyyyyyyyyyyyyyyyyyyyyyyyyyyyyyyy"]})";
    Value<char> v = JSON::Parse(js, (SizeT)strlen(js));
    std::string t = "<loop set=\"a\" value=\"v\">";
    for (int i = 0; i < 255; i++) t += "<if case=\"1\">";
    t += "<loop set=\"b\" value=\"w\" sort=\"ascend\">{var:w}</loop>"; // depth 256 -> Level == 0
    for (int i = 0; i < 255; i++) t += "</if>";
    t += "[{var:v}]</loop>";
    char *b = (char *)malloc(t.size());
    memcpy(b, t.data(), t.size());
    StringStream<char> ss;
    Template::Render(b, (SizeT)t.size(), v, ss);
    free(b);
    printf("%.*s\n", (int)ss.Length(), ss.First());
    return 0;
}
