#include <new>
// Defect 5: quadratic parse time. Every '}' inside a true="..."/false="..." value of an inline if sends the
// closing-brace handler (Template.hpp, case LineEndID, InLineIf) back to the first attribute: it re-scans the whole
// attribute text and all sub-tags collected so far. "{if case="1" true="}}}}...}}"}" with n braces costs O(n^2):
// 20 KB -> 0.13 s, 200 KB -> 13 s at -O2. (Nested parentheses in an expression are quadratic too, see repro_2.)
// Exit status 3 when doubling the input more than triples the time, or when the 15 s alarm fires.
#include <cstdio>
#include <cstdlib>
#include <cstring>
#include <string>
#include <chrono>
#include <signal.h>
#include <unistd.h>
#include "JSON.hpp"
#include "Template.hpp"
using namespace Qentem;
static void on_alarm(int) { const char m[] = "TIMEOUT after 15 s\n"; write(2, m, sizeof(m) - 1); _exit(3); }
static long run(int n) {
    std::string t = "{if case=\"1\" true=\"";
    t.append(n, '}');
    t += "\"}";
    Value<char> v = JSON::Parse("{}", 2);
    char *b = (char *)malloc(t.size());
    memcpy(b, t.data(), t.size());
    const auto t0 = std::chrono::steady_clock::now();
    StringStream<char> ss;
    Template::Render(b, (SizeT)t.size(), v, ss);
    const long us = (long)std::chrono::duration_cast<std::chrono::microseconds>(std::chrono::steady_clock::now() - t0).count();
    free(b);
    printf("n=%d out=%u us=%ld\n", n, (unsigned)ss.Length(), us);
    return us;
}
int main() {
    signal(SIGALRM, on_alarm);
    alarm(15);
    const long a = run(8000);
    const long b = run(16000);
    const long c = run(32000);
    return ((b > 3 * a) && (c > 3 * b)) ? 3 : 0;
}
