#include <new>
// Defect 6: heap-buffer-overflow WRITE (one unit) in Digit::roundStringNumber (Digit.hpp:1178), reached from
// renderMath / renderVariable / renderRawVariable (-> Digit::NumberToString with {TemplatePrecision = 2, SemiFixed}).
// A real x with 0.005 <= |x| < 0.01 has no digit left at the template precision; rounding it up carries out of the
// most significant digit and roundStringNumber stores the new '1' at stream.Storage()[stream.Length()], i.e. one
// past the written part of the stream - past the allocation when the stream is full.
// Plain (unhooked) build: "abcd" (capacity 16) + 8 units + the 4 digits "7499" fill the 16-unit block exactly.
// With -DQENTEM_VERIF (exact-fit growth) the bare template "{math:0.0075}" is enough.
#include <cstdio>
#include <cstdlib>
#include <cstring>
#include "JSON.hpp"
#include "Template.hpp"
using namespace Qentem;
int main(int argc, char **argv) {
    const char *js = "{\"s\":\"12345678\",\"x\":0.0075}";
    const char *t  = (argc > 1) ? argv[1] : "abcd{raw:s}{math:0.0075}"; // also: "abcd{raw:s}{var:x}"
    Value<char> v  = JSON::Parse(js, (SizeT)strlen(js));
    const size_t n = strlen(t);
    char *b        = (char *)malloc(n);
    memcpy(b, t, n);
    StringStream<char> ss;
    Template::Render(b, (SizeT)n, v, ss);
    free(b);
    printf("[%.*s]\n", (int)ss.Length(), ss.First());
    return 0;
}
