#include <new>
// Defect 3: the decimal exponent of a number is accumulated in 32 bits and the range check adds to it in 32 bits
// (Digit.hpp stringToNumber: "(exponent + e_p10_power) > 309"). For "1e4294967295" the sum wraps to 0, the check
// passes and powerOfPositiveTen() runs 4294967295/27 = 159 million BigInt multiplications: a 19-unit template takes
// seconds (about 3.6 s at -O2, > 30 s with sanitizers). The same happens for a value string "1e4294967295" used in
// {math:{var:s}+1}. Exit status 3 when one tiny tag needs more than one second (or the 15 s alarm fires).
#include <cstdio>
#include <cstdlib>
#include <cstring>
#include <chrono>
#include <signal.h>
#include <unistd.h>
#include "JSON.hpp"
#include "Template.hpp"
using namespace Qentem;
static void on_alarm(int) { const char m[] = "TIMEOUT: {math:1e4294967295} still running after 15 s\n"; write(2, m, sizeof(m) - 1); _exit(3); }
int main() {
    const char *t = "{math:1e4294967295}";
    const size_t n = strlen(t);
    Value<char> v = JSON::Parse("{}", 2);
    char *b = (char *)malloc(n);
    memcpy(b, t, n);
    signal(SIGALRM, on_alarm);
    alarm(15);
    const auto t0 = std::chrono::steady_clock::now();
    StringStream<char> ss;
    Template::Render(b, (SizeT)n, v, ss);
    const auto ms = std::chrono::duration_cast<std::chrono::milliseconds>(std::chrono::steady_clock::now() - t0).count();
    free(b);
    printf("out=[%.*s] ms=%ld\n", (int)ss.Length(), ss.First(), (long)ms);
    return (ms > 1000) ? 3 : 0;
}
