#include <new>
// Defect 4: undefined arithmetic in expression evaluation (reported by -fsanitize=undefined; no hardware trap on
// x86-64): signed overflow in += -= *= on IntegerNumber, negation of the minimum integer in ^=, and conversions of
// out-of-range / inf / nan doubles to SizeT64I in %, &, |, ^.
#include <cstdio>
#include <cstdlib>
#include <cstring>
#include "JSON.hpp"
#include "Template.hpp"
using namespace Qentem;
int main(int argc, char **argv) {
    static const char *list[] = {
        "{math:-9223372036854775807-2}",      // QExpression.hpp:275 signed overflow (-=)
        "{math:-5*9223372036854775807}",      // QExpression.hpp:351 signed overflow (*=)
        "{math:-9223372036854775808^2}",      // QExpression.hpp:413 negation of the minimum
        "{math:2^-9223372036854775808}",      // QExpression.hpp:452 negation of the minimum
        "{math:1e30%7}",                      // QExpression.hpp:580 double -> SizeT64I out of range
        "{math:7%1e30}",                      // Template.hpp:1609   double -> SizeT64I out of range
        "{math:1e30&1}",                      // QExpression.hpp:638
        "{math:1|1e30}",                      // QExpression.hpp:674
        "{math:1e30^2}",                      // QExpression.hpp:433
        "{math:2^1e30}",                      // QExpression.hpp:475
        "{math:((1e308*10)-(1e308*10))%2}",   // nan -> SizeT64I
    };
    const int k = (argc > 1) ? atoi(argv[1]) : 0;
    const char *t = list[k];
    const size_t n = strlen(t);
    Value<char> v = JSON::Parse("{}", 2);
    char *b = (char *)malloc(n);
    memcpy(b, t, n);
    StringStream<char> ss;
    Template::Render(b, (SizeT)n, v, ss);
    free(b);
    printf("%s => [%.*s]\n", t, (int)ss.Length(), ss.First());
    return 0;
}
