#include <new>
// Defect 2: unbounded recursion. parseExpressions <-> parseValue recurse once per '(' level (and re-scan the whole
// remaining text at each level: O(depth * n)); render()/renderIf()/renderLoop() and the TagBit destructors recurse
// once per nested <if>/<loop>. A template of a few tens of kilobytes exhausts the stack (SIGSEGV / ASan stack-overflow).
//   mode 0 (default): "{math:" + 60000 * "(" + "1" + 60000 * ")" + "}"        (120 KB)
//   mode 1:           60000 * "<if case=\"1\">" + "x" + 60000 * "</if>"
//   mode 2:           60000 * "<loop>" + "x" + 60000 * "</loop>"
#include <cstdio>
#include <cstdlib>
#include <cstring>
#include <string>
#include "JSON.hpp"
#include "Template.hpp"
using namespace Qentem;
int main(int argc, char **argv) {
    const int mode = (argc > 1) ? atoi(argv[1]) : 0;
    const int n    = (argc > 2) ? atoi(argv[2]) : 60000;
    std::string t;
    if (mode == 0) { t = "{math:"; t.append(n, '('); t += "1"; t.append(n, ')'); t += "}"; }
    if (mode == 1) { for (int i = 0; i < n; i++) t += "<if case=\"1\">"; t += "x"; for (int i = 0; i < n; i++) t += "</if>"; }
    if (mode == 2) { for (int i = 0; i < n; i++) t += "<loop>"; t += "x"; for (int i = 0; i < n; i++) t += "</loop>"; }
    Value<char> v = JSON::Parse("[1]", 3);
    char *b = (char *)malloc(t.size());
    memcpy(b, t.data(), t.size());
    StringStream<char> ss;
    Template::Render(b, (SizeT)t.size(), v, ss);
    free(b);
    printf("survived: out=%u\n", (unsigned)ss.Length());
    return 0;
}
