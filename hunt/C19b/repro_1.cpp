#include <new>
// BigInt: "&=" with a native operand that has more words than the BigInt indexes storage_ past its end.
// The mathematical result of an AND always fits. Required: value == (old & operand) truncated to the width,
// Index() <= MaxIndex(), no access outside storage_.
#include <cstdio>
#include <cstdint>
#include "BigInt.hpp"
using namespace Qentem;
int main() {
    int bad = 0;
    {   // 4 x 8-bit words (32 bits); operand is a 64-bit native with bits above bit 31 set.
        BigInt<SizeT8, 32U> b = SizeT32{0xFFFFFFFFU};
        b &= SizeT64{0xFFFFFFFFFFFFFFFFULL}; // exact result: 0xFFFFFFFF, index 3
        std::printf("u8x4 : index=%u (MaxIndex=%u) value=0x%08x\n", b.Index(), b.MaxIndex(), unsigned(SizeT32(b)));
        bad |= (b.Index() > b.MaxIndex()) || (SizeT32(b) != 0xFFFFFFFFU);
    }
    {   // 2 x 16-bit words; 64-bit operand
        BigInt<SizeT16, 32U> b = SizeT32{0x00010001U};
        b &= SizeT64{0xFFFFFFFFFFFFFFFFULL};
        std::printf("u16x2: index=%u (MaxIndex=%u)\n", b.Index(), b.MaxIndex());
        bad |= (b.Index() > b.MaxIndex());
    }
    {   // 2 x 64-bit words (128 bits) is the library's own usage; one 32-bit word pair with a 64-bit mask:
        BigInt<SizeT32, 32U> b = SizeT32{5U};
        b &= SizeT64{0xFFFFFFFF00000007ULL}; // exact result 5
        std::printf("u32x1: index=%u (MaxIndex=%u) value=%u\n", b.Index(), b.MaxIndex(), unsigned(SizeT32(b)));
        bad |= (b.Index() > b.MaxIndex());
    }
    return bad;
}
