#include <new>
// BigInt: the comparison operators take the native operand as one word (Number_T). A native operand wider than a
// word is narrowed implicitly at the call, so the predicate is evaluated against (operand mod 2^word) although
// =, +=, -=, |=, &= of the same class accept such operands in full.
#include <cstdio>
#include <cstdint>
#include "BigInt.hpp"
using namespace Qentem;
int main() {
    int bad = 0;
    BigInt<SizeT8, 64U> b = SizeT32{300U};          // value 300 (two 8-bit words)
    const SizeT32 same = 300U, bigger = 70000U, smaller = 256U;
    std::printf("b == 300   : %d (required 1)\n", int(b == same));    bad += !(b == same);
    std::printf("b != 300   : %d (required 0)\n", int(b != same));    bad += (b != same);
    std::printf("b <  70000 : %d (required 1)\n", int(b < bigger));   bad += !(b < bigger);
    std::printf("b >= 70000 : %d (required 0)\n", int(b >= bigger));  bad += (b >= bigger);
    BigInt<SizeT8, 64U> c = SizeT32{44U};           // 300 mod 256 == 44
    std::printf("44 == 300  : %d (required 0)\n", int(c == same));    bad += (c == same);
    std::printf("44 >= 256  : %d (required 0)\n", int(c >= smaller)); bad += (c >= smaller); // 256 -> 0
    BigInt<SizeT32, 128U> d = SizeT64{0x100000005ULL};
    std::printf("d == 0x100000005 : %d (required 1)\n", int(d == SizeT64{0x100000005ULL})); bad += !(d == SizeT64{0x100000005ULL});
    BigInt<SizeT32, 128U> e = SizeT32{5U};
    std::printf("5 == 0x100000005 : %d (required 0)\n", int(e == SizeT64{0x100000005ULL})); bad += (e == SizeT64{0x100000005ULL});
    return bad != 0;
}
