#include <new>
// BigInt::FindFirstBit()/FindLastBit() on a zero value pass 0 to __builtin_ctz/__builtin_clz (undefined behaviour;
// UBSan: "passing zero to ctz()"). No precondition is stated on the BigInt methods and nothing guards it.
#include <cstdio>
#include "BigInt.hpp"
using namespace Qentem;
int main() {
    BigInt<SizeT64, 256U> b;            // zero
    BigInt<SizeT8, 64U>   c = 5U; c -= 5U; // zero after arithmetic
    std::printf("%u %u\n", b.FindFirstBit(), c.FindFirstBit());
    std::printf("%u %u\n", b.FindLastBit(), c.FindLastBit());
    return 0; // fails through the sanitizer (-fsanitize=undefined -fno-sanitize-recover=all)
}
