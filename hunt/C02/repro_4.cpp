#include <new>
#include "JSON.hpp"
#include "Template.hpp"
#include <cstdio>
#include <cstring>
#include <string>
// Literal text that starts with '<if' but is no <if case=...> tag (e.g. <iframe>) disables every tag after it.
// Build: g++ -std=c++17 -march=native -DQENTEM_SSE2=1 -w -I/tmp/wt/hC02/Include repro_4.cpp -o repro_4
using namespace Qentem;
struct Case { const char *tmpl; const char *json; const char *expected; };
static int run(const Case &c) {
    Value<char> v = JSON::Parse(c.json);
    StringStream<char> ss;
    Template::Render(c.tmpl, v, ss);
    std::string actual(ss.First(), ss.Length());
    const bool ok = (actual == c.expected);
    std::printf("template: %s\nvalue   : %s\nactual  : %s\nexpected: %s\n%s\n\n", c.tmpl, c.json, actual.c_str(), c.expected, ok ? "OK" : "MISMATCH");
    return ok ? 0 : 1;
}
int main() {
    const Case cases[] = {
        {"a<iframe src=\"x\">b</iframe>c {var:a}",
         "{\"a\":\"A\"}",
         "a<iframe src=\"x\">b</iframe>c A"},
        {"<if case=\"1\">[<iframe src=\"{var:u}\"></iframe>]</if> {var:a}",
         "{\"a\":\"A\",\"u\":\"U\"}",
         "[<iframe src=\"U\"></iframe>] A"},
        {"<loop set=\"l\" value=\"v\"><iframe id=\"{var:v}\"></iframe></loop>",
         "{\"l\":[1,2]}",
         "<iframe id=\"1\"></iframe><iframe id=\"2\"></iframe>"}
    };
    int bad = 0;
    for (const Case &c : cases) bad += run(c);
    std::printf("%d mismatch(es)\n", bad);
    return (bad != 0) ? 1 : 0;
}
