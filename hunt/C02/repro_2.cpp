#include <new>
#include "JSON.hpp"
#include "Template.hpp"
#include <cstdio>
#include <cstring>
#include <string>
// The phrase variable of {svar:...} is not bound to the enclosing loop variable (all other tags are).
// Build: g++ -std=c++17 -march=native -DQENTEM_SSE2=1 -w -I/tmp/wt/hC02/Include repro_2.cpp -o repro_2
using namespace Qentem;
struct Case { const char *tmpl; const char *json; const char *expected; };
static int run(const Case &c) {
    Value<char> v = JSON::Parse(c.json);
    StringStream<char> ss;
    Template::Render(c.tmpl, v, ss);
    std::string actual(ss.First(), ss.Length());
    const bool ok = (actual == c.expected);
    std::printf("template: %s\nvalue   : %s\nactual  : %s\nexpected: %s\n%s\n\n", c.tmpl, c.json, actual.c_str(), c.expected, ok ? "OK" : "MISMATCH");
    return ok ? 0 : 1;
}
int main() {
    const Case cases[] = {
        {"<loop set=\"phrases\" value=\"ph\">{svar:ph, {var:a}};</loop>",
         "{\"phrases\":[\"x{0}\",\"{0}y\"],\"a\":\"A\"}",
         "xA;Ay;"},
        {"<loop set=\"l\" value=\"v\">{svar:v[p], {var:v[n]}};</loop>",
         "{\"l\":[{\"p\":\"a{0}b\",\"n\":\"X\"},{\"p\":\"{0}{0}\",\"n\":\"Y\"}]}",
         "aXb;YY;"},
        {"<loop set=\"l\" value=\"v\">{svar:v[p], {var:v[n]}};</loop>",
         "{\"l\":[{\"p\":\"a{0}b\",\"n\":\"X\"}],\"v\":{\"p\":\"ROOT{0}\"}}",
         "aXb;"}
    };
    int bad = 0;
    for (const Case &c : cases) bad += run(c);
    std::printf("%d mismatch(es)\n", bad);
    return (bad != 0) ? 1 : 0;
}
