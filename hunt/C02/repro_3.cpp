#include <new>
#include "JSON.hpp"
#include "Template.hpp"
#include <cstdio>
#include <cstring>
#include <string>
// Inline if with an attribute before case= (documented as OK) is not recognised.
// Build: g++ -std=c++17 -march=native -DQENTEM_SSE2=1 -w -I/tmp/wt/hC02/Include repro_3.cpp -o repro_3
using namespace Qentem;
struct Case { const char *tmpl; const char *json; const char *expected; };
static int run(const Case &c) {
    Value<char> v = JSON::Parse(c.json);
    StringStream<char> ss;
    Template::Render(c.tmpl, v, ss);
    std::string actual(ss.First(), ss.Length());
    const bool ok = (actual == c.expected);
    std::printf("template: %s\nvalue   : %s\nactual  : %s\nexpected: %s\n%s\n\n", c.tmpl, c.json, actual.c_str(), c.expected, ok ? "OK" : "MISMATCH");
    return ok ? 0 : 1;
}
int main() {
    const Case cases[] = {
        {"{if true=\"one\" case=\"1\"}",
         "{}",
         "one"},
        {"{if true=\"one\" false=\"zero\" case=\"0\"}",
         "{}",
         "zero"},
        {"{if false=\"{var:1}\" case=\"{var:2} == 4\" true=\"{var:0}\"}",
         "[\"Correct!\",\"WRONG!\",4]",
         "Correct!"}
    };
    int bad = 0;
    for (const Case &c : cases) bad += run(c);
    std::printf("%d mismatch(es)\n", bad);
    return (bad != 0) ? 1 : 0;
}
