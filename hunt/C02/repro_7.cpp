#include <new>
#include "JSON.hpp"
#include "Template.hpp"
#include <cstdio>
#include <cstring>
#include <string>
// {raw:v} of a bare loop variable does not print the member/group key although {var:v} does (raw == var minus escaping).
// Build: g++ -std=c++17 -march=native -DQENTEM_SSE2=1 -w -I/tmp/wt/hC02/Include repro_7.cpp -o repro_7
using namespace Qentem;
struct Case { const char *tmpl; const char *json; const char *expected; };
static int run(const Case &c) {
    Value<char> v = JSON::Parse(c.json);
    StringStream<char> ss;
    Template::Render(c.tmpl, v, ss);
    std::string actual(ss.First(), ss.Length());
    const bool ok = (actual == c.expected);
    std::printf("template: %s\nvalue   : %s\nactual  : %s\nexpected: %s\n%s\n\n", c.tmpl, c.json, actual.c_str(), c.expected, ok ? "OK" : "MISMATCH");
    return ok ? 0 : 1;
}
int main() {
    const Case cases[] = {
        {"<loop value=\"g\" group=\"year\" sort=\"ascend\">Year({var:g})/Year({raw:g}) </loop>",
         "[{\"year\":2019,\"month\":4},{\"year\":2017,\"month\":1}]",
         "Year(2017)/Year(2017) Year(2019)/Year(2019) "},
        {"<loop set=\"o\" value=\"v\">[{var:v}|{raw:v}]</loop>",
         "{\"o\":{\"<k>\":[1],\"a&b\":{\"z\":1}}}",
         "[&lt;k&gt;|<k>][a&amp;b|a&b]"}
    };
    int bad = 0;
    for (const Case &c : cases) bad += run(c);
    std::printf("%d mismatch(es)\n", bad);
    return (bad != 0) ? 1 : 0;
}
