#include <new>
#include "JSON.hpp"
#include "Template.hpp"
#include <cstdio>
#include <cstring>
#include <string>
// Reals whose rounded value is integral lose trailing zeros of the integer part (2 fraction digits, semi-fixed).
// Build: g++ -std=c++17 -march=native -DQENTEM_SSE2=1 -w -I/tmp/wt/hC02/Include repro_5.cpp -o repro_5
using namespace Qentem;
struct Case { const char *tmpl; const char *json; const char *expected; };
static int run(const Case &c) {
    Value<char> v = JSON::Parse(c.json);
    StringStream<char> ss;
    Template::Render(c.tmpl, v, ss);
    std::string actual(ss.First(), ss.Length());
    const bool ok = (actual == c.expected);
    std::printf("template: %s\nvalue   : %s\nactual  : %s\nexpected: %s\n%s\n\n", c.tmpl, c.json, actual.c_str(), c.expected, ok ? "OK" : "MISMATCH");
    return ok ? 0 : 1;
}
int main() {
    const Case cases[] = {
        {"{var:x}",
         "{\"x\":10.001}",
         "10"},
        {"{var:x}",
         "{\"x\":100.004}",
         "100"},
        {"{var:x}",
         "{\"x\":11150.001}",
         "11150"},
        {"{raw:x}",
         "{\"x\":1000.001}",
         "1000"},
        {"{math:100*1.1}",
         "{}",
         "110"},
        {"{math:{var:p}*{var:q}}",
         "{\"p\":1.1,\"q\":100}",
         "110"},
        {"{var:x} {var:y} {var:z}",
         "{\"x\":50.002,\"y\":20.0001,\"z\":1200.5}",
         "50 20 1200.5"}
    };
    int bad = 0;
    for (const Case &c : cases) bad += run(c);
    std::printf("%d mismatch(es)\n", bad);
    return (bad != 0) ? 1 : 0;
}
