#include <new>
#include "JSON.hpp"
#include "Template.hpp"
#include <cstdio>
#include <cstring>
#include <string>
// A non-numeric (or empty) name used on an ordered array resolves to an unrelated element instead of staying unresolved.
// Build: g++ -std=c++17 -march=native -DQENTEM_SSE2=1 -w -I/tmp/wt/hC02/Include repro_6.cpp -o repro_6
using namespace Qentem;
struct Case { const char *tmpl; const char *json; const char *expected; };
static int run(const Case &c) {
    Value<char> v = JSON::Parse(c.json);
    StringStream<char> ss;
    Template::Render(c.tmpl, v, ss);
    std::string actual(ss.First(), ss.Length());
    const bool ok = (actual == c.expected);
    std::printf("template: %s\nvalue   : %s\nactual  : %s\nexpected: %s\n%s\n\n", c.tmpl, c.json, actual.c_str(), c.expected, ok ? "OK" : "MISMATCH");
    return ok ? 0 : 1;
}
int main() {
    const Case cases[] = {
        {"{var:A}|{var:a}|{var::}",
         "[\"e0\", \"e1\", \"e2\", \"e3\", \"e4\", \"e5\", \"e6\", \"e7\", \"e8\", \"e9\", \"e10\", \"e11\", \"e12\", \"e13\", \"e14\", \"e15\", \"e16\", \"e17\", \"e18\", \"e19\", \"e20\", \"e21\", \"e22\", \"e23\", \"e24\", \"e25\", \"e26\", \"e27\", \"e28\", \"e29\", \"e30\", \"e31\", \"e32\", \"e33\", \"e34\", \"e35\", \"e36\", \"e37\", \"e38\", \"e39\", \"e40\", \"e41\", \"e42\", \"e43\", \"e44\", \"e45\", \"e46\", \"e47\", \"e48\", \"e49\", \"e50\"]",
         "{var:A}|{var:a}|{var::}"},
        {"{var:list[]}|{var:list[:]}|{var:list[name]}",
         "{\"list\":[\"e0\",\"e1\",\"e2\",\"e3\",\"e4\",\"e5\",\"e6\",\"e7\",\"e8\",\"e9\",\"e10\",\"e11\"]}",
         "{var:list[]}|{var:list[:]}|{var:list[name]}"},
        {"{var:1/}",
         "[\"e0\",\"e1\",\"e2\",\"e3\",\"e4\",\"e5\",\"e6\",\"e7\",\"e8\",\"e9\"]",
         "{var:1/}"}
    };
    int bad = 0;
    for (const Case &c : cases) bad += run(c);
    std::printf("%d mismatch(es)\n", bad);
    return (bad != 0) ? 1 : 0;
}
