#include <new>
#include "JSON.hpp"
#include "Template.hpp"
#include <cstdio>
#include <cstring>
#include <string>
// A loop variable name that is a prefix of another name captures that name (checkLoopVariable compares only ValueLength units).
// Build: g++ -std=c++17 -march=native -DQENTEM_SSE2=1 -w -I/tmp/wt/hC02/Include repro_1.cpp -o repro_1
using namespace Qentem;
struct Case { const char *tmpl; const char *json; const char *expected; };
static int run(const Case &c) {
    Value<char> v = JSON::Parse(c.json);
    StringStream<char> ss;
    Template::Render(c.tmpl, v, ss);
    std::string actual(ss.First(), ss.Length());
    const bool ok = (actual == c.expected);
    std::printf("template: %s\nvalue   : %s\nactual  : %s\nexpected: %s\n%s\n\n", c.tmpl, c.json, actual.c_str(), c.expected, ok ? "OK" : "MISMATCH");
    return ok ? 0 : 1;
}
int main() {
    const Case cases[] = {
        {"<loop set=\"a\" value=\"row\"><loop set=\"row[cells]\" value=\"r\">{var:row[id]}.{var:r} </loop></loop>",
         "{\"a\":[{\"id\":\"A\",\"cells\":[1,2]},{\"id\":\"B\",\"cells\":[3]}]}",
         "A.1 A.2 B.3 "},
        {"<loop set=\"a\" value=\"v\">{var:v}:{var:version} </loop>",
         "{\"a\":[1,2],\"version\":\"3.0\"}",
         "1:3.0 2:3.0 "},
        {"<loop set=\"a\" value=\"v2\"><loop set=\"b\" value=\"v\">({var:v2},{var:v})</loop></loop>",
         "{\"a\":[1,2],\"b\":[\"p\",\"q\"]}",
         "(1,p)(1,q)(2,p)(2,q)"},
        {"<loop set=\"a\" value=\"item\"><loop set=\"items2\" value=\"x\">{var:x}{var:item}</loop></loop>",
         "{\"a\":[1,2],\"items2\":[\"p\",\"q\"]}",
         "p1q1p2q2"},
        {"<loop set=\"a\" value=\"i\"><if case=\"{var:idx} == 5\">five<else />no</if>,{math:{var:idx}+{var:i}},{if case=\"{var:idx} == 5\" true=\"T\" false=\"F\"} </loop>",
         "{\"a\":[1,2],\"idx\":5}",
         "five,6,T five,7,T "}
    };
    int bad = 0;
    for (const Case &c : cases) bad += run(c);
    std::printf("%d mismatch(es)\n", bad);
    return (bad != 0) ? 1 : 0;
}
