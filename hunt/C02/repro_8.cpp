#include <new>
#include "JSON.hpp"
#include "Template.hpp"
#include <cstdio>
#include <cstring>
#include <string>
// 8-bit offsets/lengths: value=/group= that start 256+ units after '<loop', and names of 256+ units, are mis-read.
// Build: g++ -std=c++17 -march=native -DQENTEM_SSE2=1 -w -I/tmp/wt/hC02/Include repro_8.cpp -o repro_8
using namespace Qentem;
struct Case { const char *tmpl; const char *json; const char *expected; };
static int run(const Case &c) {
    Value<char> v = JSON::Parse(c.json);
    StringStream<char> ss;
    Template::Render(c.tmpl, v, ss);
    std::string actual(ss.First(), ss.Length());
    const bool ok = (actual == c.expected);
    std::printf("template: %s\nvalue   : %s\nactual  : %s\nexpected: %s\n%s\n\n", c.tmpl, c.json, actual.c_str(), c.expected, ok ? "OK" : "MISMATCH");
    return ok ? 0 : 1;
}
int main() {
    const Case cases[] = {
        {"<loop set=\"root[kkkkkkkkkkkkkkkkkkkkkkkkkkkkkkkkkkkkkkkkkkkkkkkkkkkkkkkkkkkkkkkkkkkkkkkkkkkkkkkkkkkkkkkkkkkkkkkkkkkkkkkkkkkkkkkkkkkkkkkkkkkkkkkkkk][mmmmmmmmmmmmmmmmmmmmmmmmmmmmmmmmmmmmmmmmmmmmmmmmmmmmmmmmmmmmmmmmmmmmmmmmmmmmmmmmmmmmmmmmmmmmmmmmmmmmmmmmmmmmmmmmmmmmmmmmmmmmmmmmmm]\" value=\"v\">{var:v},</loop>",
         "{\"root\": {\"kkkkkkkkkkkkkkkkkkkkkkkkkkkkkkkkkkkkkkkkkkkkkkkkkkkkkkkkkkkkkkkkkkkkkkkkkkkkkkkkkkkkkkkkkkkkkkkkkkkkkkkkkkkkkkkkkkkkkkkkkkkkkkkkkk\": {\"mmmmmmmmmmmmmmmmmmmmmmmmmmmmmmmmmmmmmmmmmmmmmmmmmmmmmmmmmmmmmmmmmmmmmmmmmmmmmmmmmmmmmmmmmmmmmmmmmmmmmmmmmmmmmmmmmmmmmmmmmmmmmmmmmm\": [1, 2, 3]}}}",
         "1,2,3,"},
        {"<loop value=\"v\" set=\"root[kkkkkkkkkkkkkkkkkkkkkkkkkkkkkkkkkkkkkkkkkkkkkkkkkkkkkkkkkkkkkkkkkkkkkkkkkkkkkkkkkkkkkkkkkkkkkkkkkkkkkkkkkkkkkkkkkkkkkkkkkkkkkkkkkk][mmmmmmmmmmmmmmmmmmmmmmmmmmmmmmmmmmmmmmmmmmmmmmmmmmmmmmmmmmmmmmmmmmmmmmmmmmmmmmmmmmmmmmmmmmmmmmmmmmmmmmmmmmmmmmmmmmmmmmmmmmmmmmmmmm]\">{var:v},</loop>",
         "{\"root\": {\"kkkkkkkkkkkkkkkkkkkkkkkkkkkkkkkkkkkkkkkkkkkkkkkkkkkkkkkkkkkkkkkkkkkkkkkkkkkkkkkkkkkkkkkkkkkkkkkkkkkkkkkkkkkkkkkkkkkkkkkkkkkkkkkkkk\": {\"mmmmmmmmmmmmmmmmmmmmmmmmmmmmmmmmmmmmmmmmmmmmmmmmmmmmmmmmmmmmmmmmmmmmmmmmmmmmmmmmmmmmmmmmmmmmmmmmmmmmmmmmmmmmmmmmmmmmmmmmmmmmmmmmmm\": [1, 2, 3]}}}",
         "1,2,3,"},
        {"{var:nnnnnnnnnnnnnnnnnnnnnnnnnnnnnnnnnnnnnnnnnnnnnnnnnnnnnnnnnnnnnnnnnnnnnnnnnnnnnnnnnnnnnnnnnnnnnnnnnnnnnnnnnnnnnnnnnnnnnnnnnnnnnnnnnnnnnnnnnnnnnnnnnnnnnnnnnnnnnnnnnnnnnnnnnnnnnnnnnnnnnnnnnnnnnnnnnnnnnnnnnnnnnnnnnnnnnnnnnnnnnnnnnnnnnnnnnnnnnnnnnnnnnnnnnnnnnnn}|{var:pppppppppppppppppppppppppppppppppppppppppppppppppppppppppppppppppppppppppppppppppppppppppppppppppppppppppppppppppppppppppppppppppppppppppppppppppppppppppppppppppppppppppppppppppppppppppppppppppppppppppppppppppppppppppppppppppppppppppppppppppppppppppppppppp}",
         "{\"nnnnnnnnnnnnnnnnnnnnnnnnnnnnnnnnnnnnnnnnnnnnnnnnnnnnnnnnnnnnnnnnnnnnnnnnnnnnnnnnnnnnnnnnnnnnnnnnnnnnnnnnnnnnnnnnnnnnnnnnnnnnnnnnnnnnnnnnnnnnnnnnnnnnnnnnnnnnnnnnnnnnnnnnnnnnnnnnnnnnnnnnnnnnnnnnnnnnnnnnnnnnnnnnnnnnnnnnnnnnnnnnnnnnnnnnnnnnnnnnnnnnnnnnnnnnnnn\": \"ok255\", \"pppppppppppppppppppppppppppppppppppppppppppppppppppppppppppppppppppppppppppppppppppppppppppppppppppppppppppppppppppppppppppppppppppppppppppppppppppppppppppppppppppppppppppppppppppppppppppppppppppppppppppppppppppppppppppppppppppppppppppppppppppppppppppppppp\": \"ok256\"}",
         "ok255|ok256"},
        {"<loop set=\"a\" value=\"zzzzzzzzzzzzzzzzzzzzzzzzzzzzzzzzzzzzzzzzzzzzzzzzzzzzzzzzzzzzzzzzzzzzzzzzzzzzzzzzzzzzzzzzzzzzzzzzzzzzzzzzzzzzzzzzzzzzzzzzzzzzzzzzzzzzzzzzzzzzzzzzzzzzzzzzzzzzzzzzzzzzzzzzzzzzzzzzzzzzzzzzzzzzzzzzzzzzzzzzzzzzzzzzzzzzzzzzzzzzzzzzzzzzzzzzzzzzzzzzzzzzzzzzzzzzzzzz\">{var:zzzzzzzzzzzzzzzzzzzzzzzzzzzzzzzzzzzzzzzzzzzzzzzzzzzzzzzzzzzzzzzzzzzzzzzzzzzzzzzzzzzzzzzzzzzzzzzzzzzzzzzzzzzzzzzzzzzzzzzzzzzzzzzzzzzzzzzzzzzzzzzzzzzzzzzzzzzzzzzzzzzzzzzzzzzzzzzzzzzzzzzzzzzzzzzzzzzzzzzzzzzzzzzzzzzzzzzzzzzzzzzzzzzzzzzzzzzzzzzzzzzzzzzzzzzzzzzz},</loop>",
         "{\"a\":[1,2]}",
         "1,2,"}
    };
    int bad = 0;
    for (const Case &c : cases) bad += run(c);
    std::printf("%d mismatch(es)\n", bad);
    return (bad != 0) ? 1 : 0;
}
