// repro_6: GroupBy of an empty array (vacuously "an array of objects that each contain the key")
// returns false although it produced the correct result, an empty object.
#include <new>
#include <cstdio>
#include "Value.hpp"
#include "JSON.hpp"
using namespace Qentem;
using V = Value<char>;
int main(){
    V v=JSON::Parse("[]"); V g; bool ok=v.GroupBy(g,"y");
    printf("[].GroupBy: ok=%d target is object=%d size=%u (expected ok=1, empty object)\n", ok, g.IsObject(), (unsigned)g.Size());
    return ok?0:1;
}
