// repro_1: Memory::Sort is a first-element-pivot quicksort with unbounded recursion:
// already sorted / reverse sorted / all-equal input of 10^5 elements needs ~5*10^9 comparisons
// (quadratic) and 10^5 nested calls (stack).  A shuffled array of the same size takes ~10 ms.
#include <new>
#include <cstdio>
#include <chrono>
#include "Array.hpp"
using namespace Qentem;
static double now(){ return std::chrono::duration<double>(std::chrono::steady_clock::now().time_since_epoch()).count(); }
int main(int argc,char**argv){ setvbuf(stdout,0,_IONBF,0);
    const int n = 100000; int bad=0;
    const char*names[]={"shuffled","ascending","descending","all-equal"};
    for(int mode=0;mode<4;mode++){
        Array<int> a; for(int i=0;i<n;i++){ int v = mode==0?(int)((i*2654435761u)>>8): mode==1? i : mode==2? n-i : 7; a+=v; }
        double t=now(); a.Sort(true); double e=now()-t;
        bool ok=true; for(int i=0;i+1<n;i++) if(a.First()[i]>a.First()[i+1]) ok=false;
        printf("%-10s n=%d: %.2f s ordered=%d\n",names[mode],n,e,ok);
        if(!ok || e>10.0) bad=1;
    }
    return bad;
}
