// repro_4: a NaN Real value. Mixed-kind comparisons order NaN by kind (any natural/integer < NaN),
// but Real-vs-Real falls through to the raw double operators: for x real, none of x<NaN, x==NaN, x>NaN,
// x<=NaN, x>=NaN holds, NaN==NaN is false, and 3(natural) < NaN, NaN ? 2.0, 2.0 < 3 is not an order.
// Sort then returns non-NaN elements out of order.
#include <new>
#include <cstdio>
#include <cmath>
#include "Value.hpp"
using namespace Qentem;
using V = Value<char>;
int main(){ setvbuf(stdout,0,_IONBF,0);
    int bad=0;
    V nan{(double)NAN}, one{1.0}, nat{3ULL}, two{2.0};
    int n = (one<nan)+(one==nan)+(one>nan);
    printf("1.0 vs NaN: lt=%d eq=%d gt=%d le=%d ge=%d\n", one<nan, one==nan, one>nan, one<=nan, one>=nan);
    printf("NaN vs NaN: lt=%d eq=%d gt=%d le=%d ge=%d\n", nan<nan, nan==nan, nan>nan, nan<=nan, nan>=nan);
    printf("3u  vs NaN: lt=%d eq=%d gt=%d\n", nat<nan, nat==nan, nat>nan);
    if(n!=1) { printf("DEFECT: trichotomy fails for 1.0 vs NaN\n"); bad=1; }
    if((nan<nan)+(nan==nan)+(nan>nan)!=1) { printf("DEFECT: trichotomy fails for NaN vs NaN\n"); bad=1; }
    V arr; arr+=V{(double)NAN}; arr+=V{3ULL}; arr+=V{2.0};
    arr.Sort(true);
    const V*a=arr.GetArray()->First();
    printf("sorted [NaN,3u,2.0] ascending -> ");
    for(int i=0;i<3;i++) printf("%g ", a[i].GetNumber()); printf("\n");
    for(int i=0;i<3;i++) for(int j=i+1;j<3;j++) if(a[j]<a[i]) { printf("DEFECT: element %d < element %d after ascending Sort\n", j, i); bad=1; }
    return bad;
}
