// repro_3: Value::GroupBy resets the target before it reads the source. When the target is the source
// itself the source array is destroyed ("source unchanged" violated, returns false); when the target is
// an ancestor of the source (v["list"].GroupBy(v, ...)) the source is freed and then read: heap-use-after-free.
#include <new>
#include <cstdio>
#include <string>
#include "Value.hpp"
#include "JSON.hpp"
#include "StringStream.hpp"
using namespace Qentem;
using V = Value<char>;
static std::string js(const V&v){ if(v.IsUndefined()) return "undefined"; StringStream<char> ss; v.Stringify(ss); return std::string(ss.First(), ss.Length()); }
int main(){ setvbuf(stdout,0,_IONBF,0);
    int bad=0;
    { V v=JSON::Parse(R"([{"y":1,"m":2},{"m":5,"y":1}])"); bool ok=v.GroupBy(v,"y");
      printf("v.GroupBy(v): ok=%d v=%s (expected {\"1\":[{\"m\":2},{\"m\":5}])\n",ok,js(v).c_str());
      if(!ok || js(v)!=R"({"1":[{"m":2},{"m":5}]})") bad=1; }
    { V v=JSON::Parse(R"({"list":[{"y":1,"m":2},{"m":5,"y":1}]})"); bool ok=v["list"].GroupBy(v,"y");   // ASan: heap-use-after-free
      printf("v[list].GroupBy(v): ok=%d v=%s\n",ok,js(v).c_str());
      if(!ok || js(v)!=R"({"1":[{"m":2},{"m":5}]})") bad=1; }
    return bad;
}
