// repro_2: Value::GroupBy that fails part-way (a later record lacks the key / is not an object /
// has a non-scalar key value) returns false but leaves the groups built so far in the target.
// A failed GroupBy on a non-array source, by contrast, leaves the target untouched.
#include <new>
#include <cstdio>
#include <string>
#include "Value.hpp"
#include "JSON.hpp"
#include "StringStream.hpp"
using namespace Qentem;
using V = Value<char>;
static std::string js(const V&v){ if(v.IsUndefined()) return "undefined"; StringStream<char> ss; v.Stringify(ss); return std::string(ss.First(), ss.Length()); }
int main(){
    int bad=0;
    const char* srcs[]={ R"([{"y":1,"m":2},{"m":5}])", R"([{"y":1,"m":2},5])", R"([{"y":1,"m":2},{"y":{"a":1}}])" };
    for(const char*s:srcs){
        V v=JSON::Parse(s); V g; bool ok=v.GroupBy(g,"y");
        printf("source %s -> ok=%d target=%s\n", s, ok, js(g).c_str());
        if(ok) bad=1;                                   // must fail
        if(!g.IsUndefined() && g.Size()!=0) { bad=1; printf("  DEFECT: failed GroupBy left a partial result\n"); }
    }
    return bad;
}
