// repro_5: String<char>/StringView<char> compare code units as (signed) char: every unit >= 0x80
// sorts before NUL and ASCII. The same text compares the other way round as char16_t/char32_t, and
// UTF-8 no longer sorts in code-point order ("é" < "z" < ... but also "é" < "A" and "é" < "\0").
#include <new>
#include <cstdio>
#include "String.hpp"
#include "StringView.hpp"
#include "Array.hpp"
using namespace Qentem;
int main(){
    int bad=0;
    String<char> hi("\x80"), a("a"), e("\xC3\xA9"), z("z");
    String<char16_t> e16(u"\u00E9"), z16(u"z");
    printf("char   : \"\\x80\" < \"a\" = %d (by code unit 0x80 > 0x61: expected 0)\n", hi<a);
    printf("char   : \"é\" < \"z\" = %d ; char16_t: u\"é\" < u\"z\" = %d (expected equal answers)\n", e<z, e16<z16);
    if(hi<a) bad=1;
    if((e<z)!=(e16<z16)) bad=1;
    Array<String<char>> arr; arr+=String<char>("z"); arr+=String<char>("\xC3\xA9"); arr+=String<char>("a"); arr.Sort(true);
    printf("sorted {z, é, a} ascending: %s %s %s (code-unit order: a z é)\n", arr.First()[0].First(), arr.First()[1].First(), arr.First()[2].First());
    if(!(arr.First()[0]=="a")) bad=1;
    return bad;
}
