// C20 (malformed input, outside the strict quantifier): the low half of a surrogate pair is not validated, and a lone
// low surrogate is encoded. "\uD83D\u0041" decodes to U+1F441 (the 'A' named by \u0041 disappears),
// "\uD83D\uD83D" to U+1F43D, "\uDC00" to the ill-formed UTF-8 ED B0 80.
#include <new>
#include <cstdlib>
#include <cstdio>
#include <cstring>
#include <string>
#include "JSON.hpp"
using namespace Qentem;
static int probe(const std::string &t) {
    char *b = (char *)malloc(t.size());
    memcpy(b, t.data(), t.size());
    Value<char> v = JSON::Parse(b, SizeT(t.size()));
    free(b);
    printf("%-22s -> ", t.c_str());
    if (v.IsUndefined()) { printf("rejected (ok)\n"); return 0; }
    const String<char> *s = v[0].GetString();
    for (SizeT i = 0; (s != nullptr) && (i < s->Length()); i++) printf("%02x ", (unsigned char)s->First()[i]);
    printf(" ACCEPTED\n");
    return 1;
}
int main() {
    int bad = 0;
    bad += probe("[\"\\uD83D\\u0041\"]");
    bad += probe("[\"\\uD83D\\uD83D\"]");
    bad += probe("[\"\\uDC00\"]");
    return bad ? 1 : 0;
}
