// C20: JSON::Parse(stream, ...) never clears its scratch stream. A parse that fails after an escape leaves the
// decoded prefix in it, and the next parse through the same stream (the usage in Tests/JSONTest.hpp) decodes
// "\u0041" to "ab\xC3\xA9A" instead of "A".
#include <new>
#include <cstdlib>
#include <cstdio>
#include <cstring>
#include <string>
#include "JSON.hpp"
using namespace Qentem;
static Value<char> parse(StringStream<char> &ss, const std::string &t) {
    char *b = (char *)malloc(t.size());
    memcpy(b, t.data(), t.size());
    Value<char> v = JSON::Parse(ss, b, SizeT(t.size()));
    free(b);
    return v;
}
int main() {
    StringStream<char> ss;
    Value<char> bad = parse(ss, "[\"ab\\u00e9\\q\"]"); // invalid escape \q: rejected (correct)
    printf("1st parse rejected=%d, scratch stream length afterwards=%u (required 0)\n", int(bad.IsUndefined()),
           unsigned(ss.Length()));
    Value<char> v = parse(ss, "[\"\\u0041\"]");
    const String<char> *s = v[0].GetString();
    printf("2nd parse of [\"\\u0041\"]: \"%.*s\" (required \"A\")\n", s ? int(s->Length()) : 0, s ? s->First() : "");
    return (s != nullptr && s->Length() == 1 && s->First()[0] == 'A') ? 0 : 1;
}
