// C03: the echo of an unresolved {var:...} tag whose name is 256 units or longer is not (fully) escaped,
// and a 257-unit name is resolved as its FIRST unit only (name length is taken modulo 256).
#include <new>
#include <cstdlib>
#include <cstdio>
#include <cstring>
#include <string>
#include "JSON.hpp"
#include "Template.hpp"
using namespace Qentem;
static std::string render(const std::string &t, const Value<char> &v) {
    char *b = (char *)malloc(t.size()); // exact-size buffer
    memcpy(b, t.data(), t.size());
    StringStream<char> ss;
    Template::Render(b, SizeT(t.size()), v, ss);
    free(b);
    return std::string(ss.First(), ss.Length());
}
static size_t count(const std::string &s, char c) { size_t n = 0; for (char x : s) n += (x == c); return n; }
int main() {
    Value<char> v;
    v["x"] = "VAL";
    int bad = 0;
    for (int n : {255, 256, 257, 300, 513}) {
        const std::string tag = "{var:" + std::string(size_t(n), '<') + "}";
        const std::string out = render(tag, v);
        const size_t raw = count(out, '<');
        printf("name of %d '<': %zu raw '<' in the output (required 0)  head=%.24s\n", n, raw, out.c_str());
        bad += (raw != 0);
    }
    // wrong variable: {var:x<<<...<} (257 units) prints the value of "x"
    const std::string out = render("{var:x" + std::string(256, '<') + "}", v);
    printf("{var:x + 256 '<'}: head=%.12s (required: the escaped echo of the tag, not VAL)\n", out.c_str());
    bad += (out.compare(0, 3, "VAL") == 0);
    return bad ? 1 : 0;
}
