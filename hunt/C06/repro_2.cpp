// Defect 2: after a high-surrogate escape \uD800-\uDBFF, UnEscape() skips the next two units WITHOUT checking that
// they are `\u`, and takes the following four hex digits as the low half WITHOUT checking DC00-DFFF.
//  (a) text that is not JSON is accepted:      ["\ud83d",1234"]   ["\ud83d"]1234"]
//  (b) RFC 8259 documents get a wrong value:   ["\ud83d\u0041"] -> U+1F441, ["\ud83dabcdef"] -> U+1F5EF,
//                                              ["\ud83d\\abcd"] -> U+1F7CD, ["\ud83d\"0041"] -> U+1F441
//  (c) RFC 8259 documents are rejected:        ["\ud83d"]  ["\ud83d","0041"]  ["\ud83dabc"]
#include "repro_common.hpp"

template <typename C>
static int check(const char *name) {
    int bad = 0;
    // (a) must be Undefined
    struct { const char *t; size_t n; } invalid[] = { {LIT("[\"\\ud83d\",1234\"]")}, {LIT("[\"\\ud83d\"]1234\"]")}, {LIT("{\"\\ud83d\":1234\"}")} };
    for (auto &c : invalid) {
        auto v = parse_ascii<C>(c.t, c.n);
        if (!v.IsUndefined()) { printf("FAIL %s: not JSON, accepted: %s -> %s\n", name, c.t, show(v).c_str()); bad = 1; }
    }
    // (b) the six units after the high surrogate are ordinary text: the decoded string must keep them
    //     (or the document may be refused because of the lone surrogate), but never fold them into one code point.
    struct { const char *t; size_t n; unsigned tail; } wrong[] = {
        {LIT("[\"\\ud83d\\u0041\"]"), 0x41}, {LIT("[\"\\ud83dabcdef\"]"), 0x66}, {LIT("[\"\\ud83d\\\\abcd\"]"), 0x64},
        {LIT("[\"\\ud83d\\\"0041\"]"), 0x31}, {LIT("[\"\\ud83d\\ud83d\"]"), 0},
    };
    for (auto &c : wrong) {
        auto v = parse_ascii<C>(c.t, c.n);
        if (v.IsUndefined()) continue; // a strict parser may refuse lone surrogates
        const auto *s = v.GetArray()->First()[0].GetString();
        const unsigned last = static_cast<unsigned>(static_cast<typename std::make_unsigned<C>::type>(s->First()[s->Length() - 1]));
        const bool folded = (c.tail != 0) ? (last != c.tail) : (s->Length() < ((sizeof(C) == 1) ? 6U : 2U));
        if (folded) { printf("FAIL %s: wrong value: %s -> units %s\n", name, c.t, first_string_units(v).c_str()); bad = 1; }
    }
    // (c) reported only (python3 json / the RFC grammar accept these; refusing lone surrogates is defensible).
    struct { const char *t; size_t n; } lone[] = { {LIT("[\"\\ud83d\"]")}, {LIT("[\"\\ud83d\",\"0041\"]")}, {LIT("[\"\\ud83dabc\"]")} };
    for (auto &c : lone) {
        auto v = parse_ascii<C>(c.t, c.n);
        printf("info %s: %s -> %s\n", name, c.t, show(v).c_str());
    }
    return bad;
}

int main() {
    int bad = 0;
    bad |= check<char>("char");
    bad |= check<char16_t>("char16_t");
    bad |= check<char32_t>("char32_t");
    puts(bad ? "repro_2: DEFECT PRESENT" : "repro_2: ok");
    return bad;
}
