// Defect 3: raw control characters U+0000-U+001F inside a string (value or key) are accepted, except \t \n \r.
// RFC 8259 section 7: unescaped = %x20-21 / %x23-5B / %x5D-10FFFF, so all 32 must make the document Undefined.
#include "repro_common.hpp"

template <typename C>
static int check(const char *name) {
    int bad = 0;
    for (unsigned c = 0; c < 0x20; c++) {
        const unsigned doc1[] = {'[', '"', 'a', c, 'b', '"', ']'};
        const unsigned doc2[] = {'{', '"', c, '"', ':', '1', '}'};
        auto v1 = parse_units<C>(doc1, 7);
        auto v2 = parse_units<C>(doc2, 7);
        if (!v1.IsUndefined()) { printf("FAIL %s: [\"a<%02X>b\"] accepted as %s\n", name, c, show(v1).c_str()); bad = 1; }
        if (!v2.IsUndefined()) { printf("FAIL %s: {\"<%02X>\":1} accepted as %s\n", name, c, show(v2).c_str()); bad = 1; }
    }
    return bad;
}

int main() {
    int bad = 0;
    bad |= check<char>("char");
    bad |= check<char16_t>("char16_t");
    bad |= check<char32_t>("char32_t");
    puts(bad ? "repro_3: DEFECT PRESENT" : "repro_3: ok");
    return bad;
}
