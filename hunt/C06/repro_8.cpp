// Defect 8: the scratch stream is left non-empty when a string fails to un-escape (every `return 0` in
// JSONUtils::UnEscape after something was written, and the unterminated-string path). With the public overload
// JSON::Parse(stream, content, length) and a stream that is reused between calls (exactly what Tests/JSONTest.hpp does),
// the next, perfectly valid document gets the left-over units prepended to its first string:
//   Parse(stream, ["a\n\x"]) -> Undefined (correct), then Parse(stream, ["b"]) -> ["a\nb"]  (required: ["b"]).
#include "repro_common.hpp"

template <typename C>
static Qentem::Value<C> parse_with(Qentem::StringStream<C> &stream, const char *t, size_t n) {
    C *buf = static_cast<C *>(malloc(n * sizeof(C)));
    for (size_t i = 0; i < n; i++) buf[i] = static_cast<C>(static_cast<unsigned char>(t[i]));
    Qentem::Value<C> v = Qentem::JSON::Parse(stream, static_cast<const C *>(buf), static_cast<Qentem::SizeT>(n));
    free(buf);
    return v;
}

template <typename C>
static int check(const char *name) {
    int bad = 0;
    const char *poison[] = {"[\"a\\n\\x\"]", "[\"a\\n", "[\"a\\u00e9\\u12\"]", "{\"k\\t\\", "[\"a\\tb\nc\"]"};
    for (const char *p : poison) {
        Qentem::StringStream<C> stream;
        auto v1 = parse_with<C>(stream, p, strlen(p));
        const unsigned left_over = unsigned(stream.Length());
        auto v2 = parse_with<C>(stream, LIT("[\"b\",{\"c\":\"d\"}]"));
        const std::string got = show(v2);
        if (!v1.IsUndefined() || got != "[\"b\",{\"c\":\"d\"}]") {
            printf("FAIL %s: after %s (-> %s, %u units left in the stream) the document [\"b\",{\"c\":\"d\"}] parses as %s\n", name, printable(p, strlen(p)).c_str(),
                   show(v1).c_str(), left_over, got.c_str());
            bad = 1;
        }
    }
    return bad;
}

int main() {
    int bad = 0;
    bad |= check<char>("char");
    bad |= check<char16_t>("char16_t");
    bad |= check<char32_t>("char32_t");
    puts(bad ? "repro_8: DEFECT PRESENT" : "repro_8: ok");
    return bad;
}
