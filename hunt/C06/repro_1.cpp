// Defect 1: a NUL unit after true / false / null makes the literal matcher walk past the terminator of the
// library's own literal ("true", "false", "null"): out-of-bounds read of static storage (ASan:
// global-buffer-overflow at JSON.hpp:245-250 / 262-267 / 279-284), and the text `[true<NUL>]`, which is not
// JSON, is accepted as [true].
// Build: clang++ -std=c++17 -march=native -DQENTEM_SSE2=1 -w -g -fsanitize=address,undefined
//        -fno-sanitize-recover=all -I../Include repro_1.cpp
#include "repro_common.hpp"

template <typename C>
static int check(const char *name) {
    int bad = 0;
    struct { const char *t; size_t n; } cases[] = {
        {LIT("[true\0]")}, {LIT("[false\0]")}, {LIT("[null\0]")}, {LIT("{\"a\":true\0}")}, {LIT("true\0")},
        {LIT("[null\0\0\0\0\0\0\0\0]")},
        // Without a sanitizer the outcome depends on what the linker placed behind the literal; when the three
        // literals are adjacent ("true\0null\0false\0" in any order) one of these is accepted as a single literal:
        {LIT("[true\0null]")}, {LIT("[true\0false]")}, {LIT("[null\0true]")}, {LIT("[null\0false]")}, {LIT("[false\0true]")}, {LIT("[false\0null]")},
        {LIT("[true\0null\0false]")}, {LIT("[true\0false\0null]")}, {LIT("[null\0true\0false]")}, {LIT("[null\0false\0true]")},
        {LIT("[false\0true\0null]")}, {LIT("[false\0null\0true]")},
    };
    for (auto &c : cases) {
        auto v = parse_ascii<C>(c.t, c.n);
        if (!v.IsUndefined()) {
            printf("FAIL %s: %s  accepted as %s (required: Undefined)\n", name, printable(c.t, c.n).c_str(), show(v).c_str());
            bad = 1;
        }
    }
    return bad;
}

int main() {
    int bad = 0;
    bad |= check<char>("char");
    bad |= check<char16_t>("char16_t");
    bad |= check<char32_t>("char32_t");
    puts(bad ? "repro_1: DEFECT PRESENT" : "repro_1: ok");
    return bad;
}
