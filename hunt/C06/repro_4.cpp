// Defect 4: the escape `\U` (capital U) is accepted as if it were `\u`. RFC 8259 section 7 has only %x75 (u).
#include "repro_common.hpp"

template <typename C>
static int check(const char *name) {
    int bad = 0;
    struct { const char *t; size_t n; } cases[] = { {LIT("[\"\\U0041\"]")}, {LIT("{\"\\U0041\":1}")}, {LIT("[\"\\UD83D\\UDE00\"]")}, {LIT("[\"\\ud83d\\UDE00\"]")} };
    for (auto &c : cases) {
        auto v = parse_ascii<C>(c.t, c.n);
        if (!v.IsUndefined()) { printf("FAIL %s: %s accepted as %s (required: Undefined)\n", name, c.t, show(v).c_str()); bad = 1; }
    }
    return bad;
}

int main() {
    int bad = 0;
    bad |= check<char>("char");
    bad |= check<char16_t>("char16_t");
    bad |= check<char32_t>("char32_t");
    puts(bad ? "repro_4: DEFECT PRESENT" : "repro_4: ok");
    return bad;
}
