// Defect 6: unbounded recursion. parseValue -> parseArray/parseObject -> parseValue recurse once per nesting level
// with no depth limit, so a small input made of '[' (50 KB with -O2 and an 8 MB stack; ~10 KB under ASan)
// overflows the stack: SIGSEGV / ASan stack-overflow instead of a result. The well-formed document
// "[[[[...]]]]" crashes the same way (also in ~Value()).
#include "repro_common.hpp"
#include <sys/wait.h>
#include <unistd.h>

static int run_child(size_t depth, bool closed) {
    fflush(stdout);
    pid_t pid = fork();
    if (pid == 0) {
        size_t n = closed ? 2 * depth : depth;
        char  *b = static_cast<char *>(malloc(n));
        memset(b, '[', depth);
        if (closed) memset(b + depth, ']', depth);
        {
            Qentem::Value<char> v = Qentem::JSON::Parse(static_cast<const char *>(b), static_cast<Qentem::SizeT>(n));
            printf("depth %zu %s: parsed, undefined=%d\n", depth, closed ? "closed" : "open", int(v.IsUndefined()));
            fflush(stdout);
        }
        free(b);
        _exit(0);
    }
    int status = 0;
    waitpid(pid, &status, 0);
    if (WIFEXITED(status) && WEXITSTATUS(status) == 0) return 0;
    printf("FAIL depth %zu %s: child %s %d\n", depth, closed ? "closed" : "open", WIFSIGNALED(status) ? "killed by signal" : "exit code",
           WIFSIGNALED(status) ? WTERMSIG(status) : WEXITSTATUS(status));
    return 1;
}

int main() {
    int bad = 0;
    bad |= run_child(1000000, false); // 1 MB of '['      : must be Undefined, not a crash
    bad |= run_child(1000000, true);  // 1M-deep valid doc : a value or Undefined (depth limit), not a crash
    puts(bad ? "repro_6: DEFECT PRESENT" : "repro_6: ok");
    return bad;
}
