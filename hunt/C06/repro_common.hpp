// Shared helpers for the repro programs (not part of the library).
#ifndef REPRO_COMMON_HPP
#define REPRO_COMMON_HPP
#include <new>
#include <cstdio>
#include <cstdlib>
#include <cstring>
#include <string>
#include <type_traits>
#include "JSON.hpp"

// Parses `n` code units given as unsigned values, from an exact-size heap buffer (so that any
// read outside [content, content+length) is seen by AddressSanitizer).
template <typename C>
static Qentem::Value<C> parse_units(const unsigned *units, size_t n) {
    C *buf = static_cast<C *>(malloc(n ? n * sizeof(C) : 1));
    for (size_t i = 0; i < n; i++) buf[i] = static_cast<C>(units[i]);
    Qentem::Value<C> v = Qentem::JSON::Parse(static_cast<const C *>(buf), static_cast<Qentem::SizeT>(n));
    free(buf);
    return v;
}

template <typename C>
static Qentem::Value<C> parse_ascii(const char *text, size_t n) {
    unsigned *u = static_cast<unsigned *>(malloc((n ? n : 1) * sizeof(unsigned)));
    for (size_t i = 0; i < n; i++) u[i] = static_cast<unsigned char>(text[i]);
    Qentem::Value<C> v = parse_units<C>(u, n);
    free(u);
    return v;
}

// "U+.." list of the code units of the first array item, if it is a string; "" otherwise.
template <typename C>
static std::string first_string_units(const Qentem::Value<C> &v) {
    std::string out;
    if (v.IsArray() && v.GetArray()->Size() != 0 && v.GetArray()->First()[0].IsString()) {
        const auto *s = v.GetArray()->First()[0].GetString();
        char b[16];
        for (Qentem::SizeT i = 0; i < s->Length(); i++) {
            snprintf(b, sizeof(b), "%X ", static_cast<unsigned>(static_cast<typename std::make_unsigned<C>::type>(s->First()[i])));
            out += b;
        }
    }
    return out;
}

template <typename C>
static std::string show(const Qentem::Value<C> &v) {
    if (v.IsUndefined()) return "Undefined";
    std::string out;
    auto s = v.Stringify();
    char b[16];
    for (Qentem::SizeT i = 0; i < s.Length(); i++) {
        unsigned u = static_cast<unsigned>(static_cast<typename std::make_unsigned<C>::type>(s.First()[i]));
        if (u >= 0x20 && u < 0x7f) out += static_cast<char>(u);
        else { snprintf(b, sizeof(b), "<%X>", u); out += b; }
    }
    return out;
}

static std::string printable(const char *t, size_t n) {
    std::string out; char b[8];
    for (size_t i = 0; i < n; i++) { unsigned char c = static_cast<unsigned char>(t[i]); if (c >= 0x20 && c < 0x7f) out += static_cast<char>(c); else { snprintf(b, sizeof(b), "<%02X>", c); out += b; } }
    return out;
}
#define LIT(s) s, (sizeof(s) - 1)
#endif
