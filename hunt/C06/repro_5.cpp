// Defect 5: numerals outside the RFC 8259 grammar are accepted, because parseValue() hands every other
// token to the general-purpose Digit::StringToNumber(): leading '+', leading '.', a '.' without a following
// digit, and C-style hexadecimal (the sign of a negative hex numeral is even dropped: -0x10 -> 16, 0x -> 0).
// number = [ "-" ] int [ "." 1*DIGIT ] [ ("e"/"E") ["+"/"-"] 1*DIGIT ],  int = "0" / ( %x31-39 *DIGIT )
#include "repro_common.hpp"

template <typename C>
static int check(const char *name) {
    int bad = 0;
    const char *cases[] = {"[+1]", "[+0]", "[+1.5e3]", "[.5]", "[-.5]", "[+.5]", "[5.]", "[0.]", "[-1.]", "[1.e2]", "[0.e1]",
                           "[12345678901234567890123.]", "[0x10]", "[0X1f]", "[0x]", "[-0x10]", "[+0x10]", "{\"a\":.5}", "+1", ".5", "0x10", "5."};
    for (const char *t : cases) {
        auto v = parse_ascii<C>(t, strlen(t));
        if (!v.IsUndefined()) { printf("FAIL %s: %s accepted as %s (required: Undefined)\n", name, t, show(v).c_str()); bad = 1; }
    }
    return bad;
}

int main() {
    int bad = 0;
    bad |= check<char>("char");
    bad |= check<char16_t>("char16_t");
    bad |= check<char32_t>("char32_t");
    puts(bad ? "repro_5: DEFECT PRESENT" : "repro_5: ok");
    return bad;
}
