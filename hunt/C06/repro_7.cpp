// Defect 7: the exponent of a numeral is accumulated in a 32-bit unsigned (Digit::parseExponent) without an overflow
// check, so it wraps modulo 2^32: 1e4294967297 parses as 10, 1e-4294967297 as 0.1, 1e4294967396 as 1e100.
// Every other out-of-range numeral (1e400, 1e-400, 1e99999999999999999999) makes the document Undefined; these
// yield a finite value that the text does not denote.
#include "repro_common.hpp"

int main() {
    int bad = 0;
    const char *cases[] = {"[1e4294967297]", "[1e-4294967297]", "[1e4294967296]", "[5e42949672960]", "[1.5e4294967298]", "[1e4294967396]"};
    for (const char *t : cases) {
        auto v = parse_ascii<char>(t, strlen(t));
        if (v.IsUndefined()) continue;                       // refusing out-of-range numbers is fine
        const double d = v.GetArray()->First()[0].GetDouble();
        const bool neg_exp = (strchr(t, '-') != nullptr);
        const bool ok = neg_exp ? (d == 0.0) : (d > 1.7976931348623157e308); // 0 or +inf would be the IEEE answers
        if (!ok) { printf("FAIL %s -> %s\n", t, show(v).c_str()); bad = 1; }
    }
    puts(bad ? "repro_7: DEFECT PRESENT" : "repro_7: ok");
    return bad;
}
