// Assigning a value from one of its own descendants (or from one of its ancestors): the target is
// reset() before the source is read.
#include <new>
#include <cstdio>
#include <cstring>
#include "Value.hpp"
using namespace Qentem;
using V = Value<char>;
int main(int argc, char **argv) {
    int which = (argc > 1) ? argv[1][0] - '0' : 0;
    if (which == 0) { V v; v["a"]["x"] = 1; v["b"] = 2; v = v["a"]; }                 // model {"x":1}; heap-use-after-free
    if (which == 1) { V v; v["a"]["x"] = 1; v["b"] = 2; v = Memory::Move(v["a"]); }   // model {"x":1}; heap-use-after-free
    if (which == 2) { V v; v += 1; v[1] += 5; v[1] += 6; v = v[1]; }                  // model [5,6];   heap-use-after-free
    if (which == 3) { // ancestor into descendant: silent wrong value, no sanitizer report
        V w; w += 1; w += 2; w[0] = w;
        String<char> s = w.Stringify();
        printf("%s   (model: [[1,2],2])\n", s.First());
        return (strcmp(s.First(), "[[1,2],2]") != 0);
    }
    return 0;
}
