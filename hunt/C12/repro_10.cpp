// SetPointerToValue(nullptr) clears the payload but keeps the kind.
#include <new>
#include <cstdio>
#include "Value.hpp"
using namespace Qentem;
using V = Value<char>;
int main() {
    int bad = 0;
    V n; n = 5; n.SetPointerToValue(nullptr);
    // model: either untouched (5) or Undefined. actual: still a number, but 0
    if (!(n.Type() == ValueType::Undefined) && !(n.GetInt64() == 5)) { printf("5 became %lld of kind %d\n", n.GetInt64(), int(n.Type())); ++bad; }
    V o; o["a"] = 1; o.SetPointerToValue(nullptr);
    if (!(o.Type() == ValueType::Undefined) && (o.GetValue("a", 1) == nullptr)) { printf("{\"a\":1} became %s\n", o.Stringify().First()); ++bad; }
    V s; s = "text"; s.SetPointerToValue(nullptr);
    if (!(s.Type() == ValueType::Undefined) && (s.Length() != 4)) { printf("\"text\" became a string of length %u\n", s.Length()); ++bad; }
    return bad;
}
