#include "common.hpp"
#include <vector>
#include <utility>
#include <random>
enum K { Un, Ob, Ar, St, UI, In, Db, Tr, Fa, Nu };
struct M {
    K k = Un; long long i = 0; unsigned long long u = 0; double d = 0; std::string s;
    std::vector<M> arr; std::vector<std::pair<std::string, M>> obj; bool dirty = false;
    void clear() { *this = M{}; }
    M *find(const std::string &key) { for (auto &p : obj) if (p.first == key) return &p.second; return nullptr; }
};
static void clean(M &m) { m.dirty = false; for (auto &e : m.arr) clean(e); for (auto &p : m.obj) clean(p.second); }
static M copyOf(const M &m) { M c = m; clean(c); return c; }
static std::string dstr(double d) { char b[64]; snprintf(b, 64, "%.15g", d); return b; }
static void ms(const M &m, std::string &o);
static bool defined(const M &m) { return m.k != Un; }
static void msv(const M &m, std::string &o) {
    switch (m.k) {
        case Ob: case Ar: ms(m, o); break;
        case St: o += '"'; o += m.s; o += '"'; break;
        case UI: o += std::to_string(m.u); break;
        case In: o += std::to_string(m.i); break;
        case Db: o += dstr(m.d); break;
        case Tr: o += "true"; break; case Fa: o += "false"; break; case Nu: o += "null"; break;
        default: break;
    }
}
static void ms(const M &m, std::string &o) {
    if (m.k == Ob) { o += '{'; bool f = true; for (auto &p : m.obj) if (defined(p.second)) { if (!f) o += ','; f = false; o += '"'; o += p.first; o += "\":"; msv(p.second, o); } o += '}'; }
    else if (m.k == Ar) { o += '['; bool f = true; for (auto &e : m.arr) if (defined(e)) { if (!f) o += ','; f = false; msv(e, o); } o += ']'; }
}
static std::mt19937_64 rng;
static unsigned R(unsigned n) { return unsigned(rng() % n); }
static const char *KEYS[] = {"a", "b", "c", "d", "e", "", "key-long-long-long-long-long-long-long", "f", "g", "h", "1", "0"};
static const int NK = 12;
static std::vector<std::string> logv;
static void L(const std::string &s) { logv.push_back(s); }
static void die(const char *what, const std::string &a, const std::string &b) {
    printf("MISMATCH %s\n real : %s\n model: %s\nHistory:\n", what, a.c_str(), b.c_str());
    for (auto &s : logv) printf("  %s\n", s.c_str());
    exit(1);
}
// model object merge: right wins, new keys appended
static void mergeObj(M &dst, const M &src, bool mv = false) {
    for (auto &p : src.obj) { M c = mv ? p.second : copyOf(p.second); M *e = dst.find(p.first); if (e) *e = c; else dst.obj.push_back({p.first, c}); }
}
static void toArr(M &m) { if (m.k != Ar) { m.clear(); m.k = Ar; } }
static void toObj(M &m) { if (m.k != Ob) { m.clear(); m.k = Ob; } }
static void assignScalar(V &v, M &m, std::string &d) {
    m.clear();
    switch (R(16)) {
        case 0: { int x = int(R(200)) - 100; v = x; m.k = In; m.i = x; d = "=int " + std::to_string(x); break; }
        case 1: { unsigned x = R(200); v = x; m.k = UI; m.u = x; d = "=unsigned " + std::to_string(x); break; }
        case 2: { long long x = (long long)(rng()); v = x; m.k = In; m.i = x; d = "=ll " + std::to_string(x); break; }
        case 3: { unsigned long long x = rng(); v = x; m.k = UI; m.u = x; d = "=ull " + std::to_string(x); break; }
        case 4: { double x = (int(R(64)) - 32) / 4.0; v = x; m.k = Db; m.d = x; d = "=double " + dstr(x); break; }
        case 5: { v = true; m.k = Tr; d = "=true"; break; }
        case 6: { v = false; m.k = Fa; d = "=false"; break; }
        case 7: { v = nullptr; m.k = Nu; d = "=null"; break; }
        case 8: { const char *s = KEYS[R(NK)]; v = s; m.k = St; m.s = s; d = std::string("=cstr ") + s; break; }
        case 9: { Str s{KEYS[R(NK)]}; m.k = St; m.s = s.First(); v = s; d = "=String& " + m.s; break; }
        case 10: { Str s{KEYS[R(NK)]}; m.k = St; m.s = s.First(); v = Memory::Move(s); d = "=String&& " + m.s; break; }
        case 11: { const char *s = KEYS[R(NK)]; v = SV{s, SizeT(strlen(s))}; m.k = St; m.s = s; d = std::string("=SV ") + s; break; }
        case 12: { short x = short(int(R(200)) - 100); v = x; m.k = In; m.i = x; d = "=short " + std::to_string(x); break; }
        case 13: { unsigned char x = (unsigned char)R(200); v = x; m.k = UI; m.u = x; d = "=uchar " + std::to_string(x); break; }
        case 14: { float x = (int(R(64)) - 32) / 4.0f; v = x; m.k = Db; m.d = x; d = "=float " + dstr(x); break; }
        case 15: { long x = long(R(2000)) - 1000; v = x; m.k = In; m.i = x; d = "=long " + std::to_string(x); break; }
    }
}
static void appendScalar(V &v, M &m, std::string &d) {
    toArr(m); M e;
    switch (R(10)) {
        case 0: { int x = int(R(200)) - 100; v += x; e.k = In; e.i = x; d = "+=int " + std::to_string(x); break; }
        case 1: { unsigned x = R(200); v += x; e.k = UI; e.u = x; d = "+=unsigned " + std::to_string(x); break; }
        case 2: { double x = (int(R(64)) - 32) / 4.0; v += x; e.k = Db; e.d = x; d = "+=double " + dstr(x); break; }
        case 3: { v += true; e.k = Tr; d = "+=true"; break; }
        case 4: { v += false; e.k = Fa; d = "+=false"; break; }
        case 5: { v += nullptr; e.k = Nu; d = "+=null"; break; }
        case 6: { const char *s = KEYS[R(NK)]; v += s; e.k = St; e.s = s; d = std::string("+=cstr ") + s; break; }
        case 7: { Str s{KEYS[R(NK)]}; e.k = St; e.s = s.First(); v += s; d = "+=String& " + e.s; break; }
        case 8: { Str s{KEYS[R(NK)]}; e.k = St; e.s = s.First(); v += Memory::Move(s); d = "+=String&& " + e.s; break; }
        case 9: { const char *s = KEYS[R(NK)]; v += SV{s, SizeT(strlen(s))}; e.k = St; e.s = s; d = std::string("+=SV ") + s; break; }
    }
    m.arr.push_back(e);
}
// pick a random defined descendant (or the root)
static void pick(V *&rv, M *&mv, std::string &path) {
    for (int depth = 0; depth < 4; depth++) {
        if (R(3) == 0) return;
        if (mv->k == Ob) {
            std::vector<int> c; for (int i = 0; i < (int)mv->obj.size(); i++) if (defined(mv->obj[i].second)) c.push_back(i);
            if (c.empty()) return;
            int i = c[R(c.size())]; const std::string &key = mv->obj[i].first;
            V *n = rv->GetValue(key.c_str(), SizeT(key.size()));
            if (n == nullptr) die("pick: GetValue(key) null", path + "/" + key, "");
            rv = n; mv = &mv->obj[i].second; path += "/" + key;
        } else if (mv->k == Ar) {
            std::vector<int> c; for (int i = 0; i < (int)mv->arr.size(); i++) if (defined(mv->arr[i])) c.push_back(i);
            if (c.empty()) return;
            int i = c[R(c.size())];
            V *n = rv->GetValue(SizeT(i));
            if (n == nullptr) die("pick: GetValue(idx) null", path + "/" + std::to_string(i), "");
            rv = n; mv = &mv->arr[i]; path += "/" + std::to_string(i);
        } else return;
    }
}
static void verify(const V &v, const M &m, const std::string &path) {
    K rk;
    switch (v.Type()) { case ValueType::Undefined: rk = Un; break; case ValueType::Object: rk = Ob; break; case ValueType::Array: rk = Ar; break; case ValueType::String: rk = St; break;
        case ValueType::UIntLong: rk = UI; break; case ValueType::IntLong: rk = In; break; case ValueType::Double: rk = Db; break; case ValueType::True: rk = Tr; break; case ValueType::False: rk = Fa; break; case ValueType::Null: rk = Nu; break; default: rk = Un; die("ptr kind", path, ""); }
    if (rk != m.k) die("kind", path + " real=" + std::to_string(rk), std::to_string(m.k));
    switch (m.k) {
        case St: { if (std::string(v.StringStorage(), v.Length()) != m.s) die("string", path, m.s); if (!v.IsString()) die("IsString", path, ""); break; }
        case UI: if (v.GetUInt64() != m.u || !v.IsUInt64() || !v.IsNumber()) die("uint", path + " " + std::to_string(v.GetUInt64()), std::to_string(m.u)); if (v.GetDouble() != double(m.u)) die("uint dbl", path, ""); break;
        case In: if (v.GetInt64() != m.i || !v.IsInt64()) die("int", path + " " + std::to_string(v.GetInt64()), std::to_string(m.i)); if (v.GetDouble() != double(m.i)) die("int dbl", path, ""); break;
        case Db: if (v.GetDouble() != m.d || !v.IsDouble()) die("dbl", path, ""); if (v.GetInt64() != (long long)m.d) die("dbl int", path, ""); break;
        case Tr: { bool b = false; if (!v.SetBool(b) || !b || !v.IsTrue() || v.GetUInt64() != 1) die("true", path, ""); break; }
        case Fa: { bool b = true; if (!v.SetBool(b) || b || !v.IsFalse() || v.GetUInt64() != 0) die("false", path, ""); break; }
        case Nu: { bool b = true; if (!v.SetBool(b) || b || !v.IsNull()) die("null", path, ""); break; }
        case Ar: {
            if (v.Size() != m.arr.size()) die("arr size", path + " " + std::to_string(v.Size()), std::to_string(m.arr.size()));
            for (size_t i = 0; i < m.arr.size(); i++) {
                V *c = v.GetValue(SizeT(i));
                if (!defined(m.arr[i])) { if (c != nullptr) die("arr hole not null", path + "/" + std::to_string(i), ""); continue; }
                if (c == nullptr) die("arr elem null", path + "/" + std::to_string(i), "");
                verify(*c, m.arr[i], path + "/" + std::to_string(i));
                std::string ks = std::to_string(i);
                if (v.GetValue(ks.c_str(), SizeT(ks.size())) != c) die("arr by numeric key", path + "/" + ks, "");
            }
            if (v.GetValue(SizeT(m.arr.size())) != nullptr) die("arr past end", path, "");
            break;
        }
        case Ob: {
            size_t live = m.obj.size();
            if (v.Size() < live) die("obj size < live", path, "");
            if (!m.dirty && v.Size() != live) die("clean obj size", path + " " + std::to_string(v.Size()), std::to_string(live));
            for (size_t i = 0; i < m.obj.size(); i++) {
                const std::string &key = m.obj[i].first;
                V *c = v.GetValue(key.c_str(), SizeT(key.size()));
                if (!defined(m.obj[i].second)) { if (c != nullptr) die("obj undefined member not null", path + "/" + key, ""); }
                else { if (c == nullptr) die("obj member null", path + "/" + key, ""); verify(*c, m.obj[i].second, path + "/" + key); }
                if (!m.dirty) {
                    const Str *k = v.GetKey(SizeT(i));
                    if (k == nullptr || std::string(k->First(), k->Length()) != key) die("GetKey(i)", path + "/" + key, "");
                    if (v.GetValue(SizeT(i)) != c) die("GetValue(i) obj", path + "/" + key, "");
                }
            }
            // keys not in model must be absent; live key order
            for (int q = 0; q < NK; q++) { std::string key = KEYS[q]; bool in = false; for (auto &p : m.obj) if (p.first == key) in = true; if (!in && v.GetValue(key.c_str(), SizeT(key.size())) != nullptr) die("ghost key", path + "/" + key, ""); }
            { // order of live keys via GetKey
                size_t mi = 0;
                for (SizeT s = 0; s < v.Size(); s++) { const Str *k = v.GetKey(s); if (k == nullptr) continue; if (mi >= m.obj.size() || std::string(k->First(), k->Length()) != m.obj[mi].first) die("key order", path, ""); ++mi; }
                if (mi != m.obj.size()) die("key count", path + " " + std::to_string(mi), std::to_string(m.obj.size()));
            }
            break;
        }
        default: break;
    }
}
int main(int argc, char **argv) {
    unsigned long long seed = argc > 1 ? strtoull(argv[1], 0, 10) : 1; int steps = argc > 2 ? atoi(argv[2]) : 300;
    rng.seed(seed);
    const int ND = 3;
    V docs[ND]; M mods[ND];
    for (int step = 0; step < steps; step++) {
        int di = R(ND); V *rv = &docs[di]; M *mv = &mods[di]; std::string path = "doc" + std::to_string(di);
        pick(rv, mv, path);
        int dj = (di + 1 + R(ND - 1)) % ND; V *sv = &docs[dj]; M *sm = &mods[dj]; std::string spath = "doc" + std::to_string(dj);
        pick(sv, sm, spath);
        std::string d; int op = R(30);
        switch (op) {
            case 0: case 1: assignScalar(*rv, *mv, d); break;
            case 2: case 3: case 4: case 5: { // keyed write
                const char *key = KEYS[R(NK)]; toObj(*mv); M *e = mv->find(key); if (!e) { mv->obj.push_back({key, M{}}); e = &mv->obj.back().second; }
                V *c; int how = R(6);
                switch (how) { case 0: c = &(*rv)[key]; break; case 1: { Str s{key}; c = &(*rv)[s]; break; } case 2: c = &(*rv)[Str{key}]; break; case 3: c = &(*rv)[SV{key, SizeT(strlen(key))}]; break; case 4: c = &rv->Get(key, SizeT(strlen(key))); break; default: c = &rv->Get(SV{key, SizeT(strlen(key))}); }
                std::string d2; if (R(4) != 0) { assignScalar(*c, *e, d2); } else { d2 = "(touch)"; }
                d = std::string("[\"") + key + "\"](how " + std::to_string(how) + ") " + d2; break;
            }
            case 6: case 7: case 8: { // indexed write
                if (mv->k == Ob && mv->dirty) { d = "skip idx on dirty obj"; break; }
                SizeT idx; M *e;
                if (mv->k == Ar) { idx = R(unsigned(mv->arr.size()) + 3); if (idx >= mv->arr.size()) mv->arr.resize(idx + 1); e = &mv->arr[idx]; }
                else if (mv->k == Ob && (idx = R(unsigned(mv->obj.size()) + 2)) < mv->obj.size()) { e = &mv->obj[idx].second; }
                else { if (mv->k != Ob) idx = R(4); mv->clear(); mv->k = Ar; mv->arr.resize(idx + 1); e = &mv->arr[idx]; }
                V *c = (R(2) ? &(*rv)[idx] : &(*rv)[int(idx)]);
                std::string d2; if (R(4) != 0) { assignScalar(*c, *e, d2); } else { d2 = "(touch)"; }
                d = "[" + std::to_string(idx) + "] " + d2; break;
            }
            case 9: case 10: case 11: appendScalar(*rv, *mv, d); break;
            case 12: { // += const Value&
                d = "+= const " + spath;
                if (mv->k == Ob && sm->k == Ob) mergeObj(*mv, *sm); else { toArr(*mv); mv->arr.push_back(copyOf(*sm)); }
                *rv += *sv; break;
            }
            case 13: { // += Value&&
                d = "+= move " + spath;
                if (mv->k == Ob && sm->k == Ob) mergeObj(*mv, *sm, true); else { toArr(*mv); mv->arr.push_back(*sm); }
                sm->clear(); *rv += Memory::Move(*sv); break;
            }
            case 14: { // += ArrayT / ObjectT copies
                if (sm->k == Ar) { d = "+= const ArrayT " + spath; toArr(*mv); if (sm->arr.empty()) { M e; e.k = Ar; mv->arr.push_back(e); } else for (auto &e : sm->arr) mv->arr.push_back(copyOf(e));
                    if (R(2)) *rv += *(const_cast<const V *>(sv)->GetArray()); else { V::ArrayT a{*(const_cast<const V *>(sv)->GetArray())}; *rv += Memory::Move(a); } }
                else if (sm->k == Ob) { d = "+= const ObjectT " + spath; if (mv->k == Ob) mergeObj(*mv, *sm); else { toArr(*mv); mv->arr.push_back(copyOf(*sm)); }
                    if (R(2)) *rv += *(const_cast<const V *>(sv)->GetObject()); else { V::ObjectT o{*(const_cast<const V *>(sv)->GetObject())}; *rv += Memory::Move(o); } }
                else d = "skip";
                break;
            }
            case 15: case 16: { // Merge
                bool mv_ = (op == 16); d = std::string("Merge ") + (mv_ ? "move " : "const ") + spath;
                if (mv->k == Un) { mv->clear(); mv->k = Ar; }
                if (mv->k == Ar && sm->k == Ar) { for (auto &e : sm->arr) if (defined(e)) mv->arr.push_back(mv_ ? e : copyOf(e)); }
                else if (mv->k == Ob && sm->k == Ob) mergeObj(*mv, *sm, mv_);
                if (mv_) { sm->clear(); rv->Merge(Memory::Move(*sv)); } else rv->Merge(*sv);
                break;
            }
            case 17: case 18: case 19: { // Remove key
                const char *key = KEYS[R(NK)];
                if (mv->k == Ob && !mv->obj.empty() && R(3)) key = mv->obj[R(mv->obj.size())].first.c_str();
                std::string ks = key; int how = R(3);
                if (how == 0) rv->Remove(ks.c_str()); else if (how == 1) rv->Remove(Str{ks.c_str()}); else rv->Remove(ks.c_str(), SizeT(ks.size()));
                if (mv->k == Ob) for (size_t i = 0; i < mv->obj.size(); i++) if (mv->obj[i].first == ks) { mv->obj.erase(mv->obj.begin() + i); mv->dirty = true; break; }
                d = "Remove(" + ks + ") how " + std::to_string(how); break;
            }
            case 20: { // RemoveIndex
                if (mv->k == Ar) { SizeT idx = R(unsigned(mv->arr.size()) + 2); rv->RemoveIndex(idx); if (idx < mv->arr.size()) mv->arr[idx].clear(); d = "RemoveIndex " + std::to_string(idx); }
                else if (mv->k == Ob && !mv->dirty) { SizeT idx = R(unsigned(mv->obj.size()) + 2); rv->RemoveIndex(idx); if (idx < mv->obj.size()) { mv->obj.erase(mv->obj.begin() + idx); mv->dirty = true; } d = "RemoveIndex(obj) " + std::to_string(idx); }
                else if (mv->k != Ob) { rv->RemoveIndex(SizeT(R(3))); d = "RemoveIndex on scalar"; } else d = "skip";
                break;
            }
            case 21: rv->Reset(); mv->clear(); d = "Reset"; break;
            case 22: case 23: { // Compress
                rv->Compress(); d = "Compress";
                struct C { static void run(M &m) { if (m.k == Ar) { std::vector<M> n; for (auto &e : m.arr) if (defined(e)) n.push_back(e); m.arr.swap(n); for (auto &e : m.arr) if (e.k == Ar || e.k == Ob) run(e); }
                    else if (m.k == Ob) { m.dirty = false; for (auto &p : m.obj) if (p.second.k == Ar || p.second.k == Ob) run(p.second); } } };
                C::run(*mv); break;
            }
            case 24: *rv = *sv; *mv = copyOf(*sm); d = "= copy " + spath; break;
            case 25: *rv = Memory::Move(*sv); *mv = *sm; sm->clear(); d = "= move " + spath; break;
            case 26: { // Insert
                const char *key = KEYS[R(NK)]; V tmp{*sv}; toObj(*mv); M *e = mv->find(key); if (!e) { mv->obj.push_back({key, M{}}); e = &mv->obj.back().second; } *e = copyOf(*sm);
                rv->Insert(SV{key, SizeT(strlen(key))}, Memory::Move(tmp)); if (!tmp.IsUndefined()) die("Insert moved-from not undefined", path, ""); d = std::string("Insert ") + key + " <- " + spath; break;
            }
            case 27: { // copy/move construct whole doc through temporaries
                V tmp{*sv}; V tmp2{Memory::Move(tmp)}; if (tmp.Type() != ValueType::Undefined) die("moved-from ctor", spath, "");
                *rv = Memory::Move(tmp2); if (tmp2.Type() != ValueType::Undefined) die("moved-from assign", spath, ""); *mv = copyOf(*sm); d = "= via copy-ctor/move-ctor " + spath; break;
            }
            case 28: { // = ArrayT / ObjectT
                if (sm->k == Ar) { if (R(2)) *rv = *(const_cast<const V *>(sv)->GetArray()); else { V::ArrayT a{*(const_cast<const V *>(sv)->GetArray())}; *rv = Memory::Move(a); } *mv = copyOf(*sm); d = "= ArrayT " + spath; }
                else if (sm->k == Ob) { if (R(2)) *rv = *(const_cast<const V *>(sv)->GetObject()); else { V::ObjectT o{*(const_cast<const V *>(sv)->GetObject())}; *rv = Memory::Move(o); } *mv = copyOf(*sm); d = "= ObjectT " + spath; }
                else d = "skip";
                break;
            }
            default: { // construct from kind ctor
                V t{ValueType::Array, SizeT(R(5))}; V o{ValueType::Object, SizeT(R(5))};
                if (R(2)) { *rv = Memory::Move(t); mv->clear(); mv->k = Ar; d = "= Value(Array,n)"; } else { *rv = Memory::Move(o); mv->clear(); mv->k = Ob; d = "= Value(Object,n)"; }
            }
        }
        L(std::to_string(step) + ": " + path + " " + d);
        for (int k = 0; k < ND; k++) {
            std::string e; ms(mods[k], e); std::string a = S(docs[k]);
            if (a != e) die(("stringify doc" + std::to_string(k)).c_str(), a, e);
            verify(docs[k], mods[k], "doc" + std::to_string(k));
        }
    }
    return 0;
}
