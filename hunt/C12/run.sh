#!/bin/sh
# usage: ./run.sh repro_N.cpp [variant]      (run from /tmp/wt/hC12/hunt)
f=$1; o=/tmp/${f%.cpp}.bin
clang++ -std=c++17 -march=native -DQENTEM_SSE2=1 -w -g -fsanitize=address,undefined -fno-sanitize-recover=all -I/tmp/wt/hC12/Include $f -o $o || exit 99
ASAN_OPTIONS=detect_leaks=1 timeout 20 $o $2
echo "exit code: $?"
