// GetValue(key, length) on an array accepts any bytes as an index.
#include <new>
#include <cstdio>
#include "Value.hpp"
using namespace Qentem;
using V = Value<char>;
int main() {
    V v; for (int i = 0; i < 60; i++) { v += i; }
    int bad = 0;
    const struct { const char *k; SizeT n; } keys[] = {{"a", 1}, {"", 0}, {"4294967297", 10}, {"/9", 2}, {"1x", 2}};
    for (const auto &key : keys) {
        const V *p = v.GetValue(key.k, key.n);
        if (p != nullptr) { printf("GetValue(\"%s\") -> element %lld (model: nullptr)\n", key.k, p->GetInt64()); ++bad; }
    }
    return bad; // actual: "a"->49, ""->0, "4294967297"->1, "/9"->... 
}
