// operator=(const Char_T *) releases the old string before it reads the new one.
#include <new>
#include <cstdio>
#include "Value.hpp"
using namespace Qentem;
using V = Value<char>;
int main() {
    V v; v = "hello world hello world hello world";
    v = v.StringStorage();      // model: unchanged; actual: heap-use-after-free (Count() on freed storage)
    // same with a suffix: v = v.StringStorage() + 6;
    return (v.Length() != 35);
}
