// operator[] / Get() on a key that ALREADY EXISTS reallocates a full table (HArray::Get expands
// before it looks the key up), so a Value* returned by GetValue() dies on a plain lookup.
#include <new>
#include <cstdio>
#include "Value.hpp"
using namespace Qentem;
using V = Value<char>;
int main(int argc, char **argv) {
    int which = (argc > 1) ? argv[1][0] - '0' : 0;
    const char *s = "a string long enough to live on the heap ......";
    if (which == 0) { // both members exist; nothing has to be inserted
        V w; w["a"] = 1; w["b"] = s;                   // 2 members, capacity 2
        const V *b = w.GetValue("b", 1);               // no vivification
        w["a"] = *b;                                   // model {"a":s,"b":s}; heap-use-after-free
    }
    if (which == 1) { V v; v["a"] = 1; v["c"] = v["b"]; }   // copy a missing member: model {"a":1}; heap-use-after-free
    if (which == 2) { V v; v["a"] = 1; v["a"] += v["b"]; }  // heap-use-after-free
    if (which == 3) { V v; v += s; v += 2; v[2] = v[0]; }   // array flavour: model [s,2,s]; heap-use-after-free
    return 0;
}
