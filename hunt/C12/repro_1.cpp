// Scalar / string constructors leave the size+capacity words of the shared storage uninitialised;
// reset() of a scalar kind only clears the first 8 bytes, so the first container operation on such
// a value runs on a garbage size / capacity.
#include <new>
#include <cstring>
#include <cstdio>
#include "Value.hpp"
using namespace Qentem;
using V = Value<char>;
int main(int argc, char **argv) {
    int which = (argc > 1) ? argv[1][0] - '0' : 0;
    alignas(V) unsigned char buf[sizeof(V)];
    memset(buf, 0xEE, sizeof(buf)); // whatever the memory held before the object was created
    if (which == 0) { V *v = new (buf) V{5};          (*v)["a"] = 1;              printf("%u\n", v->Size()); v->~V(); }
    if (which == 1) { V *v = new (buf) V{2.5};        (*v) += 1;                  printf("%u\n", v->Size()); v->~V(); }
    if (which == 2) { V o; o["k"] = 1; V *v = new (buf) V{7u}; *v = o;            printf("%u\n", v->Size()); v->~V(); }
    if (which == 3) { V *v = new (buf) V{"abc", 3};   *v = 5; (*v)[0] = 1;        printf("%u\n", v->Size()); v->~V(); }
    return 0; // model: sizes 1,1,1,1 ; actual: sanitizer error / crash in every variant
}
