#include <new>
#include <cstring>
#include <cstdio>
#include <cstdlib>
#include <string>
#include "Value.hpp"
#include "JSON.hpp"
using namespace Qentem;
using V = Value<char>;
using Str = String<char>;
using SV = StringView<char>;
static std::string S(const V &v) { Str s = v.Stringify(); return std::string(s.First() ? s.First() : "", s.Length()); }
static int fails = 0;
#define CHECK(cond) do { if (!(cond)) { printf("FAIL line %d: %s\n", __LINE__, #cond); ++fails; } } while (0)
#define CHECKS(v, exp) do { std::string _s = S(v); if (_s != (exp)) { printf("FAIL line %d: got %s expected %s\n", __LINE__, _s.c_str(), exp); ++fails; } } while (0)
struct Unbuf { Unbuf() { setvbuf(stdout, nullptr, _IONBF, 0); } } unbuf_;
