// Appending an element of an array to that same array (Array::operator+= releases the old storage
// before it reads the item), and Merge() of an array into itself / of a child into its parent.
#include <new>
#include <cstdio>
#include "Value.hpp"
using namespace Qentem;
using V = Value<char>;
int main(int argc, char **argv) {
    int which = (argc > 1) ? argv[1][0] - '0' : 0;
    const char *s = "a string long enough to live on the heap ......";
    if (which == 0) { V v; v += s; v += 2; v += v[0]; }                                       // model [s,2,s]
    if (which == 1) { V v; v += 1; v += s; v.Merge(v); }                                      // model [1,s,1,s]
    if (which == 2) { V v; v += 1; v[1] += 5; v[1] += s; v.Merge(Memory::Move(v[1])); }       // model [1,5,s] (child reset)
    return 0; // actual: heap-use-after-free in all three
}
