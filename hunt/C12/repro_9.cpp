// GetInt64() / GetUInt64() cast any double to long long: undefined for values outside the range and for NaN.
#include <new>
#include <cstdio>
#include "Value.hpp"
using namespace Qentem;
using V = Value<char>;
int main(int argc, char **argv) {
    int which = (argc > 1) ? argv[1][0] - '0' : 0;
    V v;
    if (which == 0) { v = 1e19;   printf("%llu (model 10000000000000000000)\n", v.GetUInt64()); } // fits SizeT64, goes through SizeT64I
    if (which == 1) { v = 1e19;   printf("%lld\n", v.GetInt64()); }
    if (which == 2) { v = "1e30"; printf("%lld\n", v.GetInt64()); }   // numeric string
    if (which == 3) { v = (0.0 / 0.0); printf("%lld\n", v.GetInt64()); }
    return 0; // actual: UBSan "outside the range of representable values of type 'long long'"
}
