// Merging an object into itself: HArray::operator+=(const HArray &) takes the source pointers
// before it resizes its own table.
#include <new>
#include <cstdio>
#include "Value.hpp"
using namespace Qentem;
using V = Value<char>;
int main(int argc, char **argv) {
    int which = (argc > 1) ? argv[1][0] - '0' : 0;
    V v; v["a"] = 1; v["b"] = 2; v["c"] = 3;
    if (which == 0) { v += v; } else { v.Merge(v); }  // model: unchanged {"a":1,"b":2,"c":3}; actual: heap-use-after-free
    return 0;
}
