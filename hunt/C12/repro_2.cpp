// operator=(ValueType) only overwrites the tag: the old payload is neither released nor replaced.
#include <new>
#include <cstdio>
#include "Value.hpp"
using namespace Qentem;
using V = Value<char>;
int main(int argc, char **argv) {
    int which = (argc > 1) ? argv[1][0] - '0' : 0;
    if (which == 0) { // string -> Array: the characters are read as an array of 5 Values
        V v; v = "hello";
        v = ValueType::Array;
        if (v.Size() != 0) { printf("Size()=%u, model: 0\n", v.Size()); }
        String<char> s = v.Stringify(); // heap-buffer-overflow
        printf("%s\n", s.First());
        return ((v.Size() != 0) || (s != "[]"));
    }
    // string -> Null: the 36 bytes of the string are leaked (LeakSanitizer)
    V *v = new V; *v = "hello world hello world hello world";
    *v = ValueType::Null;
    delete v;
    return 0;
}
