// C08: (a) a root scalar is a value tree JSON::Parse accepts, but Stringify() emits nothing for it, so
//          parse(stringify(v)) != v and stringify(parse(text)) != text;  (b) Stringify(stream, 0) emits invalid JSON numbers.
#include <new>
#include <cstdio>
#include <cstring>
#include "JSON.hpp"
using namespace Qentem;
int main() {
    int bad = 0;
    Value<char> s = JSON::Parse("\"two\"");
    String<char> t = s.Stringify(17);
    printf("parse(\"two\") is string: %d, stringify -> '%s' (length %u)\n", int(s.IsString()), t.First() ? t.First() : "", unsigned(t.Length()));
    if (s.IsString() && t.Length() == 0) ++bad;
    Value<char> n{1.5}; String<char> tn = n.Stringify(17);
    printf("Value{1.5}.Stringify(17) -> '%s'\n", tn.First() ? tn.First() : "");
    if (tn.Length() == 0) ++bad;
    Value<char> a; a += 1e21; a += 1.0; a += 0.1;
    String<char> t0 = a.Stringify(0);
    printf("[1e21,1.0,0.1].Stringify(0) -> %s\n", t0.First());
    if (JSON::Parse(t0.First(), t0.Length()).IsUndefined()) ++bad;
    return bad;
}
