// Value::operator=(ObjectT&&/ArrayT&&/StringT&&) with a payload that lives inside the value itself:
// reset() releases the tree that holds the source, then the source header is read -> heap-use-after-free.
// usage: ./repro_1 [1|2|3]   (default 1)
#include <new>
#include <cstdio>
#include <cstdlib>
#include "JSON.hpp"
using namespace Qentem;
int main(int argc, char **argv) {
    const int    t = (argc > 1) ? atoi(argv[1]) : 1;
    Value<char>  v;
    if (t == 1) { v["a"]["b"] = 1; v["a"]["c"] = "a string long enough to be on the heap"; v = Memory::Move(*v["a"].GetObject()); }
    if (t == 2) { v["a"] = "a string long enough to be on the heap";                         v = Memory::Move(*v["a"].GetString()); }
    if (t == 3) { v["a"][0] = "x"; v["a"][1] = "a string long enough to be on the heap";     v = Memory::Move(*v["a"].GetArray()); }
    // required: v == the former member ({"b":1,"c":"..."} / the string / ["x","..."]), as with v = Move(v["a"]) which works
    printf("%s\n", v.Stringify().First());
    return 0;
}
