// Value::operator+=(Value&&) / operator+=(const Value&) when *this is NOT an array and the source is *this or lives inside it:
// reset() releases the payload that contains the source before array_ += source.
// usage: ./repro_2 [1|2|3]  1: v += Move(v["b"]) (UAF)  2: v += v["b"] (UAF)  3: string v; v += Move(v) (cyclic ownership -> leak, value lost)
#include <new>
#include <cstdio>
#include <cstdlib>
#include "JSON.hpp"
using namespace Qentem;
int main(int argc, char **argv) {
    const int   t = (argc > 1) ? atoi(argv[1]) : 1;
    Value<char> v;
    if (t == 1) { v["a"] = 5; v["b"] = "a string long enough to be on the heap"; v += Memory::Move(v["b"]); }
    if (t == 2) { v["a"] = 5; v["b"] = "a string long enough to be on the heap"; v += v["b"]; }
    if (t == 3) { v = "a string long enough to be on the heap"; v += Memory::Move(v); } // LeakSanitizer: 48 bytes; v ends Undefined
    printf("%s\n", v.Stringify().First());
    return 0;
}
