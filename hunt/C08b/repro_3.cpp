// Move-merging a child container into its parent when the parent has to grow:
// the parent's resize() relocates (bitwise) the element that holds the source header and frees the old block,
// then the source header is read/cleared through the stale reference -> heap-use-after-free (and a write into freed memory).
// usage: ./repro_3 [1..5]
#include <new>
#include <cstdio>
#include <cstdlib>
#include "JSON.hpp"
using namespace Qentem;
int main(int argc, char **argv) {
    const int   t = (argc > 1) ? atoi(argv[1]) : 1;
    Value<char> v;
    if (t <= 3) {
        v["a"]["x"] = "a string long enough to be on the heap 1"; v["a"]["y"] = "a string long enough to be on the heap 2"; v["a"]["z"] = 3; v["b"] = 1; // capacity 2, size 2
        if (t == 1) v += Memory::Move(*v["a"].GetObject()); // HArray::operator+=(HArray&&)  HArray.hpp:128
        if (t == 2) v.Merge(Memory::Move(v["a"]));          // Value::Merge(Value&&)         Value.hpp:1051
        if (t == 3) v += Memory::Move(v["a"]);              // Value::operator+=(Value&&)    Value.hpp:423
    } else {
        v[0][0] = "a string long enough to be on the heap 1"; v[0][1] = 2; v[0][2] = 3; v[1] = 1; v.GetArray()->Compress(); // capacity == size == 2
        if (t == 4) { Value<char> &c = v[0]; v += Memory::Move(*c.GetArray()); } // Array::operator+=(Array&&)  Array.hpp:126
        if (t == 5) v.Merge(Memory::Move(v[0]));                                 // Value::Merge(Value&&): val.Reset() on the relocated element, Value.hpp:1054
    }
    printf("%s\n", v.Stringify().First());
    return 0;
}
