// repro_1: digits are computed from a big integer that was cut to as few as 64 (p<=18) / 128 (p<=37) significant
// bits inside the power-of-five loop of Digit::realToString, so the rounding digit itself is wrong (one too low).
// Build: clang++ -std=c++17 -O1 -march=native -DQENTEM_SSE2=1 -w -g -fsanitize=address,undefined
//        -fno-sanitize-recover=all -I/tmp/wt/gC10/Include repro_1.cpp && ./a.out   (exit status 1 on the defective tree)
#include <new>
#include <cstdio>
#include <cstring>
#include <cstdint>
#include <string>
#include "Digit.hpp"
#include "StringStream.hpp"
using namespace Qentem;

static int failures = 0;

template <typename F>
static void check(const char *what, F value, unsigned precision) {
    StringStream<char> s;
    Digit::NumberToString(s, value, Digit::RealFormatInfo(precision)); // Default format
    std::string actual(s.First(), s.Length());
    char ref[256], exact[256];
    snprintf(ref, sizeof ref, "%.*g", (int)precision, (double)value);
    snprintf(exact, sizeof exact, "%.*e", (int)precision + 12, (double)value); // exact digits beyond the cut
    const bool ok = (actual == ref);
    printf("%-28s p=%-2u library=[%s]\n%-28s      printf =[%s]\n%-28s      exact  = %s   %s\n", what, precision, actual.c_str(), "",
           ref, "", exact, ok ? "ok" : "MISMATCH");
    failures += !ok;
}

static double d(uint64_t bits) { double v; memcpy(&v, &bits, 8); return v; }
static float  f(uint32_t bits) { float v; memcpy(&v, &bits, 4); return v; }

int main() {
    // normal doubles with short mantissas, 17 significant digits (the C11 text) - digit 17 one too low
    check("double 0x3626850000000000", d(0x3626850000000000ULL), 17); // 7.704244276840754e-48 (=0x6850 * 2^-16x..)
    check("double 0x03a8182000000000", d(0x03a8182000000000ULL), 17); // 4.8288910021798224e-291
    check("double 0x323e380000000000", d(0x323e380000000000ULL), 17); // 1.1208757336608552e-66
    // 18 digits: about 0.5% of short-mantissa values below 1e-41
    check("double 0x0000000000000012", d(0x12ULL), 18);               // 18 * 2^-1074
    check("double 0x02a3c18000000000", d(0x02a3c18000000000ULL), 18); // 6.0415753607424377e-296
    // second word boundary: 36/37 digits
    check("double 0x0197800000000000", d(0x0197800000000000ULL), 37); // 5.4829237587064109e-301
    check("double 0x000000000000004a", d(0x4aULL), 37);
    // float: 18 digits, and 39 digits (precision >= MaxCut uses MaxIndex, still cuts 64 bits although 224 bits suffice)
    check("float  0x000067e0", f(0x67e0U), 18);
    check("float  0x00000025", f(0x25U), 39);
    // control: same values one digit shorter / longer are right
    check("control double 0x12 p=19", d(0x12ULL), 19);
    check("control double 0x12 p=16", d(0x12ULL), 16);
    printf("failures=%d\n", failures);
    return failures != 0;
}
