// repro_3: Resize(n) with ActualSize() <= n < Size() drops LIVE entries, because it truncates by slot
// number (tombstones included) before compacting.
// History: insert a,b,c ; remove a ; Resize(2)   (2 == number of live entries)
// Expected: b and c survive (there is room for exactly the two live entries), order b,c.
// Actual  : c is destroyed; only b survives.
#include <new>
#include <cstdio>
#include "HArray.hpp"
#include "HList.hpp"
#include "String.hpp"
using namespace Qentem;
using QS = String<char>;

int main() {
    HArray<QS, QS> h;
    h.Insert(QS("a"), QS("1"));
    h.Insert(QS("b"), QS("2"));
    h.Insert(QS("c"), QS("3"));
    h.Remove(QS("a"));
    const SizeT live = h.ActualSize(); // 2
    h.Resize(live);
    printf("HArray: live before=%u after=%u Has(b)=%d Has(c)=%d\n", live, h.ActualSize(), int(h.Has(QS("b"))),
           int(h.Has(QS("c"))));
    bool ok = h.Has(QS("b")) && h.Has(QS("c"));

    HList<QS> l;
    l.Insert(QS("a"));
    l.Insert(QS("b"));
    l.Insert(QS("c"));
    l.RemoveIndex(0);
    l.Resize(l.ActualSize());
    printf("HList : Has(b)=%d Has(c)=%d\n", int(l.Has(QS("b"))), int(l.Has(QS("c"))));
    ok = ok && l.Has(QS("b")) && l.Has(QS("c"));
    return ok ? 0 : 1;
}
