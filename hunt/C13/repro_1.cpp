// repro_1: self copy-merge (a += a) reads freed memory when the merge has to grow the table.
// Expected: a += a leaves the table unchanged (every key already present, value replaced by itself).
// Actual  : heap-use-after-free in HArray::operator+=(const HArray&) (same for HList).
#include <new>
#include <cstdio>
#include "HArray.hpp"
#include "HList.hpp"
#include "String.hpp"
using namespace Qentem;
using QS = String<char>;

int main(int argc, char **argv) {
    if (argc > 1) { // HList variant
        HList<QS> l;
        l.Insert(QS("a"));
        l.Insert(QS("b")); // Size 2 == Capacity 2  ->  2*Size > Capacity -> resize() inside +=
        l += l;
        bool ok = (l.Size() == 2) && l.Has(QS("a")) && l.Has(QS("b"));
        printf("HList self-merge %s\n", ok ? "ok" : "WRONG");
        return ok ? 0 : 1;
    }
    HArray<QS, QS> a;
    a.Insert(QS("a"), QS("1"));
    a.Insert(QS("b"), QS("2")); // Size 2 == Capacity 2
    a += a;                     // src_item/src_end captured before resize(4) frees the block
    bool ok = (a.Size() == 2) && a.GetValue(QS("a")) && (*a.GetValue(QS("a")) == "1") && a.GetValue(QS("b")) &&
              (*a.GetValue(QS("b")) == "2");
    printf("HArray self-merge %s\n", ok ? "ok" : "WRONG");
    return ok ? 0 : 1;
}
