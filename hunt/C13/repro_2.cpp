// repro_2: self move-merge (a += move(a)).
// Expected (like self move-assignment, which HashTable::operator=(&&) guards): table unchanged, or at
//          least a valid empty table with nothing leaked.
// Actual  : (a) no growth needed: every item finds itself, its own Key is destroyed in place, then the
//               block is freed without destroying the Values -> table silently emptied, all values leak.
//           (b) growth needed (2*Size > Capacity): heap-use-after-free like repro_1.
#include <new>
#include <cstdio>
#include "HArray.hpp"
#include "String.hpp"
using namespace Qentem;
using QS = String<char>;

int main(int argc, char **argv) {
    HArray<QS, QS> a;
    if (argc > 1) {
        a.Insert(QS("a"), QS("1"));
        a.Insert(QS("b"), QS("2")); // Size == Capacity == 2 -> resize -> UAF
    } else {
        a.Reserve(8);
        a.Insert(QS("a"), QS("value that owns memory 1"));
        a.Insert(QS("b"), QS("value that owns memory 2")); // 2*2 <= 8, no resize
    }
    a += Memory::Move(a);
    printf("Size=%u ActualSize=%u Has(a)=%d\n", a.Size(), a.ActualSize(), int(a.Has(QS("a"))));
    // LeakSanitizer reports the two values at exit; also fail explicitly:
    return (a.ActualSize() == 2) ? 0 : 1;
}
