// repro_4: the byte size of the table block is computed in 32-bit SizeT and wraps.
// allocate(): Memory::Allocate<char>(size_sum * new_capacity) with size_sum = 4 + sizeof(HItem) (= 52 for
// String/String). For new_capacity = 2^30 the product is 52 * 2^30 mod 2^32 == 0 bytes, yet Capacity()
// reports 2^30; the first lookup/insert indexes far outside the 0-byte block.
// Expected: std::bad_alloc (or any clean failure). Actual: heap-buffer-overflow.
// Same through HArray(SizeT) ctor, Resize(n), Expect(n) and the move/copy-merge (n_size).
#include <new>
#include <cstdio>
#include "HArray.hpp"
#include "String.hpp"
using namespace Qentem;
using QS = String<char>;

int main(int argc, char **argv) {
    HArray<QS, QS> h;
    const SizeT    n = SizeT{1} << 30U;
    if (argc > 1) {
        h.Expect(n);
    } else {
        h.Reserve(n);
    }
    printf("Capacity=%u\n", h.Capacity());
    h.Insert(QS("a"), QS("1")); // out-of-bounds read of the bucket head, then OOB write of the item
    printf("survived\n");
    return 1;
}
