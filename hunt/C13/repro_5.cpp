// repro_5 (resource growth, not a lookup error): a bounded live set makes the table grow without bound.
// Remove() never gives the slot back and expand() always doubles the capacity when Size()==Capacity(),
// even if (almost) all slots are tombstones. One live key that is inserted and removed N times ends with
// Capacity ~ N, and (with repro_4) the capacity eventually reaches the wrapping allocation sizes.
// Expected: capacity stays O(max live entries).  Actual: capacity >= N.
#include <new>
#include <cstdio>
#include "HArray.hpp"
#include "String.hpp"
using namespace Qentem;
using QS = String<char>;

int main() {
    HArray<QS, QS> h;
    SizeT          max_live = 0;
    for (unsigned i = 0; i < 100000; i++) {
        h.Insert(QS("k"), QS("v"));
        if (h.ActualSize() > max_live) max_live = SizeT(h.ActualSize());
        h.Remove(QS("k"));
    }
    printf("max live=%u  Size=%u  Capacity=%u\n", max_live, h.Size(), h.Capacity());
    return (h.Capacity() <= 64) ? 0 : 1;
}
