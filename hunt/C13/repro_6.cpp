// repro_6 (observation): Get / operator[] / Insert grow the table BEFORE looking the key up, so a pure
// lookup or overwrite of an EXISTING key in a full table (Size()==Capacity()) reallocates the block:
// the capacity doubles although nothing is added, and references obtained earlier dangle.
// Expected: no reallocation when the key is already present.  Actual: realloc -> stale reference (ASan UAF).
#include <new>
#include <cstdio>
#include "HArray.hpp"
#include "String.hpp"
using namespace Qentem;
using QS = String<char>;

int main(int argc, char **argv) {
    HArray<QS, QS> h;
    QS &v1 = h["k1"];
    QS &v2 = h["k2"]; // Size 2 == Capacity 2; v1, v2 valid (no growth happened for k2)
    v1     = QS("x");
    const SizeT cap_before = h.Capacity();
    QS &again = h["k1"]; // existing key: nothing to insert, yet expand() runs first
    (void)again;
    printf("capacity before=%u after lookup of an existing key=%u\n", cap_before, h.Capacity());
    if (argc > 1) {
        v2 = QS("y"); // heap-use-after-free: v2 points into the freed block
    }
    return (h.Capacity() == cap_before) ? 0 : 1;
}
