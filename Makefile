# Builds the conformance harnesses from the CURRENT working tree of $(REPO).
# Targets: build/<name>.<variant>   (source: harness/<name>.cpp)
REPO ?= /repo
INC  := $(REPO)/Include
HDRS := $(wildcard $(INC)/*.hpp) $(wildcard harness/*.hpp) build/headers.sha
GUARD := -DQENTEM_VERIF=1
CXXSTD := -std=c++17
WARN := -w
GXX ?= g++
CLANGXX ?= clang++
COMMON := $(CXXSTD) $(WARN) -fno-exceptions -pthread -I$(INC) -Iharness
SAN := -fsanitize=address,undefined -fno-sanitize=alignment,function,vptr,float-cast-overflow -fno-sanitize-recover=all -fno-omit-frame-pointer -g -O1

build/headers.sha:
	@mkdir -p build
	@touch $@

build/%.plain: harness/%.cpp $(HDRS)
	@mkdir -p build
	$(GXX) $(COMMON) -O2 -march=native -DQENTEM_SSE2=1 $< -o $@

build/%.scalar: harness/%.cpp $(HDRS)
	@mkdir -p build
	$(GXX) $(COMMON) -O2 -march=native $< -o $@

build/%.avx2: harness/%.cpp $(HDRS)
	@mkdir -p build
	$(GXX) $(COMMON) -O2 -march=native -DQENTEM_AVX2=1 $< -o $@

build/%.noesc: harness/%.cpp $(HDRS)
	@mkdir -p build
	$(GXX) $(COMMON) -O2 -march=native -DQENTEM_SSE2=1 -DQENTEM_AUTO_ESCAPE_HTML=0 $< -o $@

build/%.asan: harness/%.cpp $(HDRS)
	@mkdir -p build
	$(CLANGXX) $(COMMON) $(SAN) -march=native -DQENTEM_SSE2=1 -DVERIF_ASAN=1 $< -o $@

build/%.xasan: harness/%.cpp $(HDRS)
	@mkdir -p build
	$(CLANGXX) $(COMMON) $(GUARD) $(SAN) -march=native -DQENTEM_SSE2=1 -DVERIF_ASAN=1 $< -o $@

build/%.asan_scalar: harness/%.cpp $(HDRS)
	@mkdir -p build
	$(CLANGXX) $(COMMON) $(SAN) -march=native -DVERIF_ASAN=1 $< -o $@

build/%.asan_avx2: harness/%.cpp $(HDRS)
	@mkdir -p build
	$(CLANGXX) $(COMMON) $(SAN) -march=native -DQENTEM_AVX2=1 -DVERIF_ASAN=1 $< -o $@

build/%.asan_noesc: harness/%.cpp $(HDRS)
	@mkdir -p build
	$(CLANGXX) $(COMMON) $(SAN) -march=native -DQENTEM_SSE2=1 -DQENTEM_AUTO_ESCAPE_HTML=0 -DVERIF_ASAN=1 $< -o $@

build/%.tsan: harness/%.cpp $(HDRS)
	@mkdir -p build
	$(CLANGXX) $(COMMON) -fsanitize=thread -g -O1 -march=native -DQENTEM_SSE2=1 -DVERIF_TSAN=1 $< -o $@ -lpthread

build/%.f16: harness/%.cpp $(HDRS)
	@mkdir -p build
	$(GXX) -std=c++23 $(WARN) -fno-exceptions -I$(INC) -Iharness -O2 -march=native -DQENTEM_SSE2=1 -DQENTEM_ENABLE_FLOAT_16=1 $< -o $@

clean:
	rm -rf build out

# first build of everything the quick checks need (also rebuilt on demand by each check)
SETUP_BINS := $(shell cat setup_bins.txt 2>/dev/null)
setup:
	@python3 tools/stamp.py
	@$(MAKE) -s -j16 $(addprefix build/,$(SETUP_BINS))
	@echo setup done
