# Builds the conformance harnesses from the CURRENT working tree of $(REPO).
# Targets: $(B)/<name>.<variant>   (source: harness/<name>.cpp); B defaults to build (seed evaluation uses a scratch directory)
REPO ?= /repo
B ?= build
INC  := $(REPO)/Include
HDRS := $(wildcard $(INC)/*.hpp) $(wildcard harness/*.hpp) $(B)/headers.sha
GUARD := -DQENTEM_VERIF=1
CXXSTD := -std=c++17
WARN := -w
GXX ?= g++
CLANGXX ?= clang++
COMMON := $(CXXSTD) $(WARN) -fno-exceptions -pthread -I$(INC) -Iharness
SAN := -fsanitize=address,undefined -fno-sanitize=alignment,function,vptr,float-cast-overflow -fno-sanitize-recover=all -fno-omit-frame-pointer -g -O1

$(B)/headers.sha:
	@mkdir -p $(B)
	@touch $@

$(B)/%.plain: harness/%.cpp $(HDRS)
	@mkdir -p $(B)
	$(GXX) $(COMMON) -O2 -march=native -DQENTEM_SSE2=1 $< -o $@

$(B)/%.scalar: harness/%.cpp $(HDRS)
	@mkdir -p $(B)
	$(GXX) $(COMMON) -O2 -march=native $< -o $@

$(B)/%.avx2: harness/%.cpp $(HDRS)
	@mkdir -p $(B)
	$(GXX) $(COMMON) -O2 -march=native -DQENTEM_AVX2=1 $< -o $@

$(B)/%.noesc: harness/%.cpp $(HDRS)
	@mkdir -p $(B)
	$(GXX) $(COMMON) -O2 -march=native -DQENTEM_SSE2=1 -DQENTEM_AUTO_ESCAPE_HTML=0 $< -o $@

$(B)/%.asan: harness/%.cpp $(HDRS)
	@mkdir -p $(B)
	$(CLANGXX) $(COMMON) $(SAN) -march=native -DQENTEM_SSE2=1 -DVERIF_ASAN=1 $< -o $@

$(B)/%.xasan: harness/%.cpp $(HDRS)
	@mkdir -p $(B)
	$(CLANGXX) $(COMMON) $(GUARD) $(SAN) -march=native -DQENTEM_SSE2=1 -DVERIF_ASAN=1 $< -o $@

$(B)/%.asan_scalar: harness/%.cpp $(HDRS)
	@mkdir -p $(B)
	$(CLANGXX) $(COMMON) $(SAN) -march=native -DVERIF_ASAN=1 $< -o $@

$(B)/%.asan_avx2: harness/%.cpp $(HDRS)
	@mkdir -p $(B)
	$(CLANGXX) $(COMMON) $(SAN) -march=native -DQENTEM_AVX2=1 -DVERIF_ASAN=1 $< -o $@

$(B)/%.asan_noesc: harness/%.cpp $(HDRS)
	@mkdir -p $(B)
	$(CLANGXX) $(COMMON) $(SAN) -march=native -DQENTEM_SSE2=1 -DQENTEM_AUTO_ESCAPE_HTML=0 -DVERIF_ASAN=1 $< -o $@

$(B)/%.tsan: harness/%.cpp $(HDRS)
	@mkdir -p $(B)
	$(CLANGXX) $(COMMON) -fsanitize=thread -g -O1 -march=native -DQENTEM_SSE2=1 -DVERIF_TSAN=1 $< -o $@ -lpthread

$(B)/%.f16: harness/%.cpp $(HDRS)
	@mkdir -p $(B)
	$(GXX) -std=c++23 $(WARN) -fno-exceptions -I$(INC) -Iharness -O2 -march=native -DQENTEM_SSE2=1 -DQENTEM_ENABLE_FLOAT_16=1 $< -o $@

clean:
	rm -rf build out

# first build of everything the quick checks need (also rebuilt on demand by each check)
SETUP_BINS := $(shell cat setup_bins.txt 2>/dev/null)
setup:
	@python3 tools/stamp.py
	@$(MAKE) -s -j16 $(addprefix $(B)/,$(SETUP_BINS))
	@echo setup done
